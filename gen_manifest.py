#!/usr/bin/env python3
"""Regenerates MANIFEST.json from the property modules in props/ (claims) and NOT_APPLICABLE below."""
import json, os, sys, importlib
HERE = os.path.dirname(os.path.abspath(__file__))
sys.path[:0] = [os.path.join(HERE, "vlib"), os.path.join(HERE, "props"), os.path.join(HERE, "mirsym")]

NOT_APPLICABLE = {
}
PENDING = 'check under construction (not yet registered)'

TECH = {'kani': 'bounded model checking of the compiled Rust (Kani 0.68 / CBMC 6.11, SAT), unwinding assertions on, native playback of counterexamples',
        'mirsym': 'bounded symbolic execution of rustc MIR (regenerated per run) with z3 deciding every branch and oracle; native replay of counterexamples'}

def main():
    man = json.load(open(os.path.join(HERE, "MANIFEST.json")))
    checks = []
    claimed = []
    for i in range(1, 21):
        pid = 'C%02d' % i
        if not os.path.exists(os.path.join(HERE, 'props', pid + '.py')):
            continue
        if pid in NOT_APPLICABLE:
            continue
        mod = importlib.import_module(pid)
        if getattr(mod, 'REGISTERED', True) is False:
            continue
        engines = []
        if getattr(mod, 'KANI', []): engines.append('kani')
        if getattr(mod, 'MIR', []): engines.append('mirsym')
        nq = sum(1 for h in getattr(mod, 'KANI', []) if h.tier == 'quick') + sum(1 for q in getattr(mod, 'MIR', []) if q.tier == 'quick')
        nt = sum(1 for h in getattr(mod, 'KANI', []) if h.tier != 'deep') + sum(1 for q in getattr(mod, 'MIR', []) if q.tier != 'deep')
        checks.append({
            'property_id': pid,
            'quick_cmd': './check %s --tier quick' % pid,
            'thorough_cmd': './check %s --tier thorough' % pid,
            'evidence_file': 'evidence/%s.json' % pid,
            'replay_cmd_template': './check %s --replay {path}' % pid,
            'engine': '+'.join(engines),
            'level_claimed': {'category': 'other',
                              'text': ('Solver-decided, bounded: %d obligations in the quick tier, %d in the thorough tier; each holds for ALL values of its symbolic inputs inside the stated bounds (listed per obligation in the evidence), nothing outside them. ' % (nq, nt)) + mod.EXPLANATION,
                              'design_ref': 'DESIGN.md section 4, ' + pid},
            'level_note': 'Assumptions: ' + '; '.join(mod.ASSUMPTIONS) + '. Outside the claim: ' + '; '.join(getattr(mod, 'OUTSIDE', [])),
            'technique': '; '.join(TECH[e] for e in engines),
        })
        claimed.append(pid)
    man['checks'] = checks
    na = []
    for i in range(1, 21):
        pid = 'C%02d' % i
        if pid in claimed:
            continue
        na.append({'property_id': pid, 'reason': NOT_APPLICABLE.get(pid, PENDING)})
    man['not_applicable'] = na
    man['engines'] = [
        {'name': 'kani', 'path': 'kani/', 'serves_properties': [c['property_id'] for c in checks if 'kani' in c['engine']],
         'kind_free_text': 'Kani proof harnesses over the real crate (path dependency on a scratch copy of /repo working tree)'},
        {'name': 'mirsym', 'path': 'mirsym/', 'serves_properties': [c['property_id'] for c in checks if 'mirsym' in c['engine']],
         'kind_free_text': 'own bounded symbolic executor over rustc MIR (-Zunpretty=mir of the scratch copy) with z3; generic parameters stay opaque, library calls by documented-contract models, unmodelled callee = INCONCLUSIVE'}]
    man['hooks']['source_commits'] = ['9133b43']
    man['notes'] = ('Every check copies /repo working tree to a scratch dir under /var/tmp, rebuilds (Kani build / MIR dump) there and removes it. '
                    'Exit 0 = all registered obligations proved within bounds; exit 1 = VIOLATION reproduced natively; exit 2 = inconclusive (never a VIOLATION line). '
                    'known_findings.txt lists fixed defects (history only) and, if any, known findings that print KNOWN-FINDING.')
    json.dump(man, open(os.path.join(HERE, "MANIFEST.json"), 'w'), indent=1)
    print('claimed:', claimed)

main()
