"""One BatchSort::predict call (one scene in the batch) executed from MIR on a symbolic tracker state (engine M), judged by the
SAME oracle as the simple tracker's predict step (props/stepsort.py): the batch tracker refines the specification the simple
tracker refines.

The voting threads are modelled like the store workers: `voting_thread` (the real function) is executed on its command queue
when the caller blocks - on the result channel (`PredictionBatchResult::get`) or on the busy monitor (`Condvar::wait_while`
of the next submission). Channels are unbounded FIFO queues here (the bounded(1) result channel's back-pressure is outside),
a voting thread that finds its queue empty parks. Two voting threads are explored in both service orders."""
import z3
from mir_engine import MQ
from mirlib import *
from storelib import sender, receiver
import stepsort as _s


class BatchSched:
    """store workers as in the inner scheduler; voting threads run when the caller blocks on the result channel / the monitor"""

    def __init__(self, inner, vqs, run_voting, order):
        self.inner, self.vqs, self.run_voting, self.order = inner, vqs, run_voting, order
        self.voting = False
        self.caller_cells = []

    def on_send(self, vm, q):
        self.inner.on_send(vm, q)

    def on_block(self, vm, q):
        if any(q is v for v in self.vqs):
            return                      # a voting thread polling its own empty queue parks
        self.inner.on_block(vm, q)      # store workers serve whoever waits for them
        if not self.voting and any(q is c for c in self.caller_cells):
            self.voting = True
            try:
                for i in self.order:
                    if self.vqs[i].v.items:
                        self.run_voting(i)
            finally:
                self.voting = False


def mk_driver(nvote, prev_monitor, visual=False):
    def driver(vm, P, c):
        main, opts = c['main'], c['opts']
        third = Ref(c['metric_opts']) if visual else c['method']     # voting_thread's third argument: metric options / positional method
        vqs = [Cell(VecV((), 'queue'), 'voteq%d' % i) for i in range(nvote)]
        counter_cell = c['counter_cell']
        store_arc = Ref(Cell(main.value, 'store_lock'))
        vt = P.fns['visual_sort::batch_api::voting_thread' if visual else 'sort::batch_api::voting_thread']
        vt = vt[0] if isinstance(vt, list) else vt

        def run_voting(i):
            vm.exec_fn(vt, [store_arc, receiver(vqs[i]), third, Ref(counter_cell)], {})
        order = list(range(nvote))
        if nvote > 1 and vm.choose_n(2, "voting thread service order") == 1:
            order.reverse()
        sched = BatchSched(c['sched'], vqs, run_voting, order)
        vm.notes['sched'] = sched
        # busy monitor of the previous batch: none yet / finished (0) / still being voted (1: its command is queued)
        if prev_monitor == 'none':
            mon = NONE
        else:
            mcell = Cell((usize(0), Opaque('Condvar', 'prev')), 'prev_monitor')
            mon = SOME(Ref(mcell))
            sched.caller_cells.append(mcell)
        T = 'BatchVisualSort' if visual else 'BatchSort'
        threads = VecV(tuple((sender(q), Opaque('JoinHandle', 'vt%d' % i)) for i, q in enumerate(vqs)))
        aw = mk(P, 'AutoWaste', periodicity=c['awp'], counter=c['awc'])
        if visual:
            bs = Cell(mk(P, T, monitor=mon, store=store_arc, wasted_store=c['wasted'].value, metric_opts=Ref(c['metric_opts']), track_opts=Ref(opts),
                         voting_threads=threads, auto_waste=aw), 'batch_visual_sort')
        else:
            bs = Cell(mk(P, T, monitor=mon, store=store_arc, wasted_store=c['wasted'].value, opts=Ref(opts), voting_threads=threads, auto_waste=aw), 'batch_sort')
        env = {'T': 'VisualSortObservation' if visual else '(Universal2DBox, Option<i64>)'}
        new = P.impl_methods[('PredictionBatchRequest', None, 'new')][0][0]
        add = P.impl_methods[('PredictionBatchRequest', None, 'add')][0][0]
        pair = vm.exec_fn(new, [], env)
        req, res = Cell(pair[0], 'request'), Cell(pair[1], 'result')
        for d in c['dets']:
            vm.exec_fn(add, [Ref(req), c['scene'], d], env)
        rq = fld(P, res.v, 'PredictionBatchResult', 'receiver').fields[0].cell
        sched.caller_cells.append(rq)
        bsz = P.impl_methods[('PredictionBatchResult', None, 'batch_size')][0][0]
        n = vm.exec_fn(bsz, [Ref(res)], {})
        vm.check(n.e == (1 if c['dets'] else 0), "the result object announces one result per scene of the batch")
        if not c['dets']:
            return VecV(())
        try:
            vm.exec_fn(P.impl_methods[(T, None, 'predict')][0][0], [Ref(bs), req.v], {})
        except Panic as e:
            vm.check(BOOL('deadlock' not in e.msg), "submission does not deadlock: " + e.msg[:100])
            raise
        get = P.impl_methods[('PredictionBatchResult', None, 'get')][0][0]
        try:
            out = vm.exec_fn(get, [Ref(res)], {})
        except Panic as e:
            vm.check(BOOL(False), "retrieval delivers the scene's result (no result arrived: %s)" % e.msg[:100])
            raise
        sc, recs = out
        vm.check(sc.e == c['scene'].e, "the result carries the scene it belongs to")
        vm.check(BOOL(len(rq.v.items) == 0), "exactly one result per scene of the batch")
        vm.check(BOOL(all(len(q.v.items) == 0 for q in vqs)), "every voting command was consumed")
        m = fld(P, bs.v, T, 'monitor')
        vm.check(BOOL(m.variant == 1), "the batch has a busy monitor")
        if m.variant == 1:
            left = vm.deref(m.fields[0])[0]
            vm.check(left.e == 0, "the busy monitor is back to zero once every scene's result was delivered (the next submission will not wait forever)")
        return recs
    return driver


BATCH_REPLAY = r'''
use similari::trackers::batch::PredictionBatchRequest;
use similari::trackers::sort::batch_api::BatchSort;
use similari::trackers::sort::simple_api::Sort;
use similari::trackers::sort::{PositionalMetricType, SortTrack};
use similari::trackers::tracker_api::TrackerAPI;
use similari::utils::bbox::{BoundingBox, Universal2DBox};
use std::collections::HashMap;
use std::sync::mpsc;
use std::time::Duration;

/// the same deterministic pseudo-random multi-scene history through a batch tracker (all scenes of a step in one batch) and a
/// simple tracker (one call per scene): per scene the same grouping of detections into tracks (ids up to a renaming that is
/// consistent over the whole history), the same boxes, epochs, lengths; exactly one result per scene of a batch, one record per
/// detection in order
fn history(dshards: usize, vshards: usize, max_idle: usize, seed: u64, steps: usize, method: PositionalMetricType) {
    let mut b = BatchSort::new(dshards, vshards, 2, max_idle, method, 0.5, None, 1.0 / 20.0, 1.0 / 160.0);
    let mut s = Sort::new(dshards, 2, max_idle, method, 0.5, None, 1.0 / 20.0, 1.0 / 160.0);
    let mut rename: HashMap<u64, u64> = HashMap::new();     // batch id -> simple id
    let mut used: HashMap<u64, u64> = HashMap::new();       // simple id -> batch id
    let mut rng = seed.wrapping_mul(6364136223846793005).wrapping_add(1442695040888963407);
    for step in 0..steps {
        rng = rng.wrapping_mul(6364136223846793005).wrapping_add(1442695040888963407);
        let ctx = format!("distance shards {} voting shards {} max_idle {} seed {} step {} {:?}", dshards, vshards, max_idle, seed, step, method);
        let mut per_scene: Vec<(u64, Vec<(Universal2DBox, Option<i64>)>)> = vec![];
        for scene in 0..3u64 {
            if (rng >> (20 + scene)) & 1 == 0 { continue; }
            let mask = (rng >> (30 + 4 * scene)) % 8;
            let dets: Vec<(Universal2DBox, Option<i64>)> = (0..3u64).filter(|p| (mask >> p) & 1 == 1).map(|p| {
                // objects drift slowly, 1000 apart; confidence below / above the minimum
                let mut bb: Universal2DBox = BoundingBox::new(1000.0 * p as f32 + 0.5 * step as f32, 3.0 * scene as f32, 10.0, 20.0).into();
                bb.confidence = [0.2f32, 0.9, 1.0][((rng >> (44 + p)) % 3) as usize];
                (bb, if (rng >> (50 + p)) & 1 == 1 { Some((step * 10) as i64 + p as i64) } else { None })
            }).collect();
            if !dets.is_empty() { per_scene.push((scene, dets)); }
        }
        if per_scene.is_empty() { continue; }
        let (mut req, res) = PredictionBatchRequest::<(Universal2DBox, Option<i64>)>::new();
        for (scene, dets) in per_scene.iter() { for d in dets.iter() { req.add(*scene, d.clone()); } }
        assert_eq!(res.batch_size(), per_scene.len(), "batch size = scenes of the batch ({})", ctx);
        b.predict(req);
        // retrieval under a watchdog: a result that never arrives fails the test instead of hanging it
        let (tx, rx) = mpsc::channel();
        let n = per_scene.len();
        let res2 = res.clone();
        std::thread::spawn(move || { for _ in 0..n { let _ = tx.send(res2.get()); } });
        let mut got: HashMap<u64, Vec<SortTrack>> = HashMap::new();
        for _ in 0..n {
            let (scene, recs) = rx.recv_timeout(Duration::from_secs(20)).unwrap_or_else(|_| panic!("a scene's result never arrived ({})", ctx));
            assert!(got.insert(scene, recs).is_none(), "two results for one scene ({})", ctx);
        }
        assert!(!res.ready(), "more results than scenes ({})", ctx);
        for (scene, dets) in per_scene.iter() {
            let want = s.predict_with_scene(*scene, dets);
            let have = got.get(scene).unwrap_or_else(|| panic!("no result for scene {} ({})", scene, ctx));
            assert_eq!(have.len(), dets.len(), "one record per detection ({})", ctx);
            for ((h, w), d) in have.iter().zip(want.iter()).zip(dets.iter()) {
                assert!((h.observed_bbox.xc - d.0.xc).abs() < 1e-6 && (h.observed_bbox.yc - d.0.yc).abs() < 1e-6, "records in submission order ({})", ctx);
                assert_eq!((h.scene_id, h.epoch, h.length, h.custom_object_id), (w.scene_id, w.epoch, w.length, w.custom_object_id), "scene / epoch / length / custom id as the simple tracker ({})", ctx);
                assert!((h.predicted_bbox.xc - w.predicted_bbox.xc).abs() < 1e-3 && (h.predicted_bbox.height - w.predicted_bbox.height).abs() < 1e-3, "predicted box as the simple tracker ({})", ctx);
                match rename.get(&h.id) {
                    Some(x) => assert_eq!(*x, w.id, "same grouping into tracks as the simple tracker: batch id {} was simple id {}, now {} ({})", h.id, x, w.id, ctx),
                    None => { assert!(used.insert(w.id, h.id).is_none(), "same grouping: simple id {} already matched to another batch id ({})", w.id, ctx); rename.insert(h.id, w.id); }
                }
            }
        }
        for scene in 0..3u64 { assert_eq!(b.current_epoch_with_scene(scene), s.current_epoch_with_scene(scene), "epochs per scene ({})", ctx); }
    }
}

/// every history runs in its own thread under a watchdog: a submission or retrieval that never returns fails the test
fn guarded<F: FnOnce() + Send + 'static>(what: String, f: F) {
    let (tx, rx) = mpsc::channel();
    std::thread::spawn(move || { f(); let _ = tx.send(()); });
    match rx.recv_timeout(Duration::from_secs(120)) {
        Ok(()) => {}
        Err(mpsc::RecvTimeoutError::Timeout) => panic!("no completion within 120 s (deadlock / lost result): {}", what),
        Err(mpsc::RecvTimeoutError::Disconnected) => panic!("the history failed: {}", what),
    }
}

#[test]
fn replay() {
    for method in [PositionalMetricType::IoU(0.3), PositionalMetricType::Mahalanobis] {
        for (d, v) in [(1usize, 1usize), (2, 1), (1, 2), (2, 3)] { for max_idle in [0usize, 2] { for seed in 0..4u64 {
            guarded(format!("shards {} voting {} idle {} seed {} {:?}", d, v, max_idle, seed, method), move || history(d, v, max_idle, seed, 40, method));
        } } }
    }
}

/// weak overlaps against configured IoU thresholds on both sides of the default 0.3: the batch tracker must decide like the
/// simple tracker (continue iff IoU x confidence >= the CONFIGURED threshold)
#[test]
fn replay_thresholds() {
    for thr in [0.1f32, 0.2, 0.3, 0.45] { for shift in [2.0f32, 4.0, 5.0, 6.0, 7.0] { for vshards in [1usize, 2] {
        guarded(format!("threshold {} shift {} voting {}", thr, shift, vshards), move || {
            let mut b = BatchSort::new(1, vshards, 1, 5, PositionalMetricType::IoU(thr), 0.05, None, 1.0 / 20.0, 1.0 / 160.0);
            let mut s = Sort::new(1, 1, 5, PositionalMetricType::IoU(thr), 0.05, None, 1.0 / 20.0, 1.0 / 160.0);
            for step in 0..2 {
                let bb: Universal2DBox = BoundingBox::new(100.0 + shift * step as f32, 50.0, 10.0, 10.0).into();
                let (mut req, res) = PredictionBatchRequest::<(Universal2DBox, Option<i64>)>::new();
                req.add(3, (bb.clone(), None));
                b.predict(req);
                let (scene, have) = res.get();
                let want = s.predict_with_scene(3, &[(bb, None)]);
                assert_eq!(scene, 3);
                assert_eq!((have[0].length, have[0].epoch), (want[0].length, want[0].epoch), "threshold {} shift {} step {}: length / epoch as the simple tracker", thr, shift, step);
            }
        });
    } } }
}
'''


def replay_batch(cex, v, vm):
    return BATCH_REPLAY


FUNCS = ["similari::trackers::sort::batch_api::BatchSort::predict", "similari::trackers::sort::batch_api::voting_thread",
         "similari::trackers::batch::{PredictionBatchRequest::{new, add, get_batch, get_sender, batch_size}, PredictionBatchResult::{get, batch_size}}"] + _s.FUNCS[1:]

from vm import Panic

MIR = []
for (nd, ns, nv, mon, tier, lite, maha) in [(1, 0, 1, 'none', 'quick', False, False), (1, 1, 1, 'none', 'quick', False, False), (1, 1, 1, 'done', 'quick', True, False),
                                            (2, 1, 2, 'done', 'quick', True, False), (1, 2, 1, 'none', 'quick', True, False), (1, 1, 1, 'none', 'quick', True, True),
                                            (2, 1, 1, 'none', 'thorough', False, False), (1, 2, 2, 'done', 'thorough', False, False), (2, 2, 1, 'none', 'thorough', True, False)]:
    MIR.append(MQ("step_batch_sort_d%d_t%d_v%d_%s%s" % (nd, ns, nv, mon, "_maha" if maha else ""), tier,
                  _s.mk_step(nd, ns, 1, lite=lite, maha=maha, driver=mk_driver(nv, mon)),
                  "one BatchSort::predict call (one scene) from an arbitrary valid tracker state satisfies the oracle of the simple tracker's predict step: one record per detection in order echoing "
                  "box / custom id / scene / new epoch; continuations only within the scene, through the gate, unexpired, maximum-weight one-to-one; fresh ids; lengths; untouched tracks unchanged; "
                  "only this scene's epoch advances - plus: one result per scene, tagged with its scene; the busy monitor returns to zero; submission and retrieval do not block forever",
                  "%d detections, %d stored tracks, %d voting thread(s) (both service orders), previous batch: %s; 1 shard; %s mode; voting threads run when the caller blocks; channels unbounded" % (
                      nd, ns, nv, {'none': 'none', 'done': 'finished'}[mon], "Mahalanobis" if maha else "IoU"),
                  FUNCS, spec_calls=_s._calls, replay=replay_batch, max_paths=200000, timeout=3000))


VISUAL_BATCH_REPLAY = r'''
use similari::trackers::batch::PredictionBatchRequest;
use similari::trackers::sort::{PositionalMetricType, SortTrack};
use similari::trackers::tracker_api::TrackerAPI;
use similari::trackers::visual_sort::batch_api::BatchVisualSort;
use similari::trackers::visual_sort::metric::VisualSortMetricType;
use similari::trackers::visual_sort::options::VisualSortOptions;
use similari::trackers::visual_sort::simple_api::VisualSort;
use similari::trackers::visual_sort::VisualSortObservation;
use similari::utils::bbox::BoundingBox;
use std::collections::HashMap;
use std::sync::mpsc;
use std::time::Duration;

/// the same multi-scene history (objects with their own look, sometimes jumping far away so that only appearance can
/// re-identify them) through the visual batch tracker and the simple visual tracker: same grouping per scene up to a
/// consistent renaming of ids, same epochs / lengths / voting types; one result per scene of a batch
fn history(dshards: usize, vshards: usize, seed: u64, steps: usize) {
    let opts = VisualSortOptions::default().max_idle_epochs(3).kept_history_length(2).visual_max_observations(3)
        .visual_minimal_track_length(2).visual_min_votes(1).visual_minimal_quality_use(0.5).visual_minimal_quality_collect(0.5)
        .positional_metric(PositionalMetricType::IoU(0.3)).visual_metric(VisualSortMetricType::Euclidean(1.0));
    let mut b = BatchVisualSort::new(dshards, vshards, &opts);
    let mut s = VisualSort::new(dshards, &opts);
    let looks: Vec<Vec<f32>> = (0..3).map(|p| vec![10.0 * p as f32, 1.0]).collect();
    let mut rename: HashMap<u64, u64> = HashMap::new();
    let mut used: HashMap<u64, u64> = HashMap::new();
    let mut rng = seed.wrapping_mul(6364136223846793005).wrapping_add(1442695040888963407);
    for step in 0..steps {
        rng = rng.wrapping_mul(6364136223846793005).wrapping_add(1442695040888963407);
        let ctx = format!("distance shards {} voting shards {} seed {} step {}", dshards, vshards, seed, step);
        let mut per_scene: Vec<(u64, Vec<VisualSortObservation>)> = vec![];
        let mut xcs: HashMap<u64, Vec<f32>> = HashMap::new();
        for scene in 0..2u64 {
            if (rng >> (20 + scene)) & 1 == 0 { continue; }
            let mask = (rng >> (30 + 4 * scene)) % 8;
            let obs: Vec<VisualSortObservation> = (0..3usize).filter(|p| (mask >> p) & 1 == 1).map(|p| {
                let jump = if (rng >> (40 + p)) % 5 == 0 { 5000.0 } else { 0.0 };
                let with_f = (rng >> (45 + p)) & 1 == 1;
                let bb = BoundingBox::new(1000.0 * p as f32 + jump + 0.5 * step as f32, 3.0 * scene as f32, 10.0, 20.0).as_xyaah();
                xcs.entry(scene).or_default().push(bb.xc);
                VisualSortObservation::new(if with_f { Some(&looks[p][..]) } else { None }, Some(if (rng >> (50 + p)) & 1 == 1 { 0.9 } else { 0.2 }), bb, Some(step as i64 * 10 + p as i64))
            }).collect();
            if !obs.is_empty() { per_scene.push((scene, obs)); }
        }
        if per_scene.is_empty() { continue; }
        let (mut req, res) = PredictionBatchRequest::<VisualSortObservation>::new();
        for (scene, obs) in per_scene.iter() { for o in obs.iter() { req.add(*scene, o.clone()); } }
        assert_eq!(res.batch_size(), per_scene.len(), "batch size = scenes of the batch ({})", ctx);
        b.predict(req);
        let mut got: HashMap<u64, Vec<SortTrack>> = HashMap::new();
        for _ in 0..per_scene.len() {
            let (scene, recs) = res.get();
            assert!(got.insert(scene, recs).is_none(), "two results for one scene ({})", ctx);
        }
        assert!(!res.ready(), "more results than scenes ({})", ctx);
        for (scene, obs) in per_scene.iter() {
            let want = s.predict_with_scene(*scene, obs);
            let have = got.get(scene).unwrap_or_else(|| panic!("no result for scene {} ({})", scene, ctx));
            assert_eq!(have.len(), obs.len(), "one record per detection ({})", ctx);
            for ((h, w), x) in have.iter().zip(want.iter()).zip(xcs[scene].iter()) {
                assert!((h.observed_bbox.xc - *x).abs() < 1e-6, "records in submission order ({})", ctx);
                assert_eq!((h.scene_id, h.epoch, h.length, h.custom_object_id), (w.scene_id, w.epoch, w.length, w.custom_object_id), "scene / epoch / length / custom id as the simple tracker ({})", ctx);
                assert_eq!(format!("{:?}", h.voting_type), format!("{:?}", w.voting_type), "voting type as the simple tracker ({})", ctx);
                match rename.get(&h.id) {
                    Some(x) => assert_eq!(*x, w.id, "same grouping into tracks as the simple tracker ({})", ctx),
                    None => { assert!(used.insert(w.id, h.id).is_none(), "same grouping: simple id {} already matched ({})", w.id, ctx); rename.insert(h.id, w.id); }
                }
            }
        }
        for scene in 0..2u64 { assert_eq!(b.current_epoch_with_scene(scene), s.current_epoch_with_scene(scene), "epochs per scene ({})", ctx); }
    }
}

#[test]
fn replay() {
    for (d, v) in [(1usize, 1usize), (2, 1), (1, 2), (2, 3)] { for seed in 0..6u64 {
        let (tx, rx) = mpsc::channel();
        std::thread::spawn(move || { history(d, v, seed, 40); let _ = tx.send(()); });
        match rx.recv_timeout(Duration::from_secs(120)) {
            Ok(()) => {}
            Err(mpsc::RecvTimeoutError::Timeout) => panic!("no completion within 120 s (deadlock / lost result): shards {} voting {} seed {}", d, v, seed),
            Err(mpsc::RecvTimeoutError::Disconnected) => panic!("the history failed: shards {} voting {} seed {}", d, v, seed),
        }
    } }
}
'''


def replay_visual_batch(cex, v, vm):
    return VISUAL_BATCH_REPLAY


# ---- the visual batch tracker: same protocol, the VisualSORT predict step's oracle (props/stepvisual.py)
import stepvisual as _v
VFUNCS = ["similari::trackers::visual_sort::batch_api::BatchVisualSort::predict", "similari::trackers::visual_sort::batch_api::voting_thread"] + FUNCS[2:3] + _v.FUNCS[1:]
for (nd, ns, nv, mon, tier, lite) in [(1, 0, 1, 'none', 'quick', False), (1, 1, 1, 'done', 'quick', True), (1, 1, 2, 'none', 'thorough', True)]:
    MIR.append(MQ("step_batch_visual_d%d_t%d_v%d_%s" % (nd, ns, nv, mon), tier, _v.mk_step(nd, ns, lite=lite, driver=mk_driver(nv, mon, visual=True)),
                  "one BatchVisualSort::predict call (one scene) from an arbitrary valid tracker state satisfies the oracle of the simple VisualSORT predict step (records, gates, "
                  "appearance / positional voting, gallery, ids, epochs) - plus: one result per scene, tagged with its scene; the busy monitor returns to zero; no wait forever",
                  "%d detections, %d stored tracks, %d voting thread(s), previous batch: %s; 1 shard; IoU + Euclidean mode; option grids as in the simple VisualSORT step" % (nd, ns, nv, mon),
                  VFUNCS, spec_calls=_v._calls, replay=replay_visual_batch, max_paths=400000, timeout=3000, opts={'map_order': 'insertion'}))


# ---- from BatchSort::new: a fresh tracker built by the real constructor (real TrackStore::new, real thread bodies recorded by
# the thread::spawn model), first batch with two scenes on two voting threads
class ThreadSched:
    """every spawned thread body (store workers, voting threads) is a closure; when somebody blocks, every thread that is not
    already on the stack runs until it blocks on an empty queue itself (command-granularity schedule; `order` = service order)"""

    def __init__(self, vm, order_choice=False):
        self.vm = vm
        self.active = set()
        self.order_choice = order_choice

    def on_send(self, vm, q):
        pass

    def on_block(self, vm, q):
        ths = list(enumerate(vm.notes['threads']))
        if self.order_choice and len(ths) > 1 and not self.active:
            if vm.choose_n(2, "thread service order") == 1:
                ths.reverse()
        for i, th in ths:
            if i in self.active:
                continue
            self.active.add(i)
            try:
                vm.call_value(th, [])
            finally:
                self.active.discard(i)


def q_fresh(nscenes, ndet, vshards, dshards):
    def q(vm, P):
        vm.notes['threads'] = []
        vm.notes['ids'] = []
        sched = ThreadSched(vm, order_choice=True)
        vm.notes['sched'] = sched
        thr = grid_f32(vm, 'iou_threshold', [0.25, 0.5])
        method = variant(P, 'PositionalMetricType', 'IoU', thr)
        max_idle = vm.fresh(64, 'max_idle')
        vm.assume(z3.ULT(max_idle.e, 2 ** 40))
        new = P.impl_methods[('BatchSort', None, 'new')][0][0]
        bs = Cell(vm.exec_fn(new, [usize(dshards), usize(vshards), usize(2), max_idle, method, f32(0.5), SOME(mk(P, 'SpatioTemporalConstraints', constraints=VecV(()))), f32(0.05), f32(0.00625)], {}), 'batch_sort')
        vm.check(BOOL(len(vm.notes['threads']) == 2 * dshards + vshards), "the constructor starts one worker per store shard (two stores) and one voting thread per voting shard")
        env = {'T': '(Universal2DBox, Option<i64>)'}
        pair = vm.exec_fn(P.impl_methods[('PredictionBatchRequest', None, 'new')][0][0], [], env)
        req, res = Cell(pair[0], 'request'), Cell(pair[1], 'result')
        scenes = [vm.fresh(64, 'scene%d' % k) for k in range(nscenes)]
        for a in range(nscenes):
            for b in range(a):
                vm.assume(scenes[a].e != scenes[b].e)
        far, iou = {}, {}
        vm.notes.update(far=far, iou=iou, maha={}, ndet=nscenes * ndet, nstored=0)
        dets = []
        for k in range(nscenes):
            for i in range(ndet):
                cid = vm.fresh(64, 'custom_%d_%d' % (k, i), signed=True)
                d = (_s._detbox(k * ndet + i, f32(1.0)), SOME(cid))
                dets.append((k, i, cid))
                vm.exec_fn(P.impl_methods[('PredictionBatchRequest', None, 'add')][0][0], [Ref(req), scenes[k], d], env)
        try:
            vm.exec_fn(P.impl_methods[('BatchSort', None, 'predict')][0][0], [Ref(bs), req.v], {})
            got = {}
            for k in range(nscenes):
                sc, recs = vm.exec_fn(P.impl_methods[('PredictionBatchResult', None, 'get')][0][0], [Ref(res)], {})
                hit = [j for j in range(nscenes) if vm.branch(sc.e == scenes[j].e)]
                vm.check(BOOL(len(hit) == 1 and hit[0] not in got), "every result belongs to a scene of the batch, one result per scene")
                if hit:
                    got[hit[0]] = recs
        except Panic as e:
            vm.check(BOOL(False), "a first batch on a fresh tracker is processed without a panic / a lost result: " + e.msg[:120])
            return
        vm.check(BOOL(len(got) == nscenes), "one result per scene")
        ids = []
        for k in range(nscenes):
            recs = got[k].items
            vm.check(BOOL(len(recs) == ndet), "one record per detection")
            for i, r in enumerate(recs[:ndet]):
                g = lambda n: fld(P, r, 'SortTrack', n)
                vm.check(BOOL(_s._marker(g('observed_bbox')) == 100 + k * ndet + i), "records in submission order")
                vm.check(z3.And(g('scene_id').e == scenes[k].e, g('epoch').e == 1, g('length').e == 1), "a fresh tracker's first records: scene, epoch 1, length 1")
                vm.check(z3.And([g('id').e != o for o in ids] + [g('id').e != 0]), "track ids issued by one tracker are pairwise distinct (the voting threads share one counter)")
                ids.append(g('id').e)
        m = fld(P, bs.v, 'BatchSort', 'monitor')
        left = vm.deref(m.fields[0])[0] if m.variant == 1 else None
        vm.check(BOOL(left is not None) if left is None else left.e == 0, "the busy monitor is back to zero")
    return q


for (nsc, nd, vs_, ds_, tier) in [(2, 1, 2, 1, 'quick'), (1, 2, 1, 1, 'quick'), (2, 2, 2, 1, 'thorough'), (2, 1, 1, 2, 'thorough')]:
    MIR.append(MQ("batch_sort_fresh_s%d_d%d_v%d_sh%d" % (nsc, nd, vs_, ds_), tier, q_fresh(nsc, nd, vs_, ds_),
                  "BatchSort::new (real constructor, real TrackStore::new; thread bodies as recorded closures) followed by a first batch: one result per scene, one record per detection in order, "
                  "scene / epoch 1 / length 1, ids pairwise distinct across scenes and voting threads, no panic, busy monitor back to zero",
                  "%d scene(s) x %d detection(s), %d voting thread(s), %d store shard(s); threads run at command granularity when somebody blocks, both service orders" % (nsc, nd, vs_, ds_),
                  FUNCS + ["similari::trackers::sort::batch_api::BatchSort::new", "similari::track::store::TrackStore::new"], spec_calls=_s._calls, replay=replay_batch, max_paths=200000, timeout=3000))
