from kani_engine import KH

EXPLANATION = ("Bounded solver-based checking (Kani/CBMC) of the real Kalman code: cost conversions for every f32 "
               "distance >= 0, stationary prediction bit-exactly for all coordinates in [-1e4,1e4], state->box "
               "conversion for all finite means. Unwinding assertions on; cover witness; native replay of counterexamples.")
ASSUMPTIONS = ["distance non-NaN and >= 0", "default filter weights (1/20, 1/160) for the stationary claims",
               "complete filter state read through the cfg(similari_verif) accessor KalmanState::verif_raw"]
OUTSIDE = ["agreement of update() with the textbook recurrence, covariance SPD, distance = squared Mahalanobis distance: "
           "tolerance statements over 8x8/10x10 f32 matrix products, triangular solves and Cholesky - beyond CBMC/z3 bit-precise floats",
           "stationary box filter and vector-filter independence on complete states: harnesses exist but did not terminate "
           "within 15 min (see DESIGN.md); not registered"]
KANI_MODULES = ["c07_kalman"]
K = "similari::utils::kalman::"
KANI = [
    KH("c07_kalman::c07_box_cost", "quick", 120,
       "box filter: direct cost gates exactly at CHI2INV95[4] (5 dof); inverted = 100 - direct",
       "every non-NaN f32 d >= 0 (2^31 values)", [K + "kalman_2d_box::Universal2DBoxKalmanFilter::calculate_cost"]),
    KH("c07_kalman::c07_point_cost", "quick", 120,
       "point filter: direct cost gates exactly at CHI2INV95[1] (2 dof); inverted = 100 - direct",
       "every non-NaN f32 d >= 0 (2^31 values)", [K + "kalman_2d_point::Point2DKalmanFilter::calculate_cost"]),
    KH("c07_kalman::c07_vec_cost", "quick", 200,
       "vector cost = pointwise point-filter cost, both modes",
       "lengths 0..=3, every non-NaN f32 d >= 0, unwind 5", [K + "kalman_2d_point_vec::Vec2DKalmanFilter::calculate_cost"]),
    KH("c07_kalman::c07_state_to_box", "quick", 400,
       "Universal2DBox::try_from(state): angle 0 -> None, xc/yc/angle/aspect/height copied, accessors read the right slots",
       "all finite f32 means (10 components), unwind 102 (nalgebra 10x10 allocate_from_iterator)",
       [K + "TryFrom<KalmanState<X>> for Universal2DBox", K + "KalmanState::mean_pos_xc/yc/mean_vel_xc/yc"]),
    KH("c07_kalman::c07_point_stationary", "thorough", 1500,
       "point filter initiate -> predict returns the position bit-exactly, velocity 0",
       "all f32 x,y in [-1e4,1e4], unwind 18", [K + "kalman_2d_point::Point2DKalmanFilter::initiate", K + "kalman_2d_point::Point2DKalmanFilter::predict"]),
    KH("c07_kalman::c07_point_stationary2", "thorough", 2400,
       "point filter initiate -> predict -> predict returns the position bit-exactly, velocity 0",
       "all f32 x,y in [-1e4,1e4], unwind 18", [K + "kalman_2d_point::Point2DKalmanFilter::predict"]),
]
