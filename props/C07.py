from kani_engine import KH

EXPLANATION = ("Bounded solver-based checking (Kani/CBMC) of the real Kalman code: cost conversions for every f32 "
               "distance >= 0, stationary prediction bit-exactly for all coordinates in [-1e4,1e4], state->box "
               "conversion for all finite means. Unwinding assertions on; cover witness; native replay of counterexamples.")
ASSUMPTIONS = ["distance non-NaN and >= 0", "default filter weights (1/20, 1/160) for the stationary claims",
               "complete filter state read through the cfg(similari_verif) accessor KalmanState::verif_raw"]
OUTSIDE = ["NUMERIC agreement with the textbook filter (rounding, conditioning), covariance staying symmetric positive-definite, and that the "
           "triangular solve on S is exact because S stays diagonal: tolerance statements over 8x8/10x10 f32 matrix products, triangular "
           "solves and Cholesky factors are beyond CBMC/z3 bit-precise floats - what IS decided is the structure of the recurrences as terms (engine M part)",
           "stationary box filter and vector-filter independence on complete states: harnesses exist but did not terminate "
           "within 15 min (see DESIGN.md); not registered"]
KANI_MODULES = ["c07_kalman"]
K = "similari::utils::kalman::"
KANI = [
    KH("c07_kalman::c07_box_cost", "quick", 900,
       "box filter: direct cost gates exactly at CHI2INV95[4] (5 dof); inverted = 100 - direct",
       "every non-NaN f32 d >= 0 (2^31 values)", [K + "kalman_2d_box::Universal2DBoxKalmanFilter::calculate_cost"]),
    KH("c07_kalman::c07_point_cost", "quick", 900,
       "point filter: direct cost gates exactly at CHI2INV95[1] (2 dof); inverted = 100 - direct",
       "every non-NaN f32 d >= 0 (2^31 values)", [K + "kalman_2d_point::Point2DKalmanFilter::calculate_cost"]),
    KH("c07_kalman::c07_vec_cost", "quick", 900,
       "vector cost = pointwise point-filter cost, both modes",
       "lengths 0..=3, every non-NaN f32 d >= 0, unwind 5", [K + "kalman_2d_point_vec::Vec2DKalmanFilter::calculate_cost"]),
    KH("c07_kalman::c07_state_to_box", "quick", 900,
       "Universal2DBox::try_from(state): angle 0 -> None, xc/yc/angle/aspect/height copied, accessors read the right slots",
       "all finite f32 means (10 components), unwind 102 (nalgebra 10x10 allocate_from_iterator)",
       [K + "TryFrom<KalmanState<X>> for Universal2DBox", K + "KalmanState::mean_pos_xc/yc/mean_vel_xc/yc"]),
    KH("c07_kalman::c07_point_stationary", "thorough", 1500,
       "point filter initiate -> predict returns the position bit-exactly, velocity 0",
       "all f32 x,y in [-1e4,1e4], unwind 18", [K + "kalman_2d_point::Point2DKalmanFilter::initiate", K + "kalman_2d_point::Point2DKalmanFilter::predict"]),
    KH("c07_kalman::c07_point_stationary2", "thorough", 2400,
       "point filter initiate -> predict -> predict returns the position bit-exactly, velocity 0",
       "all f32 x,y in [-1e4,1e4], unwind 18", [K + "kalman_2d_point::Point2DKalmanFilter::predict"]),
]

# ===================================================================== engine M: structure of the filters (matrices as terms)
import z3
from mir_engine import MQ
from mirlib import *
from models import MatT, mat_sym, mat_vec

EXPLANATION += (" Engine M (bounded symbolic execution of the MIR with z3; nalgebra matrices are TERMS - products, sums, transposes, "
                "triangular solves and Cholesky factors are uninterpreted constructors, equal terms denote equal values): the box "
                "filter builds the same measurement vector [xc, yc, angle or 0, aspect, height] in initiate, update and distance "
                "(an axis-aligned box is angle 0 everywhere; the raw angle is stored); the process noise of predict and the "
                "innovation noise of project are the library's height-scaled model evaluated on the height of the state GIVEN to "
                "the function (not of the predicted one); the prediction and update follow the textbook recurrences as terms "
                "(x' = F x, P' = F P F^T + Q; S = H P H^T + R, K from S and (P H^T)^T, x + (y K)^T, P - K^T S K; distance = "
                "|L^-1 (z - H x)|^2 with L the Cholesky factor of S); the vector filter maps the point filter over its points, "
                "each state with its own point, independently.")
ASSUMPTIONS += ["M: matrices are terms over uninterpreted nalgebra operations (no numeric claim: conditioning, rounding and the diagonal structure that makes the triangular solve exact are outside)",
                "M: weights, box fields and state entries free non-NaN f32; vector filter on 2 states / 2 points"]

K2 = "similari::utils::kalman::kalman_2d_box::Universal2DBoxKalmanFilter::"


def _box_filter(P, vm):
    wp, wv = vm.fresh('f32', 'position_weight'), vm.fresh('f32', 'velocity_weight')
    vm.assume(z3.And(fp_in(wp, 0.001, 1.0), fp_in(wv, 0.0001, 1.0)))
    f = mk(P, 'Universal2DBoxKalmanFilter', motion_matrix=mat_sym('F'), update_matrix=mat_sym('H'), std_position_weight=wp, std_velocity_weight=wv)
    return Cell(f, 'filter'), wp, wv


def _kbox(P, vm, tag):
    has_angle = vm.choose_n(2, "%s angle given" % tag) == 0
    vals = {n: vm.fresh('f32', '%s_%s' % (tag, n)) for n in ('xc', 'yc', 'angle', 'aspect', 'height')}
    for v in vals.values():
        vm.assume(fp_in(v, -1.0e4, 1.0e4))
    vm.assume(z3.And(fp_in(vals['aspect'], 0.01, 100.0), fp_in(vals['height'], 0.01, 1.0e4)))
    b = Adt('Universal2DBox', 0, (vals['xc'], vals['yc'], SOME(vals['angle']) if has_angle else NONE, vals['aspect'], vals['height'], f32(1.0), NONE))
    meas = [vals['xc'], vals['yc'], vals['angle'] if has_angle else f32(0.0), vals['aspect'], vals['height']]
    return b, meas, vals


def _same(a, b):
    """bit-equality of two scalar float terms"""
    return z3.fpToIEEEBV(fp_plain(a)) == z3.fpToIEEEBV(fp_plain(b))


def _check_vec(vm, got, want, msg):
    vm.check(BOOL(isinstance(got, MatT) and got.op == 'vec' and len(got.args) == len(want)), msg + " (an explicit vector of the right length)")
    if isinstance(got, MatT) and got.op == 'vec' and len(got.args) == len(want):
        vm.check(z3.And([_same(g, w) for g, w in zip(got.args, want)]), msg)


def _noise(vm, wp, wv, h, kp, cp, kv=None, cv=None):
    """the library's height-scaled noise: squares of [k w_p h]x3, c, k w_p h (and the velocity block)"""
    def blk(k, w, c):
        x = f_mul(f_mul(f32(k), w), h)
        return [x, x, x, f32(c), x]
    std = blk(kp, wp, cp) + (blk(kv, wv, cv) if kv is not None else [])
    return [f_mul(s, s) for s in std]


def q_box_initiate(vm, P):
    fn = P.impl_methods[('Universal2DBoxKalmanFilter', None, 'initiate')][0][0]
    fc, wp, wv = _box_filter(P, vm)
    b, meas, vals = _kbox(P, vm, 'box')
    st = vm.exec_fn(fn, [Ref(fc), Ref(Cell(b, 'b'))], {})
    mean, cov = fld(P, st, 'KalmanState', 'mean'), fld(P, st, 'KalmanState', 'covariance')
    _check_vec(vm, mean, meas + [f32(0.0)] * 5, "initiate: mean = [xc, yc, angle (None = 0, stored raw), aspect, height, 0 x 5]")
    vm.check(BOOL(isinstance(cov, MatT) and cov.op == 'diag'), "initiate: diagonal covariance")
    if isinstance(cov, MatT) and cov.op == 'diag':
        _check_vec(vm, cov.args[0], _noise(vm, wp, wv, vals['height'], 2.0, 1e-2, 10.0, 1e-5), "initiate: covariance = squares of the height-scaled standard deviations")


def q_box_predict(vm, P):
    fn = P.impl_methods[('Universal2DBoxKalmanFilter', None, 'predict')][0][0]
    fc, wp, wv = _box_filter(P, vm)
    h = vm.fresh('f32', 'state_height')
    vm.assume(fp_in(h, 0.01, 1.0e4))
    mean0 = mat_sym('x')
    vm.notes.setdefault('mat_elems', {})[(mean0.key(), 4)] = h
    st0 = mk(P, 'KalmanState', mean=mean0, covariance=mat_sym('P'))
    st = vm.exec_fn(fn, [Ref(fc), Ref(Cell(st0, 's'))], {})
    mean, cov = fld(P, st, 'KalmanState', 'mean'), fld(P, st, 'KalmanState', 'covariance')
    F, Pm = mat_sym('F'), mat_sym('P')
    vm.check(BOOL(mean == MatT('mul', (F, mean0))), "predict: mean' = F x")
    vm.check(BOOL(isinstance(cov, MatT) and cov.op == 'add' and cov.args[0] == MatT('mul', (MatT('mul', (F, Pm)), MatT('T', (F,)))) and cov.args[1].op == 'diag'),
             "predict: covariance' = F P F^T + Q with diagonal Q")
    if isinstance(cov, MatT) and cov.op == 'add' and isinstance(cov.args[1], MatT) and cov.args[1].op == 'diag':
        _check_vec(vm, cov.args[1].args[0], _noise(vm, wp, wv, h, 1.0, 1e-2, 1.0, 1e-5),
                   "predict: process noise = squares of the height-scaled standard deviations, on the height of the state BEFORE the prediction")


def _project_terms(vm, wp, h, x, Pm):
    H = mat_sym('H')
    R = MatT('diag', (mat_vec(_noise(vm, wp, None, h, 1.0, 1e-1)),))
    return MatT('mul', (H, x)), MatT('add', (MatT('mul', (MatT('mul', (H, Pm)), MatT('T', (H,)))), R)), R


def _diag_ok(vm, got, wp, h, msg):
    vm.check(BOOL(isinstance(got, MatT) and got.op == 'diag'), msg + " (diagonal)")
    if isinstance(got, MatT) and got.op == 'diag':
        _check_vec(vm, got.args[0], _noise(vm, wp, None, h, 1.0, 1e-1), msg)


def q_box_update(vm, P):
    fn = P.impl_methods[('Universal2DBoxKalmanFilter', None, 'update')][0][0]
    fc, wp, wv = _box_filter(P, vm)
    h = vm.fresh('f32', 'state_height')
    vm.assume(fp_in(h, 0.01, 1.0e4))
    x, Pm, H = mat_sym('x'), mat_sym('P'), mat_sym('H')
    vm.notes.setdefault('mat_elems', {})[(x.key(), 4)] = h
    b, meas, vals = _kbox(P, vm, 'meas')
    st = vm.exec_fn(fn, [Ref(fc), Ref(Cell(mk(P, 'KalmanState', mean=x, covariance=Pm), 's')), Ref(Cell(b, 'b'))], {})
    mean, cov = fld(P, st, 'KalmanState', 'mean'), fld(P, st, 'KalmanState', 'covariance')
    # decode x' = x + (y K)^T
    ok = isinstance(mean, MatT) and mean.op == 'add' and mean.args[0] == x and isinstance(mean.args[1], MatT) and mean.args[1].op == 'T' and mean.args[1].args[0].op == 'mul'
    vm.check(BOOL(ok), "update: mean' = x + (y K)^T")
    if not ok:
        return
    yT, K = mean.args[1].args[0].args
    y = yT.args[0] if yT.op == 'T' else MatT('T', (yT,))
    vm.check(BOOL(y.op == 'sub' and y.args[1] == MatT('mul', (H, x))), "update: innovation y = z - H x")
    if y.op == 'sub':
        _check_vec(vm, y.args[0], meas, "update: measurement z = [xc, yc, angle (None = 0), aspect, height]")
    okK = K.op == 'solve_lower_triangular' and isinstance(K.args[0], MatT) and K.args[0].op == 'add'
    vm.check(BOOL(okK), "update: gain K solves S K = (P H^T)^T")
    if okK:
        S = K.args[0]
        vm.check(BOOL(S.args[0] == MatT('mul', (MatT('mul', (H, Pm)), MatT('T', (H,)))) and K.args[1] == MatT('T', (MatT('mul', (Pm, MatT('T', (H,)))),))),
                 "update: S = H P H^T + R and the right-hand side is (P H^T)^T")
        _diag_ok(vm, S.args[1], wp, h, "update: innovation noise R = squares of the height-scaled standard deviations on the state's height")
        vm.check(BOOL(cov == MatT('sub', (Pm, MatT('mul', (MatT('mul', (MatT('T', (K,)), S)), K))))), "update: covariance' = P - K^T S K")


def q_box_distance(vm, P):
    fn = P.impl_methods[('Universal2DBoxKalmanFilter', None, 'distance')][0][0]
    fc, wp, wv = _box_filter(P, vm)
    h = vm.fresh('f32', 'state_height')
    vm.assume(fp_in(h, 0.01, 1.0e4))
    x, Pm, H = mat_sym('x'), mat_sym('P'), mat_sym('H')
    vm.notes.setdefault('mat_elems', {})[(x.key(), 4)] = h
    b, meas, vals = _kbox(P, vm, 'meas')
    d = vm.exec_fn(fn, [Ref(fc), mk(P, 'KalmanState', mean=x, covariance=Pm), Ref(Cell(b, 'b'))], {})
    S_main = MatT('mul', (MatT('mul', (H, Pm)), MatT('T', (H,))))
    # structural decoding through the recorded term of the sum
    sm = vm.notes.get('last_sum_term')
    vm.check(BOOL(sm is not None and sm.op == 'cmul' and sm.args[0] == sm.args[1] and sm.args[0].op == 'solve_lower_triangular'), "distance = |r|^2 with r from a lower-triangular solve")
    if sm is None or sm.op != 'cmul' or sm.args[0].op != 'solve_lower_triangular':
        return
    L, rhs = sm.args[0].args
    vm.check(BOOL(L.op == 'chol_l' and L.args[0].op == 'cholesky' and L.args[0].args[0].op == 'add' and L.args[0].args[0].args[0] == S_main),
             "distance: L is the Cholesky factor of S = H P H^T + R")
    if L.op == 'chol_l' and L.args[0].op == 'cholesky' and L.args[0].args[0].op == 'add':
        _diag_ok(vm, L.args[0].args[0].args[1], wp, h, "distance: innovation noise R on the state's height")
    vm.check(BOOL(rhs.op == 'sub' and rhs.args[1] == MatT('mul', (H, x))), "distance: residual z - H x")
    if rhs.op == 'sub':
        _check_vec(vm, rhs.args[0], meas, "distance: measurement z = [xc, yc, angle (None = 0), aspect, height] - the same vector update uses")


def _mk_vec_filter(method):
    def q(vm, P):
        fn = P.impl_methods[('Vec2DKalmanFilter', None, method)][0][0]
        pf = mk(P, 'Point2DKalmanFilter', motion_matrix=mat_sym('pf'), update_matrix=mat_sym('Hp'), std_position_weight=vm.fresh('f32', 'wp'), std_velocity_weight=vm.fresh('f32', 'wv'))
        vf = Cell(mk(P, 'Vec2DKalmanFilter', f=pf), 'vf')
        n = 2
        states = VecV(tuple(mk(P, 'KalmanState', mean=mat_sym('s%d' % i), covariance=mat_sym('P%d' % i)) for i in range(n)), 'slice')

        def ident(x):
            if isinstance(x, Adt) and x.ty == 'KalmanState' and isinstance(x.fields[0], MatT) and x.fields[0].op == 'sym':
                return x.fields[0].args[0]
            if isinstance(x, Adt) and x.ty == 'Point2DKalmanFilter':
                return 'pf'
            if isinstance(x, Adt) and x.ty == 'OPoint':
                return pnames.get(id(x), 'some point')
            return getattr(x, 'tag', repr(x))
        points = VecV(tuple(Adt('OPoint', 0, (Adt('XY', 0, (vm.fresh('f32', 'p%d_x' % i), vm.fresh('f32', 'p%d_y' % i))),)) for i in range(n)), 'slice')
        pnames = {id(pt): 'p%d' % i for i, pt in enumerate(points.items)}

        def point_method(vm_, cal, args):
            a = []
            for x in args:
                while isinstance(x, Ref):
                    x = vm_.deref(x)
                a.append(x)
            vm_.notes.setdefault('point_calls', []).append((cal.method, tuple(ident(x) for x in a)))
            return Opaque('Out', (cal.method,) + tuple(ident(x) for x in a))
        for m in ('initiate', 'predict', 'update', 'distance'):
            vm.spec_calls[('Point2DKalmanFilter', None, m)] = point_method
        if method == 'initiate':
            r = vm.exec_fn(fn, [Ref(vf), Ref(Cell(points, 'pts'))], {})
            want = [('initiate', 'pf', 'p%d' % i) for i in range(n)]
        elif method == 'predict':
            r = vm.exec_fn(fn, [Ref(vf), Ref(Cell(states, 'st'))], {})
            want = [('predict', 'pf', 's%d' % i) for i in range(n)]
        else:
            r = vm.exec_fn(fn, [Ref(vf), Ref(Cell(states, 'st')), Ref(Cell(points, 'pts'))], {})
            want = [(method, 'pf', 's%d' % i, 'p%d' % i) for i in range(n)]
        got = [getattr(x, 'tag', None) for x in r.items]
        vm.check(BOOL(got == want), "the vector filter applies the point filter's %s to every (state, point) pair independently, in order" % method)
        vm.check(BOOL(sorted(vm.notes.get('point_calls', [])) == sorted((w[0], w[1:]) for w in want)), "... and does nothing else with the point filter")
    return q


KALMAN_REPLAY = r'''
use nalgebra::{Point2, SMatrix, SVector};
use similari::utils::bbox::Universal2DBox;
use similari::utils::kalman::kalman_2d_box::Universal2DBoxKalmanFilter;
use similari::utils::kalman::kalman_2d_point::Point2DKalmanFilter;
use similari::utils::kalman::kalman_2d_point_vec::Vec2DKalmanFilter;

// independent f64 reference of the box filter (textbook recurrences, the library's height-scaled noise model)
type V10 = SVector<f64, 10>;
type M10 = SMatrix<f64, 10, 10>;
struct Ref64 { wp: f64, wv: f64 }
impl Ref64 {
    fn stds(&self, kp: f64, cp: f64, kv: f64, cv: f64, h: f64) -> [f64; 10] {
        let (p, v) = (kp * self.wp * h, kv * self.wv * h);
        [p, p, p, cp, p, v, v, v, cv, v]
    }
    fn z(b: &Universal2DBox) -> SVector<f64, 5> { SVector::<f64, 5>::from_column_slice(&[b.xc as f64, b.yc as f64, b.angle.unwrap_or(0.0) as f64, b.aspect as f64, b.height as f64]) }
    fn f() -> M10 { let mut m = M10::identity(); for i in 0..5 { m[(i, 5 + i)] = 1.0; } m }
    fn h() -> SMatrix<f64, 5, 10> { SMatrix::<f64, 5, 10>::identity() }
    fn initiate(&self, b: &Universal2DBox) -> (V10, M10) {
        let z = Self::z(b);
        let mut x = V10::zeros();
        for i in 0..5 { x[i] = z[i]; }
        let s = self.stds(2.0, 1e-2, 10.0, 1e-5, b.height as f64);
        (x, M10::from_diagonal(&V10::from_iterator(s.iter().map(|e| e * e))))
    }
    fn predict(&self, s: &(V10, M10)) -> (V10, M10) {
        let q = self.stds(1.0, 1e-2, 1.0, 1e-5, s.0[4]);
        let f = Self::f();
        (f * s.0, f * s.1 * f.transpose() + M10::from_diagonal(&V10::from_iterator(q.iter().map(|e| e * e))))
    }
    fn project(&self, s: &(V10, M10)) -> (SVector<f64, 5>, SMatrix<f64, 5, 5>) {
        let p = self.wp * s.0[4];
        let r = [p, p, p, 1e-1, p];
        let h = Self::h();
        (h * s.0, h * s.1 * h.transpose() + SMatrix::<f64, 5, 5>::from_diagonal(&SVector::<f64, 5>::from_iterator(r.iter().map(|e| e * e))))
    }
    fn update(&self, s: &(V10, M10), b: &Universal2DBox) -> (V10, M10) {
        let (pm, pc) = self.project(s);
        let h = Self::h();
        let k = s.1 * h.transpose() * pc.try_inverse().unwrap();
        (s.0 + k * (Self::z(b) - pm), s.1 - k * pc * k.transpose())
    }
    fn distance(&self, s: &(V10, M10), b: &Universal2DBox) -> f64 {
        let (pm, pc) = self.project(s);
        let y = Self::z(b) - pm;
        (y.transpose() * pc.try_inverse().unwrap() * y)[(0, 0)]
    }
}

fn close(a: f64, b: f64) -> bool { (a - b).abs() <= 2e-3 * (1.0 + a.abs().max(b.abs())) }

#[test]
fn replay() {
    let f = Universal2DBoxKalmanFilter::default();
    let r = Ref64 { wp: 1.0 / 20.0, wv: 1.0 / 160.0 };
    // growing / shrinking / turning boxes, axis-aligned and rotated, raw angles outside [0, 2pi)
    let tracks: Vec<Vec<Universal2DBox>> = vec![
        (0..8).map(|k| Universal2DBox::new(10.0 + k as f32, 5.0, None, 1.5, 10.0 * 1.06f32.powi(k))).collect(),
        (0..8).map(|k| Universal2DBox::new(100.0, 50.0 - 2.0 * k as f32, Some(0.8 + 0.02 * k as f32), 0.7, 30.0 * 0.95f32.powi(k))).collect(),
        (0..6).map(|k| Universal2DBox::new(3.0, 4.0, Some(-0.1), 1.0, 8.0 + k as f32)).collect(),
        (0..6).map(|k| Universal2DBox::new(3.0 + k as f32, 4.0, Some(6.5), 2.0, 8.0)).collect(),
    ];
    for tr in &tracks {
        let mut s = f.initiate(&tr[0]);
        let mut q = r.initiate(&tr[0]);
        let b0 = Universal2DBox::try_from(s).unwrap();
        assert!((b0.angle.unwrap_or(0.0) - tr[0].angle.unwrap_or(0.0)).abs() < 1e-6, "initiate stores the raw angle");
        for (k, b) in tr.iter().enumerate().skip(1) {
            s = f.predict(&s);
            q = r.predict(&q);
            for probe in [b.clone(), Universal2DBox::new(b.xc + 1.0, b.yc - 2.0, None, b.aspect, b.height * 1.1), Universal2DBox::new(b.xc, b.yc, Some(0.0), b.aspect, b.height)] {
                let (d, dr) = (f.distance(s, &probe) as f64, r.distance(&q, &probe));
                assert!(close(d, dr), "step {}: distance {} vs reference {} (probe angle {:?}, track angle {:?})", k, d, dr, probe.angle, b.angle);
            }
            s = f.update(&s, b);
            q = r.update(&q, b);
            let pb = Universal2DBox::try_from(s).unwrap();
            assert!(close(pb.xc as f64, q.0[0]) && close(pb.yc as f64, q.0[1]) && close(pb.angle.unwrap_or(0.0) as f64, q.0[2]) && close(pb.aspect as f64, q.0[3]) && close(pb.height as f64, q.0[4]),
                    "step {}: mean {:?} vs reference {:?}", k, pb, q.0);
        }
    }
    // point filter against an independent f64 reference (constant noise model)
    {
        use nalgebra::{SMatrix as SM, SVector as SV};
        let (wp, wv) = (1.0f64 / 20.0, 1.0f64 / 160.0);
        let pf = Point2DKalmanFilter::default();
        let mut fm = SM::<f64, 4, 4>::identity();
        fm[(0, 2)] = 1.0; fm[(1, 3)] = 1.0;
        let hm = SM::<f64, 2, 4>::identity();
        let sq = |v: [f64; 4]| SM::<f64, 4, 4>::from_diagonal(&SV::<f64, 4>::from_iterator(v.iter().map(|e| e * e)));
        let rm = SM::<f64, 2, 2>::from_diagonal(&SV::<f64, 2>::new(wp * wp, wp * wp));
        let p0 = Point2::new(3.0f32, -2.0);
        let mut s = pf.initiate(&p0);
        let (mut x, mut pc) = (SV::<f64, 4>::new(3.0, -2.0, 0.0, 0.0), sq([2.0 * wp, 2.0 * wp, 10.0 * wv, 10.0 * wv]));
        for k in 1..12 {
            s = pf.predict(&s);
            x = fm * x;
            pc = fm * pc * fm.transpose() + sq([wp, wp, wv, wv]);
            let m = Point2::new(3.0 + 0.7 * k as f32, -2.0 + 0.1 * (k * k) as f32);
            let sm = hm * pc * hm.transpose() + rm;
            let y = SV::<f64, 2>::new(m.x as f64, m.y as f64) - hm * x;
            let dref = (y.transpose() * sm.try_inverse().unwrap() * y)[(0, 0)];
            let d = pf.distance(&s, &m) as f64;
            assert!(close(d, dref), "point filter step {}: distance {} vs reference {}", k, d, dref);
            let kg = pc * hm.transpose() * sm.try_inverse().unwrap();
            x = x + kg * y;
            pc = pc - kg * sm * kg.transpose();
            s = pf.update(&s, &m);
            let got = Point2::<f32>::from(s);
            assert!(close(got.x as f64, x[0]) && close(got.y as f64, x[1]), "point filter step {}: position {:?} vs reference {:?}", k, got, x);
        }
    }
    // vector filter = point filter per point, for states of different ages and any order
    let (vf, pf) = (Vec2DKalmanFilter::default(), Point2DKalmanFilter::default());
    let pts = [Point2::new(1.0f32, 2.0), Point2::new(30.0, -4.0), Point2::new(-7.0, 9.0)];
    let mut old = pf.initiate(&pts[0]);
    for k in 1..5 { old = pf.update(&pf.predict(&old), &Point2::new(1.0 + k as f32, 2.0 + 0.5 * k as f32)); }
    let young = pf.initiate(&pts[1]);
    for order in [[0usize, 1], [1, 0]] {
        let states = [old, young];
        let st: Vec<_> = order.iter().map(|i| states[*i]).collect();
        let ms: Vec<Point2<f32>> = order.iter().map(|i| pts[*i + 1]).collect();
        let pred = vf.predict(&st);
        let upd = vf.update(&pred, &ms);
        let dist = vf.distance(&pred, &ms);
        for (j, i) in order.iter().enumerate() {
            let p1 = pf.predict(&states[*i]);
            let u1 = pf.update(&p1, &pts[*i + 1]);
            assert_eq!(dist[j].to_bits(), pf.distance(&p1, &pts[*i + 1]).to_bits(), "vector distance = point distance (order {:?})", order);
            assert_eq!(Point2::<f32>::from(upd[j]), Point2::<f32>::from(u1), "vector update = point update per point (order {:?})", order);
            assert_eq!(pf.distance(&upd[j], &pts[0]).to_bits(), pf.distance(&u1, &pts[0]).to_bits(), "same covariance after the update (order {:?})", order);
        }
    }
}
'''


def _replay_kalman(cex, v, vm):
    return KALMAN_REPLAY


MIR = [
    MQ("c07_box_initiate_terms", "quick", q_box_initiate, "box filter initiate: mean = measurement vector (raw angle, None = 0) + zero velocities; covariance = height-scaled diagonal",
       "free box fields / weights, angle given or not", [K2 + "initiate", K2 + "std_position", K2 + "std_velocity"], replay=_replay_kalman),
    MQ("c07_box_predict_terms", "quick", q_box_predict, "box filter predict: x' = F x, P' = F P F^T + Q, Q height-scaled on the state's own height",
       "opaque state, free height / weights", [K2 + "predict"], replay=_replay_kalman),
    MQ("c07_box_update_terms", "quick", q_box_update, "box filter update: textbook recurrence as terms; measurement vector [xc, yc, angle|0, aspect, height]; R on the state's height",
       "opaque state, free measurement / weights", [K2 + "update", K2 + "project"], replay=_replay_kalman),
    MQ("c07_box_distance_terms", "quick", q_box_distance, "box filter distance: |L^-1 (z - H x)|^2 with L = chol(H P H^T + R), same measurement vector as update",
       "opaque state, free measurement / weights", [K2 + "distance", K2 + "project"], replay=_replay_kalman),
]
for _m in ('initiate', 'predict', 'update', 'distance'):
    MIR.append(MQ("c07_vec_%s_maps_point_filter" % _m, "quick", _mk_vec_filter(_m), "Vec2DKalmanFilter::%s = the point filter applied to every (state, point) pair independently" % _m,
                  "2 states / 2 points, point filter uninterpreted", ["similari::utils::kalman::kalman_2d_point_vec::Vec2DKalmanFilter::" + _m], replay=_replay_kalman))


# ---- the point filter, same recurrences with constant (weight-only) noise
KP = "similari::utils::kalman::kalman_2d_point::Point2DKalmanFilter::"


def _pfilter(P, vm):
    wp, wv = vm.fresh('f32', 'position_weight'), vm.fresh('f32', 'velocity_weight')
    vm.assume(z3.And(fp_in(wp, 0.001, 1.0), fp_in(wv, 0.0001, 1.0)))
    return Cell(mk(P, 'Point2DKalmanFilter', motion_matrix=mat_sym('F'), update_matrix=mat_sym('H'), std_position_weight=wp, std_velocity_weight=wv), 'pf'), wp, wv


def _point(vm, tag='p'):
    x, y = vm.fresh('f32', tag + '_x'), vm.fresh('f32', tag + '_y')
    vm.assume(z3.And(fp_in(x, -1.0e4, 1.0e4), fp_in(y, -1.0e4, 1.0e4)))
    return Adt('OPoint', 0, (Adt('XY', 0, (x, y)),)), [x, y]


def _pnoise(wp, wv, kp, kv=None):
    std = [f_mul(f32(kp), wp)] * 2 + ([f_mul(f32(kv), wv)] * 2 if kv is not None else [])
    return [f_mul(s, s) for s in std]


def _mk_point(method):
    def q(vm, P):
        fn = P.impl_methods[('Point2DKalmanFilter', None, method)][0][0]
        fc, wp, wv = _pfilter(P, vm)
        x, Pm, F, H = mat_sym('x'), mat_sym('P'), mat_sym('F'), mat_sym('H')
        st0 = Cell(mk(P, 'KalmanState', mean=x, covariance=Pm), 's')
        S_main = MatT('mul', (MatT('mul', (H, Pm)), MatT('T', (H,))))

        def R_ok(R, msg):
            vm.check(BOOL(isinstance(R, MatT) and R.op == 'diag'), msg + " (diagonal)")
            if isinstance(R, MatT) and R.op == 'diag':
                _check_vec(vm, R.args[0], _pnoise(wp, None, 1.0), msg)
        if method == 'initiate':
            p, z = _point(vm)
            st = vm.exec_fn(fn, [Ref(fc), Ref(Cell(p, 'p'))], {})
            _check_vec(vm, fld(P, st, 'KalmanState', 'mean'), z + [f32(0.0)] * 2, "initiate: mean = [x, y, 0, 0]")
            cov = fld(P, st, 'KalmanState', 'covariance')
            vm.check(BOOL(isinstance(cov, MatT) and cov.op == 'diag'), "initiate: diagonal covariance")
            if isinstance(cov, MatT) and cov.op == 'diag':
                _check_vec(vm, cov.args[0], _pnoise(wp, wv, 2.0, 10.0), "initiate: covariance = squares of (2 w_p, 2 w_p, 10 w_v, 10 w_v)")
        elif method == 'predict':
            st = vm.exec_fn(fn, [Ref(fc), Ref(st0)], {})
            vm.check(BOOL(fld(P, st, 'KalmanState', 'mean') == MatT('mul', (F, x))), "predict: mean' = F x")
            cov = fld(P, st, 'KalmanState', 'covariance')
            ok = isinstance(cov, MatT) and cov.op == 'add' and cov.args[0] == MatT('mul', (MatT('mul', (F, Pm)), MatT('T', (F,)))) and cov.args[1].op == 'diag'
            vm.check(BOOL(ok), "predict: covariance' = F P F^T + Q with diagonal Q")
            if ok:
                _check_vec(vm, cov.args[1].args[0], _pnoise(wp, wv, 1.0, 1.0), "predict: Q = squares of (w_p, w_p, w_v, w_v)")
        elif method == 'update':
            p, z = _point(vm)
            st = vm.exec_fn(fn, [Ref(fc), Ref(st0), Ref(Cell(p, 'p'))], {})
            mean, cov = fld(P, st, 'KalmanState', 'mean'), fld(P, st, 'KalmanState', 'covariance')
            ok = isinstance(mean, MatT) and mean.op == 'add' and mean.args[0] == x and isinstance(mean.args[1], MatT) and mean.args[1].op == 'T' and mean.args[1].args[0].op == 'mul'
            vm.check(BOOL(ok), "update: mean' = x + (y K)^T")
            if not ok:
                return
            yT, K = mean.args[1].args[0].args
            y = yT.args[0] if yT.op == 'T' else MatT('T', (yT,))
            vm.check(BOOL(y.op == 'sub' and y.args[1] == MatT('mul', (H, x))), "update: innovation y = z - H x")
            if y.op == 'sub':
                _check_vec(vm, y.args[0], z, "update: measurement z = [x, y] of the point")
            okK = K.op == 'solve_lower_triangular' and isinstance(K.args[0], MatT) and K.args[0].op == 'add'
            vm.check(BOOL(okK), "update: gain K solves S K = (P H^T)^T")
            if okK:
                S = K.args[0]
                vm.check(BOOL(S.args[0] == S_main and K.args[1] == MatT('T', (MatT('mul', (Pm, MatT('T', (H,)))),))), "update: S = H P H^T + R, right-hand side (P H^T)^T, all from THIS state's covariance")
                R_ok(S.args[1], "update: R = squares of (w_p, w_p)")
                vm.check(BOOL(cov == MatT('sub', (Pm, MatT('mul', (MatT('mul', (MatT('T', (K,)), S)), K))))), "update: covariance' = P - K^T S K")
        else:
            p, z = _point(vm)
            vm.exec_fn(fn, [Ref(fc), Ref(st0), Ref(Cell(p, 'p'))], {})
            sm = vm.notes.get('last_sum_term')
            ok = sm is not None and sm.op == 'cmul' and sm.args[0] == sm.args[1] and sm.args[0].op == 'solve_lower_triangular'
            vm.check(BOOL(ok), "distance = |r|^2 with r from a lower-triangular solve")
            if not ok:
                return
            L, rhs = sm.args[0].args
            okL = L.op == 'chol_l' and L.args[0].op == 'cholesky' and L.args[0].args[0].op == 'add' and L.args[0].args[0].args[0] == S_main
            vm.check(BOOL(okL), "distance: L is the Cholesky factor of S = H P H^T + R")
            if okL:
                R_ok(L.args[0].args[0].args[1], "distance: R = squares of (w_p, w_p)")
            vm.check(BOOL(rhs.op == 'sub' and rhs.args[1] == MatT('mul', (H, x))), "distance: residual z - H x")
            if rhs.op == 'sub':
                _check_vec(vm, rhs.args[0], z, "distance: measurement z = [x, y] of the point")
    return q


for _m in ('initiate', 'predict', 'update', 'distance'):
    MIR.append(MQ("c07_point_%s_terms" % _m, "quick", _mk_point(_m), "point filter %s: textbook recurrence as terms with the library's constant noise model" % _m,
                  "opaque state, free point / weights", [KP + _m], replay=_replay_kalman))
