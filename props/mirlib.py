"""Builders shared by mirsym specs: symbolic values of the crate's types (by field *name*, order from the source),
z3 helpers, Rust literal rendering for native replays."""
import z3
from values import *
from vm import Unmodelled, Panic, PathEnd
from models import OK, ERR, NONE, SOME, BOOL

U62 = 2 ** 62


def mk(P, ty, **fields):
    names = P.decls.structs[ty]
    missing = [n for n in names if n not in fields]
    extra = [n for n in fields if n not in names]
    if missing or extra:
        raise Unmodelled("struct %s: fields changed (missing %s, unknown %s)" % (ty, missing, extra))
    return Adt(ty, 0, tuple(fields[n] for n in names))


def fld(P, v, ty, name):
    return v.fields[P.decls.field_index(ty, name)]


def variant(P, enum, vname, *fields):
    return Adt(enum, P.decls.variant_index(enum, vname), fields)


def is_variant(P, v, enum, vname):
    return isinstance(v, Adt) and v.ty == enum and v.variant == P.decls.variant_index(enum, vname)


def f32(x):
    return z3.FPVal(x, F32)


def fp_finite(x):
    return z3.And(z3.Not(z3.fpIsNaN(x)), z3.Not(z3.fpIsInf(x)))


def fp_in(x, lo, hi):
    s = x.sort()
    return z3.And(z3.fpGEQ(x, z3.FPVal(lo, s)), z3.fpLEQ(x, z3.FPVal(hi, s)))


def sym_box(vm, name="b", lim=1.0e4, angle=None):
    """valid Universal2DBox: finite centre, positive aspect/height, confidence in [0,1]; angle None unless given"""
    xc, yc = vm.fresh('f32', name + "_xc"), vm.fresh('f32', name + "_yc")
    asp, h, c = vm.fresh('f32', name + "_aspect"), vm.fresh('f32', name + "_height"), vm.fresh('f32', name + "_conf")
    vm.assume(z3.And(fp_in(xc, -lim, lim), fp_in(yc, -lim, lim), fp_in(asp, 1e-3, lim), fp_in(h, 1e-3, lim), fp_in(c, 0.0, 1.0)))
    return Adt('Universal2DBox', 0, (xc, yc, NONE if angle is None else SOME(angle), asp, h, c, NONE))


def opaque_box(vm, tag):
    """a box whose numeric content is irrelevant for the query: concrete, distinguishable by xc = tag"""
    return Adt('Universal2DBox', 0, (f32(float(tag)), f32(0.0), NONE, f32(1.0), f32(1.0), f32(1.0), NONE))


def sort_options(P, vm, epoch_entries, max_idle, history_length=None, constraints=()):
    db = SOME(MapV(tuple(epoch_entries))) if epoch_entries is not None else NONE
    stc = mk(P, 'SpatioTemporalConstraints', constraints=VecV(tuple(constraints)))
    return mk(P, 'SortAttributesOptions', epoch_db=db, max_idle_epochs=max_idle,
              history_length=history_length if history_length is not None else usize(0),
              spatio_temporal_constraints=stc, position_weight=f32(0.05), velocity_weight=f32(0.00625))


def sym_epoch_entries(vm, n, bound=U62):
    ents = []
    for i in range(n):
        k = vm.fresh(64, 'scene%d' % i)
        e = vm.fresh(64, 'epoch%d' % i)
        vm.assume(z3.ULT(e.e, bound))
        for (k2, _) in ents:
            vm.assume(k.e != k2.e)
        ents.append((k, e))
    return ents


def epoch_lookup(ents, scene):
    """z3 term: current epoch of `scene` in the entry list (0 if absent)"""
    cur = z3.BitVecVal(0, 64)
    for k, e in reversed(ents):
        cur = z3.If(k.e == scene.e, e.e, cur)
    return cur


def rust_f32(d):
    """{'bits':..} from a counterexample -> exact Rust literal"""
    if isinstance(d, dict):
        return "f32::from_bits(0x%08x)" % d["bits"] if d.get("width", 32) == 32 else "f64::from_bits(0x%016x)" % d["bits"]
    return repr(float(d)) + "f32"


def cex_get(cex, prefix):
    """value of the input whose name starts with prefix + '!' """
    for k, v in cex["inputs"].items():
        if k.split('!')[0] == prefix:
            return v
    raise KeyError(prefix)


# ------------------------------------------------------------------ exact grid floats for oracles
def grid_f32(vm, name, values):
    """an f32 taking one of `values` (exactly representable), selected by a symbolic index"""
    bits = max(1, (len(values) - 1).bit_length())
    sel = vm.fresh(bits, name + '_sel')
    if len(values) < (1 << bits):
        vm.assume(z3.ULT(sel.e, len(values)))
    vm.notes.setdefault('grid', {})[name] = list(values)
    return FSet.select(sel.e, list(values), F32)


def grid_value(cex, vm, name):
    return vm.notes['grid'][name][cex_get(cex, name + '_sel')]


def f_add(a, b):
    return f_arith('add', a, b)


def f_sub(a, b):
    return f_arith('sub', a, b)


def f_mul(a, b):
    return f_arith('mul', a, b)


def f_div(a, b):
    return f_arith('div', a, b)


def f_lt(a, b):
    return f_rel('lt', a, b)


def f_le(a, b):
    return f_rel('le', a, b)


def f_ge(a, b):
    return f_rel('ge', a, b)


def f_gt(a, b):
    return f_rel('gt', a, b)


def f_eq(a, b):
    return f_rel('eq', a, b)


def f_to64(a):
    return f_to(a, F64)
