"""Rust prelude shared by the native replays of the generic track/store queries: scripted trait implementations whose
k-th callback fails (FAIL_AT) and a notifier that counts."""
REPLAY_PRELUDE = r'''
use anyhow::{anyhow, Result};
use similari::track::notify::ChangeNotifier;
use similari::track::{
    MetricOutput, MetricQuery, NoopLookup, Observation, ObservationMetric, ObservationsDb, Track, TrackAttributes,
    TrackAttributesUpdate, TrackStatus,
};
use std::sync::atomic::{AtomicI64, AtomicUsize, Ordering};
use std::sync::Arc;

// scripted environment: the k-th callback (0-based, counted over apply / attribute merge / optimize) fails
static CALLS: AtomicI64 = AtomicI64::new(0);
static FAIL_AT: AtomicI64 = AtomicI64::new(-1);
fn callback(name: &str) -> Result<()> {
    let k = CALLS.fetch_add(1, Ordering::SeqCst);
    if k == FAIL_AT.load(Ordering::SeqCst) { Err(anyhow!("scripted failure in {}", name)) } else { Ok(()) }
}

#[derive(Clone, Debug, PartialEq, Default)]
struct TA { v: u64 }
#[derive(Clone)]
struct Upd;
impl TrackAttributesUpdate<TA> for Upd {
    fn apply(&self, a: &mut TA) -> Result<()> { a.v += 1000; callback("apply") }
}
impl TrackAttributes<TA, f32> for TA {
    type Update = Upd;
    type Lookup = NoopLookup<TA, f32>;
    fn compatible(&self, _o: &TA) -> bool { true }
    fn merge(&mut self, _o: &TA) -> Result<()> { self.v += 7; callback("attr_merge") }
    fn baked(&self, _o: &ObservationsDb<f32>) -> Result<TrackStatus> { Ok(TrackStatus::Ready) }
}
#[derive(Clone, Default, Debug, PartialEq)]
struct M { state: u64 }
impl ObservationMetric<TA, f32> for M {
    fn metric(&self, _mq: &MetricQuery<'_, TA, f32>) -> MetricOutput<f32> { None }
    fn optimize(&mut self, _cls: u64, _hist: &[u64], attrs: &mut TA, obs: &mut Vec<Observation<f32>>, _prev: usize, _is_merge: bool) -> Result<()> {
        self.state += 1; attrs.v += 1; obs.push(Observation::new(Some(99.0), None));
        callback("optimize")
    }
}
#[derive(Clone, Default)]
struct Notif { n: Arc<AtomicUsize> }
impl ChangeNotifier for Notif { fn send(&mut self, _id: u64) { self.n.fetch_add(1, Ordering::SeqCst); } }

type T = Track<TA, M, f32, Notif>;
fn snapshot(t: &T, classes: &[u64]) -> (TA, Vec<Option<Vec<Option<f32>>>>, Vec<u64>) {
    (t.get_attributes().clone(),
     classes.iter().map(|c| t.get_observations(*c).map(|v| v.iter().map(|o| *o.attr()).collect())).collect(),
     t.get_merge_history().clone())
}
fn build(id: u64, classes: &[u64], notif: &Notif) -> T {
    FAIL_AT.store(-1, Ordering::SeqCst);
    let mut t = T::new(id, M::default(), TA::default(), notif.clone());
    for c in classes { t.add_observation(*c, Some(*c as f32), None, None).unwrap(); }
    t
}
'''
