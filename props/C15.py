"""C15 - exclusively-owned area share (engine M): the Similari-side logic around geo's polygon difference."""
import z3
from mir_engine import MQ
from mirlib import *
from kani_engine import KH

EXPLANATION = ("Bounded symbolic execution of the MIR of exclusively_owned_areas and exclusively_owned_areas_normalized_shares with "
               "geo's polygon operations uninterpreted: box i is differenced with EXACTLY the boxes j != i whose pair is not "
               "'too far' (pre-filter evaluated once per unordered pair, result used in both directions), each once, never with "
               "itself, and the result of the LAST difference is what is returned (for every outcome of every intermediate "
               "area / emptiness test a changed implementation might perform); the share is own_area / (box area + EPS) clamped "
               "to 1, hence in [0,1] for a non-negative own area. The pre-filter's soundness on overlapping boxes is the Kani "
               "harness shared with C08. The correctness and robustness of geo's BooleanOps::difference itself is outside.")
ASSUMPTIONS = ["2..3 boxes (thorough: 4) whose coordinates may coincide exactly (duplicated boxes); too_far is an arbitrary symmetric relation on unordered pairs (its soundness: harness c08_too_far_sound_grid)",
               "geo::BooleanOps::difference, Polygon::from(&box), MultiPolygon::from and unsigned_area are uninterpreted (difference returns a fresh value depending on both arguments; areas are values of an exact non-negative grid)",
               "rayon par_iter().enumerate().map().collect() = the sequential map (its contract)"]
OUTSIDE = ["geo's polygon difference (sweep-line f64 code of a third-party crate): that the uncovered fraction is computed correctly for rotated / degenerate inputs is NOT claimed",
           "order independence and the value 0 for fully covered boxes are claimed only relative to a correct difference operation"]
KANI_MODULES = ["c08_geometry"]
KANI = [KH("c08_geometry::c08_too_far_sound_grid", "quick", 1800,
           "too_far never rejects overlapping axis-aligned boxes; symmetric; false for a box with itself (so no overlapping neighbour is skipped, in either listing order)",
           "left/top k/4 in [-4,4], width/height k/2 in (0,4], exact aspects", ["similari::utils::bbox::Universal2DBox::too_far"])]


def _calls(P):
    def idx(vm, ref):
        # boxes are identified by the cell they live in (their VALUES may coincide: duplicated boxes are in scope)
        r = ref
        while isinstance(r, Ref) and isinstance(vm.deref(r), Ref):
            r = vm.deref(r)
        cells = vm.notes['box_cells']
        for k, c in enumerate(cells):
            if isinstance(r, Ref) and r.cell is c:
                return k
        raise Unmodelled("box argument that is not one of the input boxes")

    def too_far(vm, cal, args):
        i, j = idx(vm, args[0]), idx(vm, args[1])
        vm.notes.setdefault('too_far_calls', []).append((i, j))
        return vm.notes['far'][(min(i, j), max(i, j))]

    def poly_from(vm, cal, args):
        return Opaque('Polygon', 'box%d' % idx(vm, args[0]))

    def MP(base, clips):
        # geo::MultiPolygon is a tuple struct around Vec<Polygon>: field 0 is an opaque polygon list that remembers
        # (base polygon, clips applied in order); its emptiness / length are arbitrary
        return Adt('MP', 0, (Opaque('PolyList', (base, tuple(clips))),))

    def parts(mp):
        return mp.fields[0].tag

    def mp_from(vm, cal, args):
        return MP(args[0].tag, ())

    def polylist(vm, x):
        while isinstance(x, Ref):
            x = vm.deref(x)
        return x if isinstance(x, Opaque) and x.ty == 'PolyList' else None

    def vec_is_empty(vm, cal, args):
        if polylist(vm, args[0]) is None:
            return NotImplemented
        return vm.fresh('bool', 'polygon_list_is_empty')

    def vec_len(vm, cal, args):
        if polylist(vm, args[0]) is None:
            return NotImplemented
        return vm.fresh(64, 'polygon_list_len')

    def difference(vm, cal, args):
        a = vm.deref(args[0]) if isinstance(args[0], Ref) else args[0]
        b = vm.deref(args[1]) if isinstance(args[1], Ref) else args[1]
        while isinstance(a, Ref):
            a = vm.deref(a)
        while isinstance(b, Ref):
            b = vm.deref(b)
        vm.check(BOOL(parts(b)[1] == ()), "a box is only clipped by whole boxes")
        return MP(parts(a)[0], parts(a)[1] + (parts(b)[0],))

    def area(vm, cal, args):
        a = args[0]
        while isinstance(a, Ref):
            a = vm.deref(a)
        key = ('area',) + parts(a) if isinstance(a, Adt) and a.ty == 'MP' else ('area', repr(a))
        cache = vm.notes.setdefault('areas', {})
        if key not in cache:
            # exact grid of non-negative areas (one f64 division follows: folded per value instead of bit-blasted)
            cache[key] = f_to(grid_f32(vm, 'area%d' % len(cache), [0.0, 0.25, 1.0, 3.5, 16.0, 64.0, 1000.0]), F64)
        return cache[key]

    def is_empty(vm, cal, args):
        return vm.fresh('bool', 'is_empty')

    def star(vm, cal, args):
        if cal.method in ('difference',):
            return difference(vm, cal, args)
        if cal.method in ('unsigned_area', 'signed_area'):
            return area(vm, cal, args)
        if cal.method in ('is_empty',) and args and isinstance(args[0], (Ref, Adt)):
            return is_empty(vm, cal, args)
        return NotImplemented
    return {('Universal2DBox', None, 'too_far'): too_far, ('Polygon', 'From', 'from'): poly_from, ('MultiPolygon', 'From', 'from'): mp_from,
            ('MultiPolygon', 'BooleanOps', 'difference'): difference, ('MultiPolygon', 'Area', 'unsigned_area'): area,
            ('Vec', None, 'is_empty'): vec_is_empty, ('Vec', None, 'len'): vec_len, '*': star}


def _mk_own(n):
    def q(vm, P):
        fn = P.free['exclusively_owned_areas'][0]
        # coordinates from a two-point grid: boxes may coincide exactly (duplicates) or differ
        boxes = [Cell(Adt('Universal2DBox', 0, (grid_f32(vm, 'xc%d' % i, [0.0, 1.0]), f32(0.0), NONE, f32(1.0), f32(1.0), f32(1.0), NONE)), 'box%d' % i) for i in range(n)]
        vm.notes['box_cells'] = boxes
        far = {(i, j): vm.fresh('bool', 'too_far_%d_%d' % (i, j)) for i in range(n) for j in range(i + 1, n)}
        vm.notes.update(far=far, n=n)
        arg = Ref(Cell(VecV(tuple(Ref(b) for b in boxes), 'slice'), 'boxes'))
        r = vm.exec_fn(fn, [arg], {})
        vm.check(BOOL(len(r.items) == n), "one owned area per box, in input order")
        for i, mp in enumerate(r.items[:n]):
            vm.check(BOOL(isinstance(mp, Adt) and mp.ty == 'MP' and mp.fields[0].tag[0] == 'box%d' % i), "the owned area of box i starts from box i's own polygon")
            if not (isinstance(mp, Adt) and mp.ty == 'MP'):
                continue
            clips = list(mp.fields[0].tag[1])
            vm.check(BOOL('box%d' % i not in clips), "a box is never clipped by itself")
            vm.check(BOOL(len(set(clips)) == len(clips)), "no neighbour is subtracted twice")
            for j in range(n):
                if j == i:
                    continue
                near = z3.Not(far[(min(i, j), max(i, j))])
                vm.check(z3.If(near, BOOL('box%d' % j in clips), BOOL('box%d' % j not in clips)),
                         "box i is differenced with exactly the boxes that are not too far (either listing order)")
        calls = vm.notes.get('too_far_calls', [])
        vm.check(BOOL(all(a != b for a, b in calls)), "the pre-filter never compares a box with itself")
    return q


def q_shares(vm, P):
    fn = P.free['exclusively_owned_areas_normalized_shares'][0]
    n = 2
    hs = [grid_f32(vm, 'height%d' % i, [0.5, 1.0, 2.0, 8.0]) for i in range(n)]
    asp = [grid_f32(vm, 'aspect%d' % i, [0.5, 1.0, 4.0]) for i in range(n)]
    boxes = [Cell(Adt('Universal2DBox', 0, (f32(float(i)), f32(0.0), NONE, asp[i], hs[i], f32(1.0), NONE)), 'box%d' % i) for i in range(n)]
    vm.notes['box_cells'] = boxes
    polys = VecV(tuple(Adt('MP', 0, (Opaque('PolyList', ('box%d' % i, ())),)) for i in range(n)), 'slice')
    vm.notes.update(n=n)
    r = vm.exec_fn(fn, [Ref(Cell(VecV(tuple(Ref(b) for b in boxes), 'slice'), 'boxes')), Ref(Cell(polys, 'polys'))], {})
    vm.check(BOOL(len(r.items) == n), "one share per box")
    eps = vm.const_value('EPS', {})
    for i, e in enumerate(r.items[:n]):
        own = vm.notes['areas'][('area', 'box%d' % i, ())]
        barea = f_mul(f_mul(hs[i], asp[i]), hs[i])
        raw = f_to(f_div(own, f_to(f_add(barea, eps), F64)), F32)
        want = f_ite(f_ge(raw, f32(1.0)), f32(1.0), raw)
        vm.check(z3.fpToIEEEBV(fp_plain(e)) == z3.fpToIEEEBV(fp_plain(want)), "share = own area / (box area + EPS), clamped to 1")
        vm.check(z3.And(f_ge(e, f32(0.0)), f_le(e, f32(1.0))), "share in [0,1]")


OWN_REPLAY = r'''
use similari::utils::bbox::{BoundingBox, Universal2DBox};
use similari::utils::clipping::bbox_own_areas::{exclusively_owned_areas, exclusively_owned_areas_normalized_shares};

/// exact share by counting unit cells (integer axis-aligned boxes)
fn reference(boxes: &[(i32, i32, i32, i32)], i: usize) -> f32 {
    let (l, t, w, h) = boxes[i];
    let mut own = 0;
    for x in l..l + w { for y in t..t + h {
        if !boxes.iter().enumerate().any(|(j, b)| j != i && x >= b.0 && x < b.0 + b.2 && y >= b.1 && y < b.1 + b.3) { own += 1; }
    } }
    own as f32 / (w * h) as f32
}

#[test]
fn replay() {
    // integer axis-aligned boxes: small/big, nested, identical, covered by a union, disjoint; every listing order of 3
    let families: Vec<Vec<(i32, i32, i32, i32)>> = vec![
        vec![(0, 0, 10, 10), (5, 5, 10, 10), (10, 10, 10, 10)],
        vec![(0, 0, 100, 100), (90, 90, 5, 5), (200, 200, 5, 5)],
        vec![(0, 0, 10, 10), (2, 2, 4, 4), (0, 0, 10, 10)],
        vec![(0, 0, 10, 10), (-5, 0, 10, 10), (5, 0, 10, 10)],
        vec![(0, 0, 4, 40), (0, 36, 40, 4), (30, 30, 3, 3)],
        vec![(0, 0, 6, 6), (100, 0, 6, 6), (0, 100, 6, 6)],
    ];
    let orders = [[0usize, 1, 2], [0, 2, 1], [1, 0, 2], [1, 2, 0], [2, 0, 1], [2, 1, 0]];
    for fam in &families { for ord in &orders {
        let bx: Vec<(i32, i32, i32, i32)> = ord.iter().map(|k| fam[*k]).collect();
        let ub: Vec<Universal2DBox> = bx.iter().map(|b| BoundingBox::new(b.0 as f32, b.1 as f32, b.2 as f32, b.3 as f32).into()).collect();
        let refs: Vec<&Universal2DBox> = ub.iter().collect();
        let polys = exclusively_owned_areas(&refs);
        assert_eq!(polys.len(), refs.len());
        let shares = exclusively_owned_areas_normalized_shares(&refs, &polys);
        for i in 0..bx.len() {
            assert!(shares[i] >= 0.0 && shares[i] <= 1.0, "share in [0,1]");
            assert!((shares[i] - reference(&bx, i)).abs() < 1e-3, "own share of box {} in {:?}: {} vs {}", i, bx, shares[i], reference(&bx, i));
        }
    } }
}
'''


def _replay_own(cex, v, vm):
    return OWN_REPLAY


F = "similari::utils::clipping::bbox_own_areas::"
MIR = [
    MQ("c15_own_areas_2", "quick", _mk_own(2), "box i is differenced with exactly its not-too-far neighbours, once each, never with itself; the last difference is returned", "2 boxes, arbitrary pre-filter outcome, arbitrary polygon areas",
       [F + "exclusively_owned_areas"], spec_calls=_calls, replay=_replay_own),
    MQ("c15_own_areas_3", "quick", _mk_own(3), "same", "3 boxes", [F + "exclusively_owned_areas"], spec_calls=_calls, replay=_replay_own),
    MQ("c15_own_areas_4", "thorough", _mk_own(4), "same", "4 boxes", [F + "exclusively_owned_areas"], spec_calls=_calls, replay=_replay_own, max_paths=200000),
    MQ("c15_shares", "quick", q_shares, "share = own area / (box area + EPS) clamped to 1, in [0,1]", "2 boxes, heights/aspects from exact grids, own area from {0,.25,1,3.5,16,64,1000}",
       [F + "exclusively_owned_areas_normalized_shares"], spec_calls=_calls, replay=_replay_own),
]


# polygon generation the clipping starts from (never a stale cached polygon): same obligations as C08 / C19
import C08 as _c08
MIR += [q for q in _c08.MIR if q.name in ('c08_polygon_from', 'c08_gen_vertices')]
