"""One whole VisualSort::predict_with_scene call, executed from MIR on a symbolic tracker state (engine M).

Same construction as props/stepsort.py: the store model of C09/C10 with the real worker loop, real builders /
Track::add_observation / merge / VisualMetric::{metric, optimize} / VisualAttributes / VisualVoting (BestFitVoting +
SortVoting) code; uninterpreted are the geometry numbers (too_far, IoU), the feature distance, feature packing and the
Kalman prediction. The expected decision is derived from the symbolic inputs by the rules of the property (C12's voting
oracle applied to the stream the rules imply). Registered under C12 and cross-listed by C01 / C13."""
import itertools
import z3
from mir_engine import MQ
from mirlib import *
from storelib import Store, EagerSched
from envlib import struct_eq
import C17 as _c17

IOUGRID = [0.125, 0.5, 0.75]
FDGRID = [0.25, 1.0, 4.0]
ENV = {'TA': 'VisualAttributes', 'M': 'VisualMetric', 'OA': 'VisualObservationAttributes', 'N': 'NoopNotifier'}


def _marker(b):
    return int(z3_to_np(b.fields[0], F32))


def _calls(P):
    def box(vm, x):
        while isinstance(x, Ref):
            x = vm.deref(x)
        return x

    def pair(vm, args):
        a, b = _marker(box(vm, args[0])), _marker(box(vm, args[1]))
        d, t = (a, b) if a < 200 else (b, a)
        return d - 100, t - 200

    def too_far(vm, cal, args):
        return vm.notes['far'][pair(vm, args)]

    def cmo(vm, cal, args):
        l, r = args
        l = vm.deref(l) if isinstance(l, Ref) else l
        r = vm.deref(r) if isinstance(r, Ref) else r
        return vm.notes['iou'][pair(vm, [l.fields[0], r.fields[0]])]

    def dist_in_2r(vm, cal, args):
        return f32(0.5)

    def make_prediction(vm, cal, args):
        b = box(vm, args[1])
        m = _marker(b)
        attrs = args[0]
        a = vm.deref(attrs)
        si = P.decls.field_index(a.ty, 'state')
        fresh = a.fields[si].variant == 0
        vm.store(attrs, Adt(a.ty, 0, tuple(SOME(Opaque('KalmanState', 'after%d' % m)) if i == si else f for i, f in enumerate(a.fields))))
        if fresh:   # fresh filter round trip: innovation exactly zero (see stepsort)
            return Adt('Universal2DBox', 0, (b.fields[0], b.fields[1], NONE, b.fields[3], b.fields[4], b.fields[5], NONE))
        return Adt('Universal2DBox', 0, (f32(float(400 + m)), f32(1.0), NONE, f32(1.0), f32(1.0), b.fields[5], NONE))

    def rng_gen(vm, cal, args):
        x = vm.fresh(64, 'candidate_id')
        ids = vm.notes['ids']
        vm.assume(z3.And([x.e != 0] + [x.e != o.e for o in ids]))
        ids.append(x)
        vm.notes.setdefault('cand_ids', []).append(x)
        return x

    def feature_from_vec(vm, cal, args):
        v = args[0]
        while isinstance(v, Ref):
            v = vm.deref(v)
        first = v.items[0]
        return VecV((Opaque('f32x8', first.tag),))

    def fdist(vm, cal, args):
        a, b = box(vm, args[0]), box(vm, args[1])
        ta, tb = a.items[0].tag, b.items[0].tag
        d, t = (ta, tb) if str(ta).startswith('det') else (tb, ta)
        vm.notes.setdefault('fdist_calls', []).append((d, t))
        return vm.notes['fd'][(d, t)]

    def star(vm, cal, args):
        if cal.trait == 'ChangeNotifier' and cal.method == 'send':
            return ()
        return NotImplemented
    return {('Universal2DBox', None, 'too_far'): too_far, ('Universal2DBox', 'ObservationAttributes', 'calculate_metric_object'): cmo,
            ('Universal2DBox', None, 'dist_in_2r'): dist_in_2r,
            ('VisualAttributes', 'TrackAttributesKalmanPrediction', 'make_prediction'): make_prediction,
            ('ThreadRng', 'Rng', 'gen'): rng_gen, ('*', 'Rng', 'gen'): rng_gen,
            ('Vec', 'FromVec', 'from_vec'): feature_from_vec, (None, None, 'euclidean'): fdist, (None, None, 'cosine'): fdist, '*': star}


def _detbox(i, conf):
    return Adt('Universal2DBox', 0, (f32(float(100 + i)), f32(0.0), NONE, f32(1.0), f32(1.0), conf, NONE))


def _trackbox(j):
    return Adt('Universal2DBox', 0, (f32(float(200 + j)), f32(0.0), NONE, f32(1.0), f32(1.0), f32(1.0), NONE))


def mk_step(ndet, nstored, lite=False, driver=None):
    def q(vm, P):
        fn = P.impl_methods[('VisualSort', None, 'predict_with_scene')][0][0] if driver is None else None
        scene, other_scene = vm.fresh(64, 'scene'), vm.fresh(64, 'other_scene')
        vm.assume(other_scene.e != scene.e)
        ep_s, ep_o = vm.fresh(64, 'epoch_scene'), vm.fresh(64, 'epoch_other')
        vm.assume(z3.And(z3.ULT(ep_s.e, 2 ** 40), z3.ULT(ep_o.e, 2 ** 40)))
        ents = [(scene, ep_s), (other_scene, ep_o)]
        max_idle = vm.fresh(64, 'max_idle')
        vm.assume(z3.ULT(max_idle.e, 2 ** 40))
        opts = Cell(sort_options(P, vm, ents, max_idle, history_length=usize(2)), 'opts')
        # ---- metric options
        thr = grid_f32(vm, 'iou_threshold', [0.25] if lite else [0.25, 0.5])
        vthr = grid_f32(vm, 'visual_threshold', [0.5, 2.0])
        minc = f32(0.5)
        min_len = usize(1) if (lite or vm.choose_n(2, "minimal track length") == 0) else usize(2)
        min_votes = usize(1) if (lite or vm.choose_n(2, "min votes") == 0) else usize(2)
        q_use = grid_f32(vm, 'q_use', [0.25, 0.75])
        min_area = grid_f32(vm, 'min_area', [0.5] if lite else [0.5, 2.0])
        mo = mk(P, 'VisualMetricOptions', visual_max_observations=usize(2), visual_min_votes=min_votes,
                visual_kind=variant(P, 'VisualSortMetricType', 'Euclidean', vthr), positional_kind=variant(P, 'PositionalMetricType', 'IoU', thr),
                visual_minimal_track_length=min_len, visual_minimal_area=min_area, visual_minimal_quality_use=q_use,
                visual_minimal_quality_collect=f32(0.5), visual_minimal_own_area_percentage_use=f32(0.0),
                visual_minimal_own_area_percentage_collect=f32(0.0), positional_min_confidence=minc)
        mo_cell = Cell(mo, 'metric_opts')
        metric = mk(P, 'VisualMetric', opts=Ref(mo_cell))
        noop = Adt('NoopNotifier', 0, ())
        # ---- stored tracks
        ids = []
        vm.notes['ids'] = ids
        tracks, info = [], []
        for j in range(nstored):
            tid = vm.fresh(64, 'track%d_id' % j)
            vm.assume(z3.And([tid.e != 0] + [tid.e != o.e for o in ids]))
            ids.append(tid)
            same_scene = vm.choose_n(2, "track %d in the call's scene" % j) == 0
            tscene = scene if same_scene else other_scene
            last = vm.fresh(64, 'track%d_last' % j)
            vm.assume(z3.ULE(last.e, ep_s.e if same_scene else ep_o.e))
            length = vm.fresh(64, 'track%d_length' % j)
            vm.assume(z3.And(z3.UGE(length.e, 1), z3.ULT(length.e, 2 ** 40)))
            newest_has_f = vm.choose_n(2, "newest stored observation has a feature") == 0
            older = vm.choose_n(2, "an older feature is stored") == 0
            obs = [Adt('Observation', 0, (SOME(mk(P, 'VisualObservationAttributes', bbox=SOME(_trackbox(j)), visual_quality=f32(0.75), own_area_percentage=NONE)),
                                        SOME(VecV((Opaque('f32x8', 't%d_0' % j),))) if newest_has_f else NONE))]
            feats = ['t%d_0' % j] if newest_has_f else []
            if older:
                obs.append(Adt('Observation', 0, (SOME(mk(P, 'VisualObservationAttributes', bbox=NONE, visual_quality=f32(0.875), own_area_percentage=NONE)),
                                                  SOME(VecV((Opaque('f32x8', 't%d_1' % j),))))))
                feats.append('t%d_1' % j)
            prev_vt = vm.choose_n(3, "previous voting type")
            attrs = mk(P, 'VisualAttributes', predicted_boxes=VecV((_trackbox(j),), 'VecDeque'), observed_boxes=VecV((_trackbox(j),), 'VecDeque'),
                       observed_features=VecV((NONE,), 'VecDeque'), last_updated_epoch=last, track_length=length,
                       visual_features_collected_count=usize(len(feats)), scene_id=tscene, custom_object_id=SOME(vm.fresh(64, 'track%d_custom' % j, signed=True)),
                       voting_type=NONE if prev_vt == 0 else SOME(variant(P, 'VotingType', 'Visual' if prev_vt == 1 else 'Positional')),
                       state=SOME(Opaque('KalmanState', 'st%d' % j)), opts=Ref(opts))
            t = mk(P, 'Track', attributes=attrs, track_id=tid, observations=MapV(((usize(0), VecV(tuple(obs))),)),
                   metric=metric, merge_history=VecV((tid,)), notifier=noop)
            tracks.append(t)
            info.append(dict(id=tid, same_scene=same_scene, last=last, length=length, scene=tscene, feats=feats, newest_has_f=newest_has_f, nobs=len(obs)))
        defaults = (mk(P, 'VisualAttributes', predicted_boxes=VecV((), 'VecDeque'), observed_boxes=VecV((), 'VecDeque'), observed_features=VecV((), 'VecDeque'),
                       last_updated_epoch=usize(0), track_length=usize(0), visual_features_collected_count=usize(0), scene_id=usize(0), custom_object_id=NONE,
                       voting_type=NONE, state=NONE, opts=Ref(opts)), metric, noop)
        main = Store(P, vm, 1, tracks, tag='main', defaults=defaults, env=ENV)
        wasted = Store(P, vm, 1, [], tag='wasted', defaults=defaults, env=ENV)

        class Both:
            def __init__(s):
                s.a, s.b = EagerSched(main), EagerSched(wasted)

            def on_send(s, vm_, qc):
                pass

            def on_block(s, vm_, qc):
                s.a.on_block(vm_, qc)
                s.b.on_block(vm_, qc)
        vm.notes['sched'] = Both()
        counter = vm.fresh(64, 'id_counter')
        vm.assume(z3.And(z3.ULT(counter.e, 2 ** 62), *[z3.ULE(i['id'].e, counter.e) for i in info]))
        awc = vm.fresh(64, 'aw_counter')
        vm.assume(awc.e != 0)
        counter_cell = Cell(counter, 'id_counter')      # batch tracker: the counter shared with the voting threads
        awp = vm.fresh(64, 'aw_periodicity')
        if driver is None:
            vs = Cell(mk(P, 'VisualSort', store=main.value, wasted_store=wasted.value, metric_opts=Ref(mo_cell), track_opts=Ref(opts),
                         auto_waste=mk(P, 'AutoWaste', periodicity=awp, counter=awc), track_id=counter), 'vs')
            counter_after = lambda: fld(P, vs.v, 'VisualSort', 'track_id')
        else:
            counter_after = lambda: counter_cell.v
        # ---- detections
        dets, dinfo = [], []
        for i in range(ndet):
            conf = grid_f32(vm, 'det%d_conf' % i, [1.0] if lite else [0.25, 1.0])
            has_cid = vm.choose_n(2, "custom id given") == 0
            cid = vm.fresh(64, 'det%d_custom' % i, signed=True)
            has_f = vm.choose_n(2, "detection has a feature") == 0
            has_q = lite or vm.choose_n(2, "feature quality given") == 0
            qual = grid_f32(vm, 'det%d_quality' % i, [0.5, 1.0]) if has_q else f32(1.0)
            feat = SOME(Adt('Cow', 0, (Ref(Cell(VecV((Opaque('f32', 'det%d' % i), Opaque('f32', 'det%d_b' % i)), 'slice'), 'feat%d' % i)),))) if has_f else NONE
            dets.append(mk(P, 'VisualSortObservation', feature=feat, feature_quality=SOME(qual) if has_q else NONE, bounding_box=_detbox(i, conf),
                           custom_object_id=SOME(cid) if has_cid else NONE))
            dinfo.append(dict(conf=conf, cid=cid if has_cid else None, has_f=has_f, qual=qual))
        far, iou, fd = {}, {}, {}
        for i in range(ndet):
            for j in range(nstored):
                far[(i, j)] = vm.fresh('bool', 'too_far_%d_%d' % (i, j))
                overlap = vm.choose_n(2, "boxes overlap") == 0
                iou[(i, j)] = SOME(grid_f32(vm, 'iou_%d_%d' % (i, j), IOUGRID)) if overlap else NONE
                for tag in info[j]['feats']:
                    fd[('det%d' % i, tag)] = grid_f32(vm, 'fd_%d_%s' % (i, tag), FDGRID)
        vm.notes.update(far=far, iou=iou, fd=fd, ndet=ndet, nstored=nstored)
        arg = Ref(Cell(VecV(tuple(dets), 'slice'), 'observations'))
        if driver is None:
            r = vm.exec_fn(fn, [Ref(vs), scene, arg], {})
        else:
            r = driver(vm, P, dict(main=main, wasted=wasted, metric_opts=mo_cell, opts=opts, awp=awp, awc=awc, counter_cell=counter_cell,
                                   scene=scene, dets=dets, sched=vm.notes['sched']))
        # =================================================================== oracle
        new_epoch = ep_s.e + 1
        recs = r.items
        vm.check(BOOL(len(recs) == ndet), "one record per detection")
        cand_ids = vm.notes.get('cand_ids', [])
        vm.check(BOOL(len(cand_ids) == ndet), "one candidate track per detection")
        if len(recs) != ndet or len(cand_ids) != ndet:
            return
        # ---- the stream the rules of the property imply
        stream = []
        area = f32(1.0)
        for i in range(ndet):
            c = f_ite(f_lt(dinfo[i]['conf'], minc), minc, dinfo[i]['conf'])
            usable = vm.branch(z3.And(f_ge(area, min_area), f_ge(dinfo[i]['qual'], q_use)))
            for j in range(nstored):
                tj = info[j]
                if not tj['same_scene'] or not vm.branch(z3.ULE(new_epoch - tj['last'].e, max_idle.e)):
                    continue      # incompatible: never compared
                long_enough = vm.branch(z3.UGE(z3.BitVecVal(len(tj['feats']), 64), min_len.e))
                for k in range(tj['nobs']):
                    am = None
                    if k == 0 and iou[(i, j)].variant == 1 and not vm.branch(far[(i, j)]):
                        w = f_mul(iou[(i, j)].fields[0], c)
                        if vm.branch(f_ge(w, thr)):
                            am = w
                    tag = 't%d_%d' % (j, k)
                    d = None
                    if dinfo[i]['has_f'] and usable and long_enough and tag in tj['feats'] and vm.branch(f_le(fd[('det%d' % i, tag)], vthr)):
                        d = fd[('det%d' % i, tag)]
                    if am is not None or d is not None:
                        stream.append((cand_ids[i], tj['id'], am, d))
        tids = [t['id'] for t in info]
        O = _c17.Oracle(vm, cand_ids, tids, [(f, t, d) for f, t, w, d in stream], f32(3.4028234663852886e38), min_votes)
        # ---- decode records
        T = 'SortTrack'
        res = {}
        new_count = 0
        new_ids = []
        for i, rec in enumerate(recs):
            g = lambda n: fld(P, rec, T, n)
            vm.check(BOOL(_marker(g('observed_bbox')) == 100 + i), "record i echoes detection i's observed box (submission order)")
            vm.check(g('scene_id').e == scene.e, "record carries the scene of the call")
            vm.check(g('epoch').e == new_epoch, "record carries the scene's epoch after the call")
            co = g('custom_object_id')
            if dinfo[i]['cid'] is None:
                vm.check(BOOL(co.variant == 0), "record echoes the detection's custom object id (none)")
            else:
                vm.check(BOOL(co.variant == 1) if co.variant != 1 else co.fields[0].e == dinfo[i]['cid'].e, "record echoes the detection's custom object id")
            rid = g('id')
            hit = [j for j in range(nstored) if vm.branch(rid.e == info[j]['id'].e)]
            vt = 'Visual' if is_variant(P, g('voting_type'), 'VotingType', 'Visual') else 'Positional'
            if hit:
                j = hit[0]
                res[i] = (('track', j), vt)
                vm.check(BOOL(info[j]['same_scene']), "a detection is never attached to a track of another scene")
                vm.check(g('length').e == info[j]['length'].e + 1, "track length = number of detections attached")
            else:
                new_count += 1
                res[i] = (('self',), None)
                # inductive form of "never issued before": every issued id is <= the counter; a new id is above the old
                # counter, at most the new counter, and differs from the other new ids of this call
                vm.check(z3.And(z3.UGT(rid.e, counter.e), z3.ULE(rid.e, counter_after().e)), "a new track gets an id never issued before (above the old counter, covered by the new one)")
                vm.check(z3.And([rid.e != o for o in new_ids] + [z3.BoolVal(True)]), "new ids of one call are pairwise distinct")
                new_ids.append(rid.e)
                vm.check(g('length').e == 1, "a new track has length 1")
                vm.check(BOOL(vt == 'Positional'), "a new track reports no appearance attachment")
        in_stream = set()
        for f, t, w, d in stream:
            in_stream.add([k for k, c in enumerate(cand_ids) if c is f][0])
        res_for_oracle = {i: v for i, v in res.items() if (i in in_stream or v[0][0] == 'track')}
        import C12 as _c12     # (imported here: C12 cross-lists this module's queries)
        _c12.check_visual_assignment(vm, P, O, cand_ids, tids, stream, res_for_oracle, thr, labels_for_self=False)
        used = [v[0][1] for v in res.values() if v[0][0] == 'track']
        vm.check(BOOL(len(used) == len(set(used))), "no two detections of one call receive the same track")
        # ---- state after the call
        vm.check(z3.UGE(counter_after().e, counter.e), "the id counter never goes back")
        vm.check(BOOL(len(main.all_tracks()) == nstored + new_count), "every stored track is still stored once, plus the new ones")
        for j in range(nstored):
            cur_t = [t for k, t in main.all_tracks() if k is info[j]['id'] or z3.is_true(z3.simplify(k.e == info[j]['id'].e))]
            vm.check(BOOL(len(cur_t) == 1), "stored track kept")
            if len(cur_t) != 1:
                continue
            a = fld(P, cur_t[0], 'Track', 'attributes')
            if j in used:
                i = [i for i, v in res.items() if v[0] == ('track', j)][0]
                vm.check(fld(P, a, 'VisualAttributes', 'last_updated_epoch').e == new_epoch, "a continued track is stamped with the new epoch")
                vm.check(fld(P, a, 'VisualAttributes', 'track_length').e == info[j]['length'].e + 1, "a continued track grows by one")
                ob = [v for k, v in fld(P, cur_t[0], 'Track', 'observations').items][0].items
                nf = sum(1 for o_ in ob if o_.fields[1].variant == 1)
                vm.check(BOOL(nf <= 2), "at most visual_max_observations features are stored")
                vm.check(fld(P, a, 'VisualAttributes', 'visual_features_collected_count').e == nf, "reported feature count = stored features")
                v = fld(P, a, 'VisualAttributes', 'voting_type')
                vm.check(BOOL(v.variant == 1 and is_variant(P, v.fields[0], 'VotingType', res[i][1])), "the track remembers the voting type reported in the record")
            else:
                vm.check(struct_eq(cur_t[0], tracks[j]), "a track that was not continued is unchanged")
        em = opts.v.fields[0].fields[0]
        after_s, after_o = z3.BitVecVal(0, 64), z3.BitVecVal(0, 64)
        for k, e in reversed(em.items):
            after_s = z3.If(k.e == scene.e, e.e, after_s)
            after_o = z3.If(k.e == other_scene.e, e.e, after_o)
        vm.check(after_s == new_epoch, "the scene's epoch advanced by one")
        vm.check(after_o == ep_o.e, "other scenes' epochs are untouched")
    return q


STEP_REPLAY = r'''
use similari::trackers::sort::{PositionalMetricType, VotingType};
use similari::trackers::tracker_api::TrackerAPI;
use similari::trackers::visual_sort::metric::VisualSortMetricType;
use similari::trackers::visual_sort::options::VisualSortOptions;
use similari::trackers::visual_sort::simple_api::VisualSort;
use similari::trackers::visual_sort::VisualSortObservation;
use similari::utils::bbox::BoundingBox;

/// one object seen for `pattern.len()` frames at place 0 (frame k: feature present? quality good?), then probed:
///  (1) the same look far away (only appearance can re-identify it), (2) something without feature where it was last seen
fn scenario(min_len: usize, max_obs: usize, pattern: &[(bool, bool)], probe_good: bool) {
    let opts = VisualSortOptions::default().max_idle_epochs(3).kept_history_length(2).visual_max_observations(max_obs)
        .visual_minimal_track_length(min_len).visual_min_votes(1).visual_minimal_quality_use(0.5).visual_minimal_quality_collect(0.5)
        .positional_metric(PositionalMetricType::IoU(0.3)).visual_metric(VisualSortMetricType::Euclidean(1.0));
    let mut t = VisualSort::new(1, &opts);
    let look = vec![7.0f32, 1.0];
    let ctx = format!("min_len {} max_obs {} pattern {:?} probe_good {}", min_len, max_obs, pattern, probe_good);
    let mut id = 0u64;
    let mut stored = 0usize;      // features in the gallery, by the rules of the property
    for (k, (with_f, good)) in pattern.iter().enumerate() {
        let r = t.predict(&[VisualSortObservation::new(if *with_f { Some(&look[..]) } else { None }, Some(if *good { 0.9 } else { 0.2 }),
                                                      BoundingBox::new(0.0, 0.0, 10.0, 20.0).as_xyaah(), Some(k as i64))]);
        assert_eq!(r.len(), 1, "one record per detection ({})", ctx);
        if k == 0 { id = r[0].id; stored = if *with_f { 1 } else { 0 }; } else {
            assert_eq!(r[0].id, id, "the object at the same place continues its track ({})", ctx);
            if stored >= max_obs { stored -= 1; }
            if *with_f && *good { stored += 1; }
        }
        assert_eq!(r[0].length, k + 1, "track length ({})", ctx);
        assert_eq!(r[0].custom_object_id, Some(k as i64), "record echoes the custom object id ({})", ctx);
        assert_eq!(r[0].epoch, k + 1, "record carries the epoch ({})", ctx);
    }
    let n = pattern.len();
    // (A) same place, same look: appearance decides first when allowed, otherwise position
    let r = t.predict(&[VisualSortObservation::new(Some(&look[..]), Some(if probe_good { 0.9 } else { 0.2 }), BoundingBox::new(0.0, 0.0, 10.0, 20.0).as_xyaah(), Some(77))]);
    let by_appearance = probe_good && stored >= min_len && stored >= 1;
    assert_eq!(r[0].id, id, "the object at the same place continues its track ({})", ctx);
    assert_eq!(matches!(r[0].voting_type, VotingType::Visual), by_appearance, "Visual exactly when the feature is usable and enough features are collected ({}; {} stored)", ctx, stored);
    assert_eq!(r[0].length, n + 1);
    if stored >= max_obs { stored -= 1; }
    if probe_good { stored += 1; }
    // (B) same place, no feature: positional, whatever the previous attachment was
    let r = t.predict(&[VisualSortObservation::new(None, Some(0.9), BoundingBox::new(0.0, 0.0, 10.0, 20.0).as_xyaah(), None)]);
    assert_eq!(r[0].id, id, "the detection at the track's place continues it ({})", ctx);
    assert!(matches!(r[0].voting_type, VotingType::Positional), "attached by position -> Positional, also after an appearance attachment ({})", ctx);
    assert_eq!((r[0].custom_object_id, r[0].length), (None, n + 2));
    if stored >= max_obs { stored -= 1; }
    // (C) far away, same look, usable feature: only appearance can re-identify it
    let r = t.predict(&[VisualSortObservation::new(Some(&look[..]), Some(0.9), BoundingBox::new(5000.0, 0.0, 10.0, 20.0).as_xyaah(), Some(78))]);
    if stored >= min_len && stored >= 1 {
        assert_eq!(r[0].id, id, "enough stored features close to the usable feature re-identify the track ({}; {} stored)", ctx, stored);
        assert!(matches!(r[0].voting_type, VotingType::Visual), "attached by appearance -> Visual ({})", ctx);
        assert_eq!(r[0].length, n + 3);
    } else {
        assert_ne!(r[0].id, id, "without enough collected features the far-away look-alike starts a new track ({}; {} stored)", ctx, stored);
        assert_eq!(r[0].length, 1);
        assert!(r[0].id > id, "new ids are fresh");
    }
    assert_eq!(t.current_epoch_with_scene(0), n + 3);
    assert_eq!(t.current_epoch_with_scene(5), 0, "other scenes untouched");
}

#[test]
fn replay() {
    let frames = [(true, true), (true, false), (false, true)];
    for min_len in 1..=3usize { for max_obs in min_len..=3usize { for probe_good in [true, false] {
        for a in &frames { for b in &frames { for c in &frames { for d in &frames {
            scenario(min_len, max_obs, &[*a], probe_good);
            scenario(min_len, max_obs, &[*a, *b], probe_good);
            scenario(min_len, max_obs, &[*a, *b, *c, *d], probe_good);
            scenario(min_len, max_obs, &[*a, *b, *c, *d, *a, *c], probe_good);
        } } } }
    } } }
    // an empty frame advances the epoch
    let mut t = VisualSort::new(1, &VisualSortOptions::default());
    assert!(t.predict(&[]).is_empty());
    assert_eq!(t.current_epoch_with_scene(0), 1, "an empty predict call advances the scene's epoch");
}
'''


def replay_step(cex, v, vm):
    return STEP_REPLAY


S = "similari::trackers::visual_sort::simple_api::VisualSort::predict_with_scene"
FUNCS = [S, "similari::track::store::TrackStore::{new_track, foreign_track_distances, add_track, merge_external, get_store}", "similari::track::store::TrackStore::handle_store_ops",
         "similari::track::builder::*", "similari::track::Track::{new, add_observation, merge, distances}",
         "similari::trackers::visual_sort::metric::VisualMetric::{metric, optimize, optimize_observations, feature_can_be_used, visual_metric, positional_metric, postprocess_distances}",
         "similari::trackers::visual_sort::track_attributes::VisualAttributes::{compatible, merge, update_history}", "similari::trackers::visual_sort::voting::VisualVoting::winners",
         "similari::track::voting::best::BestFitVoting::winners", "similari::trackers::sort::voting::SortVoting::winners", "similari::trackers::sort::SortTrack::from"]
MIR = []
for (nd, ns, tier, lite) in [(0, 1, 'quick', False), (1, 0, 'quick', False), (1, 1, 'quick', True), (1, 1, 'thorough', False), (2, 1, 'deep', True), (1, 2, 'deep', True)]:   # deep: not finished within 3000 s
    MIR.append(MQ("step_visual_d%d_t%d%s" % (nd, ns, '_lite' if lite else ''), tier, mk_step(nd, ns, lite),
                  "one VisualSort::predict_with_scene call from an arbitrary valid tracker state: records echo the detections; attachment by appearance exactly under the use thresholds / collected "
                  "features / visual threshold / min votes, greatest weight wins, else positional maximum-weight fallback, else a new track; truthful voting type; galleries bounded; only this scene's epoch advances",
                  "%d detections, %d stored tracks (1-2 stored observations, features present or not), 1 shard, IoU + Euclidean mode, thresholds from small grids; geometry numbers, feature distances, packing and Kalman prediction uninterpreted" % (nd, ns),
                  FUNCS, spec_calls=_calls, replay=replay_step, max_paths=400000, timeout=(6000 if tier == 'thorough' else 3000), opts={'map_order': 'insertion'}))
