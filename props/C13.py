"""C13 - bounded galleries and histories: newest kept, lowest quality evicted (engine M, inductive step)."""
import z3
from mir_engine import MQ
from mirlib import *
from envlib import struct_eq

EXPLANATION = ("Bounded symbolic execution of the MIR of VisualMetric::optimize (+ optimize_observations, feature_can_be_used, "
               "VisualAttributes::update_history), SortMetric::optimize (+ SortAttributes::update_history) and the track -> "
               "record conversions, with z3 deciding every branch. One optimisation step is executed from an ARBITRARY valid "
               "gallery / history (inductive step; the first observation is the base case), so lifetimes of any length are "
               "covered by the invariant: at most visual_max_observations stored features, arriving observation stored with the prediction, evicted "
               "entry of minimal quality, the feature of a continuing detection kept only if it meets the collect thresholds, "
               "reported count = number of stored features; histories = the most recent min(length, history) entries in arrival "
               "order; the records echo the LAST entries. Kalman prediction is uninterpreted (C07).")
ASSUMPTIONS = ["gallery pre-state: 0..3 stored observations, at most visual_max_observations (1..3) of them, previous newest entry at index 0 (with or without feature), the others with features and without box; qualities from the exact grid {0.125,0.25,0.5,0.75,0.875} by symbolic index (ties included)",
               "new observation: quality from the grid, feature present or absent, own-area share present or absent; box area from {1,4,16}; thresholds (collect quality, minimal area, own-area share) free non-NaN f32",
               "all other metric options symbolic (visual_minimal_track_length, visual_min_votes, ... any value)",
               "histories: 0..3 stored entries, history_length 0 (unbounded) .. 3, representation invariant len <= history_length when bounded",
               "make_prediction (Kalman) replaced by an uninterpreted box; VecDeque::as_slices may split the contents at ANY position (std documents no split point)"]
OUTSIDE = ["numeric content of predictions (C07)", "galleries larger than 3 / histories longer than 3 (same loop-free code)",
           "whole lifetimes as sequences (covered inductively: base case + step)"]

QGRID = [0.125, 0.25, 0.5, 0.75, 0.875]
AREAS = [(1.0, 1.0), (1.0, 2.0), (1.0, 4.0)]   # (aspect, height) -> area 1, 4, 16


def _calls(P):
    def make_prediction(vm, cal, args):
        vm.notes['predictions'] = vm.notes.get('predictions', 0) + 1
        return Adt('Universal2DBox', 0, (f32(777.0), f32(float(vm.notes['predictions'])), NONE, f32(1.0), f32(1.0), f32(1.0), NONE))
    return {('VisualAttributes', 'TrackAttributesKalmanPrediction', 'make_prediction'): make_prediction,
            ('SortAttributes', 'TrackAttributesKalmanPrediction', 'make_prediction'): make_prediction,
            ('Self', 'TrackAttributesKalmanPrediction', 'make_prediction'): make_prediction}


def _box(tag, aspect=1.0, height=1.0):
    return Adt('Universal2DBox', 0, (f32(float(tag)), f32(0.0), NONE, f32(aspect), f32(height), f32(1.0), NONE))


def _is_marker(b, tag):
    return isinstance(b, Adt) and b.ty == 'Universal2DBox' and z3.is_true(z3.simplify(fp_plain(b.fields[0]) == f32(float(tag))))


def _voa(P, quality, bbox, own):
    return mk(P, 'VisualObservationAttributes', bbox=bbox, visual_quality=quality, own_area_percentage=own)


def _feat(tag):
    return VecV((Opaque('f32x8', tag),))


def _metric_opts(P, vm, maxobs, kind):
    def fr(n):
        x = vm.fresh('f32', n)
        vm.assume(z3.Not(z3.fpIsNaN(x)))
        return x
    o = dict(visual_max_observations=usize(maxobs), visual_min_votes=vm.fresh(64, 'min_votes'),
             visual_kind=variant(P, 'VisualSortMetricType', 'Euclidean', fr('vthr')),
             positional_kind=variant(P, 'PositionalMetricType', 'IoU', fr('iou_thr')) if kind == 'iou' else variant(P, 'PositionalMetricType', 'Mahalanobis'),
             visual_minimal_track_length=vm.fresh(64, 'min_track_length'), visual_minimal_area=fr('min_area'),
             visual_minimal_quality_use=fr('q_use'), visual_minimal_quality_collect=fr('q_collect'),
             visual_minimal_own_area_percentage_use=fr('own_use'), visual_minimal_own_area_percentage_collect=fr('own_collect'),
             positional_min_confidence=fr('min_conf'))
    return mk(P, 'VisualMetricOptions', **o), o


def _mk_gallery(k, maxobs, is_merge, kind, hist0, H):
    """one VisualMetric::optimize step from an arbitrary valid gallery with k stored observations"""
    def q(vm, P):
        fn = P.impl_methods[('VisualMetric', 'ObservationMetric', 'optimize')][0][0]
        mo, o = _metric_opts(P, vm, maxobs, kind)
        metric = Cell(mk(P, 'VisualMetric', opts=Ref(Cell(mo, 'mopts'))), 'metric')
        # ---- pre-state gallery
        old = []
        for i in range(k):
            qi = grid_f32(vm, 'q%d' % i, QGRID)
            if i == 0:
                has_f = vm.choose_n(2, "previous newest has a feature") == 0
                old.append(dict(q=qi, feat=_feat('old0') if has_f else None, tag='old0',
                                obs=Adt('Observation', 0, (SOME(_voa(P, qi, SOME(_box(100)), NONE)), SOME(_feat('old0')) if has_f else NONE))))
            else:
                old.append(dict(q=qi, feat=_feat('old%d' % i), tag='old%d' % i,
                                obs=Adt('Observation', 0, (SOME(_voa(P, qi, NONE, NONE)), SOME(_feat('old%d' % i))))))
        # ---- the arriving observation
        qn = grid_f32(vm, 'qn', QGRID)
        has_fn = vm.choose_n(2, "new observation has a feature") == 0
        has_own = vm.choose_n(2, "own-area share given") == 0
        own = vm.fresh('f32', 'own_share')
        vm.assume(fp_in(own, 0.0, 1.0))
        ai = vm.choose_n(len(AREAS), "box area")
        nb = _box(200, *AREAS[ai])
        area = f32(AREAS[ai][0] * AREAS[ai][1] * AREAS[ai][1])
        new = Adt('Observation', 0, (SOME(_voa(P, qn, SOME(nb), SOME(own) if has_own else NONE)), SOME(_feat('new')) if has_fn else NONE))
        obs = Cell(VecV(tuple(x['obs'] for x in old) + (new,)), 'observations')
        # ---- attributes with a history
        hb = VecV(tuple(_box(300 + i) for i in range(hist0)), 'VecDeque')
        hp = VecV(tuple(_box(400 + i) for i in range(hist0)), 'VecDeque')
        hf = VecV(tuple(NONE for _ in range(hist0)), 'VecDeque')
        sopts = Cell(sort_options(P, vm, None, usize(5), history_length=usize(H)), 'sopts')
        tl = vm.fresh(64, 'track_length')
        vm.assume(z3.ULT(tl.e, U62))
        attrs = Cell(mk(P, 'VisualAttributes', predicted_boxes=hp, observed_boxes=hb, observed_features=hf, last_updated_epoch=usize(3),
                        track_length=tl, visual_features_collected_count=vm.fresh(64, 'collected0'), scene_id=usize(0), custom_object_id=NONE,
                        voting_type=NONE, state=NONE, opts=Ref(sopts)), 'attrs')
        hist = Cell(VecV(()), 'mh')
        vm.notes.update(k=k, maxobs=maxobs, is_merge=is_merge, kind=kind, hist0=hist0, H=H, has_fn=has_fn, has_own=has_own, area=AREAS[ai],
                        old_has_f=[x['feat'] is not None for x in old])
        r = vm.exec_fn(fn, [Ref(metric), usize(0), Ref(hist), Ref(attrs), Ref(obs), usize(k), BOOL(bool(is_merge))], {})
        vm.check(BOOL(r.variant == 0), "optimize succeeds")
        out = obs.v.items
        A = attrs.v

        def parts(ob):
            at = ob.fields[0]
            return at.fields[0], ob.fields[1]     # attrs (VisualObservationAttributes), feature option
        # ---- 1. bounds
        nfeat = sum(1 for ob in out if ob.fields[1].variant == 1)
        vm.check(BOOL(nfeat <= maxobs), "at most visual_max_observations features are stored")
        vm.check(BOOL(len(out) <= max(maxobs, 1)), "at most visual_max_observations observations are stored")
        # ---- 2. the arriving observation is stored, carries the prediction and is the only one with a box
        #         (WHERE in the vector it sits is an internal convention between Track and the metric, not checked)
        with_box = [k for k, ob in enumerate(out) if fld(P, parts(ob)[0], 'VisualObservationAttributes', 'bbox').variant == 1]
        vm.check(BOOL(len(with_box) == 1), "exactly one stored observation carries a box: the arriving one")
        if len(with_box) != 1:
            return
        new_at = with_box[0]
        a0, f0 = parts(out[new_at])
        vm.check(f_eq(fld(P, a0, 'VisualObservationAttributes', 'visual_quality'), qn), "the observation carrying the box is the arriving one (quality)")
        b0 = fld(P, a0, 'VisualObservationAttributes', 'bbox')
        vm.check(BOOL(b0.variant == 1 and _is_marker(b0.fields[0], 777)), "the arriving observation carries the predicted box")
        own0 = fld(P, a0, 'VisualObservationAttributes', 'own_area_percentage')
        vm.check(BOOL(own0.variant == (1 if has_own else 0)), "own-area share of the arriving observation is kept")
        collectable = z3.And(f_ge(qn, o['visual_minimal_quality_collect']), f_ge(area, o['visual_minimal_area']),
                             f_ge(own, o['visual_minimal_own_area_percentage_collect']) if has_own else z3.BoolVal(True))
        if has_fn:
            keep = z3.Or(BOOL(not is_merge), collectable)
            vm.check(z3.If(keep, BOOL(f0.variant == 1), BOOL(f0.variant == 0)),
                     "the feature of a continuing detection is stored exactly when it meets the collect thresholds (always for the first observation)")
        else:
            vm.check(BOOL(f0.variant == 0), "no feature appears from nowhere")
        # ---- 3./4. old entries: survivors keep quality and feature, lose their box; at most one evicted, of minimal quality
        with_f = [x for x in old if x['feat'] is not None]
        survivors = []
        for k_, ob in enumerate(out):
            if k_ == new_at:
                continue
            a, f = parts(ob)
            vm.check(BOOL(f.variant == 1), "stored old observations all carry features")
            tagv = f.fields[0].items[0].tag if f.variant == 1 else None
            src = [x for x in with_f if x['tag'] == tagv]
            vm.check(BOOL(len(src) == 1 and tagv not in survivors), "every stored feature is one of the previous gallery, once")
            if src:
                survivors.append(tagv)
                vm.check(f_eq(fld(P, a, 'VisualObservationAttributes', 'visual_quality'), src[0]['q']), "a stored feature keeps its quality")
                vm.check(BOOL(fld(P, a, 'VisualObservationAttributes', 'bbox').variant == 0), "old observations do not keep their box")
        evicted = [x for x in with_f if x['tag'] not in survivors]
        if len(with_f) >= maxobs:
            vm.check(BOOL(len(evicted) == 1), "a full gallery evicts exactly one stored feature")
        else:
            vm.check(BOOL(len(evicted) == 0), "nothing is evicted while the gallery has room")
        for e in evicted:
            for x in with_f:
                vm.check(f_le(e['q'], x['q']), "the evicted feature has the lowest quality")
        # ---- 5. reported count
        cnt = fld(P, A, 'VisualAttributes', 'visual_features_collected_count')
        vm.check(cnt.e == nfeat, "visual_features_collected_count = number of features actually stored")
        # ---- 6. histories
        exp_len = hist0 + 1 if (H == 0 or hist0 + 1 <= H) else H
        for name, base, last_ok in (('observed_boxes', 300, lambda b: _is_marker(b, 200)), ('predicted_boxes', 400, lambda b: _is_marker(b, 777))):
            hv = fld(P, A, 'VisualAttributes', name).items
            vm.check(BOOL(len(hv) == exp_len), "history %s holds min(length+1, history_length) entries" % name)
            if len(hv) == exp_len:
                vm.check(BOOL(last_ok(hv[-1])), "the newest entry of %s is last" % name)
                olds = [base + i for i in range(hist0)][hist0 + 1 - exp_len:]
                vm.check(BOOL(all(_is_marker(b, t) for b, t in zip(hv[:-1], olds))), "history %s keeps the most recent entries in arrival order" % name)
        hfv = fld(P, A, 'VisualAttributes', 'observed_features').items
        vm.check(BOOL(len(hfv) == exp_len and hfv[-1].variant == (1 if has_fn else 0)), "feature history follows the same rule")
        vm.check(fld(P, A, 'VisualAttributes', 'track_length').e == tl.e + 1, "track length grows by one per attached detection")
    return q


def _mk_sort_optimize(hist0, H, nobs):
    def q(vm, P):
        fn = P.impl_methods[('SortMetric', 'ObservationMetric', 'optimize')][0][0]
        metric = Cell(mk(P, 'SortMetric', method=variant(P, 'PositionalMetricType', 'Mahalanobis'), min_confidence=f32(0.05)), 'metric')
        hb = VecV(tuple(_box(300 + i) for i in range(hist0)), 'VecDeque')
        hp = VecV(tuple(_box(400 + i) for i in range(hist0)), 'VecDeque')
        sopts = Cell(sort_options(P, vm, None, usize(5), history_length=usize(H)), 'sopts')
        tl = vm.fresh(64, 'track_length')
        vm.assume(z3.ULT(tl.e, U62))
        attrs = Cell(mk(P, 'SortAttributes', predicted_boxes=hp, observed_boxes=hb, last_updated_epoch=usize(3), track_length=tl,
                        scene_id=usize(0), custom_object_id=NONE, state=NONE, opts=Ref(sopts)), 'attrs')
        olds = tuple(Adt('Observation', 0, (SOME(_box(500 + i)), NONE)) for i in range(nobs))
        obs = Cell(VecV(olds + (Adt('Observation', 0, (SOME(_box(200)), NONE)),)), 'observations')
        vm.notes.update(hist0=hist0, H=H, nobs=nobs)
        r = vm.exec_fn(fn, [Ref(metric), usize(0), Ref(Cell(VecV(()))), Ref(attrs), Ref(obs), usize(nobs), BOOL(nobs > 0)], {})
        vm.check(BOOL(r.variant == 0), "optimize succeeds")
        out = obs.v.items
        vm.check(BOOL(len(out) == 1), "SORT keeps exactly one observation per track")
        if len(out) == 1:
            b = out[0].fields[0]
            vm.check(BOOL(b.variant == 1 and _is_marker(b.fields[0], 777)), "the stored observation holds the predicted box")
        A = attrs.v
        exp_len = hist0 + 1 if (H == 0 or hist0 + 1 <= H) else H
        for name, base, last in (('observed_boxes', 300, 200), ('predicted_boxes', 400, 777)):
            hv = fld(P, A, 'SortAttributes', name).items
            vm.check(BOOL(len(hv) == exp_len), "history %s holds min(length+1, history_length) entries" % name)
            if len(hv) == exp_len:
                vm.check(BOOL(_is_marker(hv[-1], last)), "the newest entry of %s is last" % name)
                oldt = [base + i for i in range(hist0)][hist0 + 1 - exp_len:]
                vm.check(BOOL(all(_is_marker(x, t) for x, t in zip(hv[:-1], oldt))), "history %s keeps the most recent entries in arrival order" % name)
        vm.check(fld(P, A, 'SortAttributes', 'track_length').e == tl.e + 1, "track length grows by one per attached detection")
    return q


# ---------------------------------------------------------------- track -> record conversions echo the last entries
def _mk_record(kind, wasted, nhist):
    """From<&Track> for SortTrack / From<Track> for WastedSortTrack (and the VisualSORT twins)"""
    aty = 'SortAttributes' if kind == 'sort' else 'VisualAttributes'
    rty = ('WastedSortTrack' if wasted else 'SortTrack') if kind == 'sort' else ('WastedVisualSortTrack' if wasted else 'SortTrack')

    def q(vm, P):
        cands = [(f, i) for (key, lst) in P.impl_methods.items() for (f, i) in lst
                 if key[0] == rty and key[1] == 'From' and key[2] == 'from' and aty in (i.get('trait_full') or '')]
        vm.check(BOOL(len(cands) >= 1), "conversion %s from a %s track exists" % (rty, aty))
        want_ref = not wasted
        pick = [c for c in cands if ('&' in (c[1].get('trait_full') or '')) == want_ref]
        fn = (pick or cands)[0][0]
        hb = VecV(tuple(_box(300 + i) for i in range(nhist)), 'VecDeque')
        hp = VecV(tuple(_box(400 + i) for i in range(nhist)), 'VecDeque')
        tid, scene, epoch, tl = vm.fresh(64, 'track_id'), vm.fresh(64, 'scene'), vm.fresh(64, 'epoch'), vm.fresh(64, 'length')
        cid = vm.fresh(64, 'custom_id', signed=True)
        has_cid = vm.choose_n(2, "custom id given") == 0
        sopts = Cell(sort_options(P, vm, None, usize(5), history_length=usize(0)), 'sopts')
        common = dict(predicted_boxes=hp, observed_boxes=hb, last_updated_epoch=epoch, track_length=tl, scene_id=scene,
                      custom_object_id=SOME(cid) if has_cid else NONE, state=NONE, opts=Ref(sopts))
        if kind == 'sort':
            attrs = mk(P, 'SortAttributes', **common)
        else:
            vt = vm.choose_n(3, "voting type")
            feats = VecV(tuple(NONE if i % 2 else SOME(_feat('hf%d' % i)) for i in range(nhist)), 'VecDeque')
            attrs = mk(P, 'VisualAttributes', observed_features=feats, visual_features_collected_count=usize(0),
                       voting_type=NONE if vt == 0 else SOME(variant(P, 'VotingType', 'Visual' if vt == 1 else 'Positional')), **common)
        track = mk(P, 'Track', attributes=attrs, track_id=tid, observations=MapV(()), metric=Opaque('M', 'm'), merge_history=VecV((tid,)), notifier=Opaque('N', 'n'))
        vm.notes.update(kind=kind, wasted=wasted, nhist=nhist)
        r = vm.exec_fn(fn, [Ref(Cell(track, 'track')) if want_ref and pick else track], {})
        rt = r.ty
        vm.check(fld(P, r, rt, 'id').e == tid.e, "record carries the track id")
        vm.check(fld(P, r, rt, 'epoch').e == epoch.e, "record carries the epoch of the last update")
        vm.check(fld(P, r, rt, 'scene_id').e == scene.e, "record carries the scene")
        vm.check(fld(P, r, rt, 'length').e == tl.e, "record carries the track length")
        if not wasted:
            c = fld(P, r, rt, 'custom_object_id')
            vm.check(BOOL(c.variant == (1 if has_cid else 0)) if not has_cid else z3.And(BOOL(c.variant == 1), c.fields[0].e == cid.e if c.variant == 1 else z3.BoolVal(False)),
                     "record echoes the custom object id")
        vm.check(BOOL(_is_marker(fld(P, r, rt, 'observed_bbox'), 300 + nhist - 1)), "record echoes the LAST observed box")
        vm.check(BOOL(_is_marker(fld(P, r, rt, 'predicted_bbox'), 400 + nhist - 1)), "record echoes the LAST predicted box")
        if wasted:
            for name, base in (('observed_boxes', 300), ('predicted_boxes', 400)):
                hv = fld(P, r, rt, name).items
                vm.check(BOOL(len(hv) == nhist and all(_is_marker(b, base + i) for i, b in enumerate(hv))),
                         "the handed-out record holds the whole %s history in arrival order" % name)
            if kind == 'visual':
                hv = fld(P, r, rt, 'observed_features').items
                vm.check(BOOL(len(hv) == nhist and all(x.variant == (0 if i % 2 else 1) for i, x in enumerate(hv))), "the handed-out record holds the whole feature history")
        if kind == 'visual' and not wasted:
            v = fld(P, r, rt, 'voting_type')
            want = 'Visual' if vt == 1 else 'Positional'
            vm.check(BOOL(is_variant(P, v, 'VotingType', want)), "record reports the voting type of the last attachment (Positional when none)")
    return q


# ---------------------------------------------------------------- native replay: lifetimes driven through the real code
# The queries start from an ARBITRARY valid gallery / history (inductive step), so a counterexample is a pre-state, not a
# history. The native replay drives the real VisualMetric::optimize / Sort / VisualSort through deterministic pseudo-random
# lifetimes for the option values of the counterexample (and neighbours) and checks the same invariant after every step.
LIFETIME_REPLAY = r'''
use similari::track::{Observation, ObservationMetric};
use similari::trackers::sort::simple_api::Sort;
use similari::trackers::sort::{PositionalMetricType, SortAttributesOptions};
use similari::trackers::spatio_temporal_constraints::SpatioTemporalConstraints;
use similari::trackers::tracker_api::TrackerAPI;
use similari::trackers::visual_sort::metric::builder::VisualMetricBuilder;
use similari::trackers::visual_sort::metric::VisualSortMetricType;
use similari::trackers::visual_sort::observation_attributes::VisualObservationAttributes;
use similari::trackers::visual_sort::options::VisualSortOptions;
use similari::trackers::visual_sort::simple_api::VisualSort;
use similari::trackers::visual_sort::track_attributes::VisualAttributes;
use similari::trackers::visual_sort::{VisualSortObservation, WastedVisualSortTrack};
use similari::trackers::sort::WastedSortTrack;
use similari::utils::bbox::{BoundingBox, Universal2DBox};
use std::sync::Arc;

const Q: [f32; 5] = [0.125, 0.25, 0.5, 0.75, 0.875];

fn gallery_lifetime(maxobs: usize, min_len: usize, history: usize, iou: bool, collect_q: f32, seed: u64, steps: usize) {
    let mut metric = VisualMetricBuilder::default()
        .positional_metric(if iou { PositionalMetricType::IoU(0.3) } else { PositionalMetricType::Mahalanobis })
        .visual_metric(VisualSortMetricType::Euclidean(f32::MAX))
        .visual_max_observations(maxobs).visual_minimal_track_length(min_len)
        .visual_minimal_quality_collect(collect_q).visual_minimal_quality_use(0.0).visual_minimal_area(1.0).visual_minimal_own_area_percentage_collect(0.5)
        .build();
    let mut attrs = VisualAttributes::new(Arc::new(SortAttributesOptions::new(None, 0, history, SpatioTemporalConstraints::default(), 1.0 / 20.0, 1.0 / 160.0)));
    let mut obs: Vec<Observation<VisualObservationAttributes>> = vec![];
    let mut model: Vec<(f32, u64)> = vec![];   // stored features: (quality, arrival number), excluding index 0
    let mut newest: Option<(f32, u64, bool)> = None;
    let mut rng = seed.wrapping_mul(6364136223846793005).wrapping_add(1442695040888963407);
    let ctx = format!("max {} min_len {} history {} iou {} collect {} seed {}", maxobs, min_len, history, iou, collect_q, seed);
    for step in 0..steps as u64 {
        rng = rng.wrapping_mul(6364136223846793005).wrapping_add(1442695040888963407);
        let q = Q[((rng >> 33) %% 5) as usize];
        let has_f = (rng >> 40) %% 4 != 0;
        let small = (rng >> 44) %% 5 == 0;   // box below the minimal area
        let own = match (rng >> 48) %% 3 { 0 => None, 1 => Some(0.9f32), _ => Some(0.0f32) };
        let bbox: Universal2DBox = if small { BoundingBox::new(10.0 * step as f32, 0.0, 0.5, 0.5).into() } else { BoundingBox::new(10.0 * step as f32, 0.0, 5.0, 10.0).into() };
        let a = match own { Some(p) => VisualObservationAttributes::with_own_area_percentage(q, bbox.clone(), p), None => VisualObservationAttributes::new(q, bbox.clone()) };
        obs.push(Observation::new(Some(a), if has_f { Some(<similari::track::Feature as similari::track::utils::FromVec<Vec<f32>, similari::track::Feature>>::from_vec(vec![ultra(step as f32), 1.0])) } else { None }));
        let is_merge = step > 0;
        metric.optimize(0, &[], &mut attrs, &mut obs, 0, is_merge).unwrap();
        // ---- reference model
        if let Some((pq, pn, pf)) = newest { if pf { model.push((pq, pn)); } }
        let had = model.len();
        if had >= maxobs {
            let minq = model.iter().map(|m| m.0).fold(f32::MAX, f32::min);
            let pos = model.iter().position(|m| m.0 == minq).unwrap();
            // any entry of minimal quality may go: compare as multisets of qualities below
            model.remove(pos);
        }
        let collectable = q >= collect_q && !small && own.map(|p| p >= 0.5).unwrap_or(true);
        let stored_f = has_f && (!is_merge || collectable);
        newest = Some((q, step, stored_f));
        // ---- checks
        let feats = obs.iter().filter(|o| o.feature().is_some()).count();
        assert!(feats <= maxobs, "at most visual_max_observations features stored: {} ({} step {})", feats, ctx, step);
        assert_eq!(attrs.visual_features_collected_count, feats, "reported count = stored features ({} step {})", ctx, step);
        let boxed: Vec<usize> = (0..obs.len()).filter(|i| obs[*i].attr().as_ref().unwrap().bbox_opt().is_some()).collect();
        assert_eq!(boxed.len(), 1, "exactly one stored observation carries a box: the arriving one ({} step {})", ctx, step);
        let at = boxed[0];
        assert_eq!(obs[at].attr().as_ref().unwrap().visual_quality(), q, "the arriving observation is stored ({} step {})", ctx, step);
        assert_eq!(obs[at].feature().is_some(), stored_f, "feature stored exactly when present and collectable ({} step {})", ctx, step);
        let mut got: Vec<f32> = obs.iter().enumerate().filter(|(i, _)| *i != at).map(|(_, o)| o.attr().as_ref().unwrap().visual_quality()).collect();
        let mut exp: Vec<f32> = model.iter().map(|m| m.0).collect();
        got.sort_by(|a, b| a.partial_cmp(b).unwrap());
        exp.sort_by(|a, b| a.partial_cmp(b).unwrap());
        assert_eq!(got, exp, "stored features = previous gallery minus the lowest-quality entry when full ({} step {})", ctx, step);
        assert!(obs.iter().enumerate().all(|(i, o)| i == at || (o.feature().is_some() && o.attr().as_ref().unwrap().bbox_opt().is_none())), "old entries keep features, drop boxes ({} step {})", ctx, step);
        let n = (step as usize + 1).min(if history == 0 { usize::MAX } else { history });
        assert_eq!((attrs.observed_boxes.len(), attrs.predicted_boxes.len(), attrs.observed_features.len()), (n, n, n), "history lengths ({} step {})", ctx, step);
        assert_eq!(attrs.track_length, step as usize + 1);
        assert_eq!(attrs.observed_boxes.back().unwrap().xc, bbox.xc, "last history entry = newest box");
        if n >= 2 { assert!(attrs.observed_boxes[n - 2].xc < attrs.observed_boxes[n - 1].xc, "arrival order"); }
    }
}
fn ultra(x: f32) -> f32 { x }

fn sort_lifetime(history: usize, life: usize) {
    let mut t = Sort::new(1, history, 1, PositionalMetricType::IoU(0.3), 0.0, None, 1.0 / 20.0, 1.0 / 160.0);
    let mut last = None;
    for k in 0..life {
        let b: Universal2DBox = BoundingBox::new(k as f32 * 0.1, 0.0, 10.0, 20.0).into();
        let r = t.predict(&[(b.clone(), Some(k as i64))]);
        assert_eq!(r.len(), 1);
        assert_eq!(r[0].length, k + 1, "track length = detections attached (history {} life {})", history, life);
        assert!((r[0].observed_bbox.xc - b.xc).abs() < 1e-6, "record echoes the observed box");
        last = Some((r[0].id, b));
    }
    t.skip_epochs(5);
    let w = t.wasted();
    assert_eq!(w.len(), 1);
    let rec = WastedSortTrack::from(w.into_iter().next().unwrap());   // moved, not cloned: a clone would re-linearise the ring buffer
    let n = life.min(history);
    assert_eq!((rec.observed_boxes.len(), rec.predicted_boxes.len()), (n, n), "handed-out record holds min(life, history) entries (history {} life {})", history, life);
    assert!((rec.observed_boxes.last().unwrap().xc - last.as_ref().unwrap().1.xc).abs() < 1e-6, "last history entry = last observed box (history {} life {})", history, life);
    assert!((rec.observed_bbox.xc - last.as_ref().unwrap().1.xc).abs() < 1e-6, "echoed box = last observed box");
    for w2 in rec.observed_boxes.windows(2) { assert!(w2[0].xc < w2[1].xc, "arrival order (history {} life {})", history, life); }
    assert_eq!(rec.length, life);
}

fn visual_lifetime(history: usize, life: usize) {
    let opts = VisualSortOptions::default().max_idle_epochs(1).kept_history_length(history).visual_max_observations(3)
        .positional_metric(PositionalMetricType::IoU(0.3)).visual_metric(VisualSortMetricType::Euclidean(f32::MAX));
    let mut t = VisualSort::new(1, &opts);
    let mut lastx = 0.0;
    for k in 0..life {
        let b = BoundingBox::new(k as f32 * 0.1, 0.0, 10.0, 20.0).as_xyaah();
        let feat = vec![1.0f32, k as f32];
        let r = t.predict(&[VisualSortObservation::new(if k %% 2 == 0 { Some(&feat[..]) } else { None }, Some(0.9), b.clone(), Some(k as i64))]);
        assert_eq!(r.len(), 1);
        assert_eq!(r[0].length, k + 1, "track length (history {} life {})", history, life);
        lastx = b.xc;
    }
    t.skip_epochs(5);
    let w = t.wasted();
    assert_eq!(w.len(), 1);
    let rec = WastedVisualSortTrack::from(w.into_iter().next().unwrap());
    let n = life.min(history);
    assert_eq!((rec.observed_boxes.len(), rec.predicted_boxes.len(), rec.observed_features.len()), (n, n, n), "handed-out record holds min(life, history) entries (history {} life {})", history, life);
    assert!((rec.observed_boxes.last().unwrap().xc - lastx).abs() < 1e-6, "last history entry = last observed box (history {} life {})", history, life);
    assert_eq!(rec.observed_features.last().unwrap().is_some(), (life - 1) %% 2 == 0, "last feature entry = last detection's feature");
    for w2 in rec.observed_boxes.windows(2) { assert!(w2[0].xc < w2[1].xc, "arrival order"); }
}

#[test]
fn replay() {
    for seed in 0..4u64 { for maxobs in 1..=4usize { for min_len in 1..=maxobs { for history in [1usize, 2, 3, 5] {
        gallery_lifetime(maxobs, min_len, history, seed %% 2 == 0, if seed < 2 { 0.3 } else { 0.0 }, seed + 10 * maxobs as u64, 40);
    } } } }
    for history in 1..=5usize { for life in 1..=12usize { sort_lifetime(history, life); visual_lifetime(history, life); } }
}
'''.replace("%%", "%")


def _replay_lifetime(cex, v, vm):
    return LIFETIME_REPLAY


VM_ = "similari::trackers::visual_sort::metric::VisualMetric::"
MIR = []
for (k, maxobs, tier) in [(0, 1, 'quick'), (1, 1, 'quick'), (1, 2, 'quick'), (2, 2, 'quick'), (2, 3, 'quick'), (3, 3, 'thorough')]:
    for is_merge in ((0,) if k == 0 else (1,)):
        kind = 'iou' if (k + maxobs) % 2 else 'maha'
        hist0, H = (k, maxobs) if k <= maxobs else (k, 0)
        MIR.append(MQ("c13_gallery_k%d_max%d" % (k, maxobs), tier, _mk_gallery(k, maxobs, is_merge, kind, min(hist0, 3), H),
                      "one optimize step keeps the gallery invariant: <= max features, newest first, minimal-quality eviction, collect thresholds, truthful count, histories",
                      "%d stored observations, visual_max_observations %d, %s, history %d/%d" % (k, maxobs, "merge" if is_merge else "first observation", hist0, H),
                      [VM_ + "optimize", VM_ + "optimize_observations", VM_ + "feature_can_be_used",
                       "similari::trackers::visual_sort::track_attributes::VisualAttributes::update_history"], spec_calls=_calls, replay=_replay_lifetime))
for (h0, H, nobs, tier) in [(0, 1, 0, 'quick'), (1, 1, 1, 'quick'), (2, 3, 1, 'quick'), (3, 3, 1, 'quick'), (2, 0, 1, 'quick')]:
    MIR.append(MQ("c13_sort_optimize_h%d_H%d" % (h0, H), tier, _mk_sort_optimize(h0, H, nobs),
                  "SortMetric::optimize: one stored observation holding the prediction; histories = most recent min(len, H) entries in order; length + 1",
                  "%d history entries, history_length %d (0 = unbounded)" % (h0, H),
                  ["similari::trackers::sort::metric::SortMetric::optimize", "similari::trackers::sort::SortAttributes::update_history"], spec_calls=_calls, replay=_replay_lifetime))
for kind in ('sort', 'visual'):
    for wasted in (False, True):
        for nh in (1, 3):
            MIR.append(MQ("c13_record_%s_%s_h%d" % (kind, 'wasted' if wasted else 'live', nh), 'quick', _mk_record(kind, wasted, nh),
                          "track -> record conversion echoes id/epoch/scene/length/custom id and the LAST boxes; handed-out records hold the whole history",
                          "%d history entries, symbolic ids / epoch / scene / length" % nh,
                          ["similari::trackers::%s::From<Track> for %s" % ('sort' if kind == 'sort' else 'visual_sort', 'record')], replay=_replay_lifetime))


# one whole VisualSort predict call from an arbitrary valid tracker state, see props/stepvisual.py
import stepvisual as _stepv
MIR += [q for q in _stepv.MIR if q.name in ('step_visual_d1_t1_lite', 'step_visual_d1_t1')]
EXPLANATION += ' A whole VisualSort::predict_with_scene call is also executed from MIR on a symbolic tracker state (props/stepvisual.py: store model with the real worker loop, real builders / Track::add_observation / merge / VisualMetric::{metric, optimize} / VisualVoting / BestFitVoting / SortVoting code; geometry numbers, feature distances, feature packing and Kalman prediction uninterpreted): the decision expected from the symbolic inputs by the rules of the property is compared with the records.'
ASSUMPTIONS += ['VisualSort predict step: <= 1 detection x <= 1 stored track in the quick tier (thorough 2x1, 1x2), 1-2 stored observations with / without features, previous voting type any; IoU + Euclidean mode; thresholds, confidences, qualities, IoU values and feature distances from small exact grids (quick: a reduced option grid); own-area thresholds 0 (shares not computed); candidate ids random, assumed distinct; fresh Kalman filter round trip exact; workers run when the caller blocks; HashMap iteration in insertion order']
