"""C05 - independence of shard count and worker schedule (engine M), at the granularity this family can reach: store commands
are atomic steps (shard mutex), a worker may run right after a command is queued or when the caller blocks, pending workers are
served in every order. Real OS threads are outside."""
import z3
from mir_engine import MQ
from mirlib import *
import stepsort as _step
import C10 as _c10
import C09 as _c09
import C17 as _c17

EXPLANATION = ("Bounded symbolic execution of the MIR with z3. (1) A whole Sort::predict_with_scene call on a tracker with TWO shards is "
               "executed under EVERY command-granularity schedule of the shard workers and checked against an oracle that mentions "
               "neither shards nor schedules (records, continuations = maximum-weight one-to-one assignment over the gated pairs, new "
               "ids from the counter, state after the call): the same inputs give the same records for 1 and 2 shards and every such "
               "schedule, and - the optimum being unique when there are no exact ties - identical track ids. (2) The distance queries "
               "(foreign and owned) return the reference multiset computed from the store content for 1 and 2 shards and every such "
               "schedule, through all() and through the streaming iterator. (3) A track lives in shard id % shards, every operation "
               "addresses that shard. (4) The voting engines give the same result for every HashMap iteration order (the order in "
               "which partial results arrive is immaterial).")
ASSUMPTIONS = ["schedules at COMMAND granularity: each queued command is handled atomically by its shard's worker (the shard mutex makes it so); a worker may run right after a command "
               "is queued or when the caller blocks on a result; pending workers in every order; 1 and 2 shards (3 shards: C09 thorough)",
               "the bounds of the cross-listed obligations (predict step: 1 detection x 2 stored tracks, reduced option grid; C10: <= 2 candidates, <= 3 stored tracks; C17: <= 2 x 2, 2 results)"]
OUTSIDE = ["real OS threads: preemption inside a command, memory-ordering effects, thread start-up / shutdown, more than 2 (3) shards, shard counts up to 8",
           "whole histories (one call / one query from an arbitrary valid state is decided; histories compose from it)", "exact ties (the property excludes them)"]

MIR = [q for q in _step.MIR if q.name in ('step_sort_d1_t2_s2_sched', 'step_sort_d2_t1_s2_sched', 'step_sort_d2_t1_s2', 'step_sort_d1_t2_s1')]
MIR += [q for q in _c10.MIR if '_s2_' in q.name or q.name in ('c10_foreign_s1_c1_t2_o1', 'c10_owned_s1_c2_t2_o1')]
MIR += [q for q in _c09.MIR if q.name.startswith('c09_sharding_') or q.name in ('c09_add_track_2_2', 'c09_fetch_2_2', 'c09_lookup_2_2', 'c09_find_usable_2_2', 'c09_add_track_3_2', 'c09_fetch_3_2')]
MIR += [q for q in _c17.MIR if q.name in ('c17_topn_q2_t2_r2', 'c17_bestfit_q2_t2_r2', 'c02_assign_c2_t2_r2')]
