"""Symbolic TrackStore states for mirsym specs (C09, C10, C11 store level): shards are finite maps, the worker
threads are modelled by executing the real `handle_store_ops` MIR on the shard's command queue at scheduling points."""
import z3
from values import *
from vm import Unmodelled
from models import OK, ERR, NONE, SOME, BOOL
from mirlib import *
from envlib import *

STORE_ENV = {}


def sender(q):
    return Adt('Sender', 0, (Ref(q),))


def receiver(q):
    return Adt('Receiver', 0, (Ref(q),))


class Store:
    """builds a TrackStore value with `nshards` shards holding the given tracks (placed by id % nshards, decided by z3)"""

    def __init__(self, P, vm, nshards, tracks, tag='st', defaults=None, env=None):
        """defaults: (default_attributes, metric, notifier) values for a store of concrete types; env: generic binding
        (TA/M/OA/N -> concrete types) under which the worker loop is executed"""
        self.P, self.vm, self.n = P, vm, nshards
        self.env = env if env is not None else STORE_ENV
        shards = [[] for _ in range(nshards)]
        self.placement = []
        for t in tracks:
            tid = fld(P, t, 'Track', 'track_id')
            k = vm.choose([z3.URem(tid.e, z3.BitVecVal(nshards, 64)) == s for s in range(nshards)], "shard of track")
            shards[k].append((tid, t))
            self.placement.append(k)
        self.shards_cell = Cell(VecV(tuple(MapV(tuple(s)) for s in shards)), tag + '_shards')
        self.queues = [Cell(VecV((), 'queue'), '%s_cmdq%d' % (tag, i)) for i in range(nshards)]
        execs = VecV(tuple((sender(q), Opaque('JoinHandle', '%s_jh%d' % (tag, i))) for i, q in enumerate(self.queues)))
        da, me, no = defaults if defaults is not None else (Opaque('TA', tag + '_default'), Opaque('M', tag + '_metric'), Opaque('N', tag + '_notifier'))
        self.value = mk(P, 'TrackStore', default_attributes=da, metric=me, notifier=no, num_shards=usize(nshards), stores=Ref(self.shards_cell),
                        executors=execs)
        self.cell = Cell(self.value, tag)
        self.worker_fn = P.impl_methods[('TrackStore', None, 'handle_store_ops')][0][0]

    def ref(self):
        return Ref(self.cell)

    def shard(self, i):
        return self.shards_cell.v.items[i]

    def all_tracks(self):
        out = []
        for m in self.shards_cell.v.items:
            out.extend(m.items)
        return out

    def run_worker(self, i):
        """the shard's worker thread handles every queued command (each under the shard mutex = atomically)"""
        if not self.queues[i].v.items:
            return
        self.vm.exec_fn(self.worker_fn, [Ref(self.shards_cell), usize(i), receiver(self.queues[i])], self.env)

    def pending(self, i):
        return len(self.queues[i].v.items)


class EagerSched:
    """workers run when the caller blocks on a result (one fixed schedule; C10 explores others)"""

    def __init__(self, store):
        self.store = store
        self.active = False

    def on_send(self, vm, qcell):
        pass

    def on_block(self, vm, qcell):
        if self.active or any(qcell is q for q in self.store.queues):
            return  # a worker polling its own empty command queue: it yields
        self.active = True
        try:
            for i in range(self.store.n):
                self.store.run_worker(i)
        finally:
            self.active = False


def sym_track(P, vm, tag, classes=(0,), nobs=1, hist=None):
    tid = vm.fresh(64, tag + '_id')
    obs = MapV(tuple((usize(c), VecV(tuple(Adt('Observation', 0, (SOME(Opaque('OA', '%s-c%d-o%d' % (tag, c, j))), NONE))
                                          for j in range(nobs)))) for c in classes))
    t = mk(P, 'Track', attributes=Opaque('TA', tag), track_id=tid, observations=obs, metric=Opaque('M', tag),
           merge_history=VecV(tuple(hist if hist is not None else [tid])), notifier=Opaque('N', tag))
    return tid, t


def distinct(vm, ids):
    for i in range(len(ids)):
        for j in range(i):
            vm.assume(ids[i].e != ids[j].e)
