"""Environment callbacks for generic code (Track<TA,M,OA,N>, TrackStore<..>): every call on an unresolved trait
method of a generic parameter is an *environment call*: logged, returns an arbitrary Ok/Err (the fault-position
variable), havocs what it holds by &mut. A result proved this way holds for every implementation of the traits."""
import z3
from values import *
from vm import Unmodelled
from models import OK, ERR, NONE, SOME, BOOL


def struct_eq(a, b):
    """z3 Bool: the two VM values are the same term (Opaque leaves by identity)"""
    if isinstance(a, I) and isinstance(b, I):
        return a.e == b.e
    if isinstance(a, FSet) or isinstance(b, FSet):
        a, b = fp_plain(a), fp_plain(b)
    if z3.is_expr(a) and z3.is_expr(b):
        if z3.is_fp(a):
            return z3.Or(z3.fpEQ(a, b), z3.And(z3.fpIsNaN(a), z3.fpIsNaN(b))) if False else (z3.fpToIEEEBV(a) == z3.fpToIEEEBV(b))
        return a == b
    if isinstance(a, Adt) and isinstance(b, Adt):
        if a.ty != b.ty or a.variant != b.variant or len(a.fields) != len(b.fields):
            return z3.BoolVal(False)
        return z3.And([struct_eq(x, y) for x, y in zip(a.fields, b.fields)] + [z3.BoolVal(True)])
    if isinstance(a, tuple) and isinstance(b, tuple):
        if len(a) != len(b):
            return z3.BoolVal(False)
        return z3.And([struct_eq(x, y) for x, y in zip(a, b)] + [z3.BoolVal(True)])
    if isinstance(a, VecV) and isinstance(b, VecV):
        if len(a.items) != len(b.items):
            return z3.BoolVal(False)
        return z3.And([struct_eq(x, y) for x, y in zip(a.items, b.items)] + [z3.BoolVal(True)])
    if isinstance(a, MapV) and isinstance(b, MapV):
        # same key set (keys are compared syntactically after matching by z3 equality is overkill here: specs use
        # concrete or pairwise-distinct keys) - match entries by key term
        if len(a.items) != len(b.items):
            return z3.BoolVal(False)
        conj = []
        for (ka, va) in a.items:
            found = None
            for (kb, vb) in b.items:
                if ka is kb or (isinstance(ka, I) and isinstance(kb, I) and z3.is_true(z3.simplify(ka.e == kb.e))):
                    found = vb
            if found is None:
                return z3.BoolVal(False)
            conj.append(struct_eq(va, found))
        return z3.And(conj + [z3.BoolVal(True)])
    if isinstance(a, Opaque) and isinstance(b, Opaque):
        return z3.BoolVal(a == b)
    if isinstance(a, Ref) and isinstance(b, Ref):
        return z3.BoolVal(a.cell is b.cell and a.path == b.path)
    if isinstance(a, str) and isinstance(b, str):
        return z3.BoolVal(a == b)
    if type(a) != type(b):
        return z3.BoolVal(False)
    return z3.BoolVal(a == b)


def digest(*vals):
    import hashlib
    return hashlib.md5(repr(vals).encode()).hexdigest()[:10]


def deep(vm, v, depth=0):
    """follow references (also inside aggregates) so that a digest covers what the callee can read"""
    if depth > 8:
        return v
    if isinstance(v, Ref):
        return ('&', deep(vm, vm.deref(v), depth + 1))
    if isinstance(v, Adt):
        return Adt(v.ty, v.variant, tuple(deep(vm, f, depth + 1) for f in v.fields))
    if isinstance(v, tuple):
        return tuple(deep(vm, f, depth + 1) for f in v)
    if isinstance(v, VecV):
        return VecV(tuple(deep(vm, f, depth + 1) for f in v.items), v.kind)
    return v


class Env:
    """per-path environment: event log + callbacks that are arbitrary but *functional*: the outcome (Ok/Err) and the
    havoc values of a call are an uninterpreted function of everything the callee can read, so two executions that
    make the same call observe the same behaviour (needed to compare an implementation with a reference run)."""

    def __init__(self, vm):
        self.vm = vm
        self.events = []     # (kind, detail...)
        self.ncalls = 0
        self.outcomes = {}

    def fork(self):
        """fresh log, same callback behaviour (for a second, reference execution on the same path)"""
        e = Env(self.vm)
        e.outcomes = self.outcomes
        return e

    def log(self, *e):
        self.events.append(e)
        self.vm.log.append(e)

    def count(self, kind):
        return sum(1 for e in self.events if e[0] == kind)

    def kinds(self):
        return [e[0] if e[0] not in ('ok', 'fail') else e[0] + ':' + e[1] for e in self.events]

    def havoc(self, ref, ty, dg):
        v = self.vm.deref(ref)
        if isinstance(v, VecV):
            self.vm.store(ref, VecV((Opaque('havoc-elem', dg),), v.kind))
        else:
            self.vm.store(ref, Opaque(ty, dg))

    def result(self, what, dg):
        """arbitrary Result<(), anyhow::Error>, functional in the call's inputs"""
        self.ncalls += 1
        if dg in self.outcomes:
            k = self.outcomes[dg]
        else:
            k = self.vm.choose_n(2, what)
            self.outcomes[dg] = k
        if k == 0:
            self.log('ok', what)
            return OK(())
        self.log('fail', what)
        return ERR(Opaque('anyhow::Error', what))


def track_callbacks(P):
    """spec_calls for Track<TA,M,OA,N> generic code"""
    def env(vm):
        e = vm.notes.get('env')
        if e is None:
            e = Env(vm)
            vm.notes['env'] = e
        return e

    def apply(vm, cal, args):
        e = env(vm)
        dg = digest('apply', deep(vm, args[0]), deep(vm, args[1]))
        e.havoc(args[1], 'TA', 'apply:' + dg)
        return e.result('apply', dg)

    def ta_merge(vm, cal, args):
        e = env(vm)
        dg = digest('attr_merge', deep(vm, args[0]), deep(vm, args[1]))
        e.havoc(args[0], 'TA', 'merge:' + dg)
        return e.result('attr_merge', dg)

    def optimize(vm, cal, args):
        e = env(vm)
        cls = args[1]
        dg = digest('optimize', *[deep(vm, a) for a in args])
        hist = vm.deref(args[2])
        while isinstance(hist, Ref):
            hist = vm.deref(hist)
        e.havoc(args[0], 'M', 'optM:' + dg)
        e.havoc(args[3], 'TA', 'optTA:' + dg)
        e.havoc(args[4], 'obs', 'optObs:' + dg)
        e.log('optimize', cls, tuple(hist.items) if isinstance(hist, VecV) else hist, args[6])
        return e.result('optimize', dg)

    def send(vm, cal, args):
        env(vm).log('send', args[1])
        return ()

    def star(vm, cal, args):
        if cal.trait == 'TrackAttributesUpdate' and cal.method == 'apply':
            return apply(vm, cal, args)
        if cal.trait == 'TrackAttributes' and cal.method == 'merge' and cal.self_base == 'TA':
            return ta_merge(vm, cal, args)
        if cal.trait == 'ObservationMetric' and cal.method == 'optimize' and cal.self_base == 'M':
            return optimize(vm, cal, args)
        if cal.trait == 'ChangeNotifier' and cal.method == 'send':
            return send(vm, cal, args)
        return NotImplemented
    return {'*': star}
