from kani_engine import KH

EXPLANATION = ("Bounded solver-based checking (Kani/CBMC) of the real box code: every harness quantifies over all "
               "values of its symbolic inputs inside the stated bounds; unwinding assertions on; end-of-harness cover "
               "as reachability witness; counterexamples replayed natively (cargo kani playback, dev+release).")
ASSUMPTIONS = ["floats non-NaN and |x| <= 1e4 for equality; exact grid k/4 for conversions, area, radius, vertices",
               "normalize_angle only for |a| <= 1000"]
OUTSIDE = ["polygon vertices for a non-zero angle (sin/cos have no bit-precise semantics in CBMC)",
           "round trip on non-grid floats (thorough tier probes free floats under a time cap)"]
KANI_MODULES = ["c19_bbox"]
F = "similari::utils::bbox::"
KANI = [
    KH("c19_bbox::c19_bbox_eq_tolerance", "quick", 900,
       "BoundingBox == is exactly 'all 5 fields differ by < EPS': reflexive, symmetric",
       "all non-NaN f32 in [-1e4,1e4], confidence in [0,1]", [F + "BoundingBox::eq"]),
    KH("c19_bbox::c19_ubox_eq_tolerance", "quick", 900,
       "Universal2DBox == is exactly 'xc,yc,angle(None=0),aspect,height differ by < EPS': reflexive, symmetric",
       "all non-NaN f32 in [-1e4,1e4], angle Some/None", [F + "Universal2DBox::eq"]),
    KH("c19_bbox::c19_roundtrip_grid", "quick", 900,
       "ltwh -> xyaah -> ltwh returns the box (height/top/confidence exact, width within 2^-22 rel, left within (|l|+w+1)2^-21)",
       "left/top k/4 in [-64,64], width/height k/4 in (0,16]", [F + "Universal2DBox::from(&BoundingBox)", F + "BoundingBox::try_from(&Universal2DBox)"]),
    KH("c19_bbox::c19_area_grid", "quick", 900, "area = aspect*height^2 exactly",
       "height k/4 in (0,16], aspect k/4 in (0,8]", [F + "Universal2DBox::area"]),
    KH("c19_bbox::c19_radius_grid", "thorough", 1500, "radius^2 = (w/2)^2+(h/2)^2 within 2^-21 relative",
       "height k/4 in (0,16], aspect k/4 in (0,8]", [F + "Universal2DBox::get_radius"]),
    KH("c19_bbox::c19_radius_small", "quick", 900, "radius^2 = (w/2)^2+(h/2)^2 within 2^-21 relative",
       "height k/2 in (0,4], aspect k/2 in (0,4]", [F + "Universal2DBox::get_radius"]),
    KH("c19_bbox::c19_vertices_axis_aligned", "quick", 900,
       "polygon of an unrotated box = axis-aligned rectangle (x-+w/2, y+-h/2), clockwise from top-left, closed",
       "xc,yc k/4 in [-64,64], height k/4 in (0,16], aspect k/4 in (0,8]", [F + "Polygon::from(&Universal2DBox)"]),
    KH("c19_bbox::c19_normalize_angle", "quick", 900,
       "normalize_angle(a) in [0,2pi] and congruent to a modulo 2pi within 1e-4 turns",
       "all f32 |a| <= 1000", [F + "normalize_angle"]),
]

KANI.append(KH("c19_bbox::c19_vertices_far_small", "quick", 900,
               "polygon vertices of tiny boxes far from the origin are exact in f64 (centre +- half size not representable in f32)",
               "xc = 8192 + k/4, yc = -4096 + k/4, height m/2048 (m 1..8), aspect 1..4", [F + "Polygon::from(&Universal2DBox)"]))
# engine M: vertex formula for any angle (sin / cos uninterpreted but functional), never a stale cache; gen_vertices regenerates
import C08 as _c08
MIR = [q for q in _c08.MIR if q.name in ('c08_polygon_from', 'c08_gen_vertices')]
EXPLANATION += (" Engine M: Polygon::from(&Universal2DBox) yields the four vertices centre +- the half-size vector rotated by (cos, sin) of the box "
                "angle - bit-equal to an independently written f64 term with sin / cos as uninterpreted functions, so sign / order / "
                "precision changes are caught without reasoning about sin and cos - from the CURRENT fields, never from a cached polygon; "
                "gen_vertices replaces a stale cache.")
ASSUMPTIONS += ["M: free centre, angle None or from {0,.5,1,2.5,-.75,7}, sizes from exact grids; sin / cos uninterpreted"]


# ---- equality as a tolerance relation, also decided by engine M (z3 floats): cheap on the real code (comparisons only) and, unlike
# the Kani harness, it still yields a candidate counterexample on implementations that introduce divisions (relaxed path condition)
import z3
from mir_engine import MQ
from mirlib import *


def _mk_eq(kind):
    def q(vm, P):
        ty = 'BoundingBox' if kind == 'bbox' else 'Universal2DBox'
        fn = P.impl_methods[(ty, 'PartialEq', 'eq')][0][0]
        eps = vm.const_value('EPS', {})

        def fl(n, lo=-1.0e4, hi=1.0e4):
            x = vm.fresh('f32', n)
            vm.assume(fp_in(x, lo, hi))
            return x
        if kind == 'bbox':
            a = [fl('a_left'), fl('a_top'), fl('a_width', 0.01, 1.0e4), fl('a_height', 0.01, 1.0e4), fl('a_conf', 0.0, 1.0)]
            b = [fl('b_left'), fl('b_top'), fl('b_width', 0.01, 1.0e4), fl('b_height', 0.01, 1.0e4), fl('b_conf', 0.0, 1.0)]
            va, vb = Adt('BoundingBox', 0, tuple(a)), Adt('BoundingBox', 0, tuple(b))
            pairs = list(zip(a, b))
        else:
            ha, hb = vm.choose_n(2, "a angle given") == 0, vm.choose_n(2, "b angle given") == 0
            a = [fl('a_xc'), fl('a_yc'), fl('a_angle', -10.0, 10.0), fl('a_aspect', 0.01, 100.0), fl('a_height', 0.01, 1.0e4)]
            b = [fl('b_xc'), fl('b_yc'), fl('b_angle', -10.0, 10.0), fl('b_aspect', 0.01, 100.0), fl('b_height', 0.01, 1.0e4)]
            va = Adt('Universal2DBox', 0, (a[0], a[1], SOME(a[2]) if ha else NONE, a[3], a[4], f32(1.0), NONE))
            vb = Adt('Universal2DBox', 0, (b[0], b[1], SOME(b[2]) if hb else NONE, b[3], b[4], f32(1.0), NONE))
            aa = [a[0], a[1], a[2] if ha else f32(0.0), a[3], a[4]]
            bb = [b[0], b[1], b[2] if hb else f32(0.0), b[3], b[4]]
            pairs = list(zip(aa, bb))
        r = vm.exec_fn(fn, [Ref(Cell(va, 'a')), Ref(Cell(vb, 'b'))], {})
        want = z3.And([z3.fpLT(z3.fpAbs(z3.fpSub(RNE, x, y)), eps) for x, y in pairs])
        vm.check(r == want, "== is exactly 'every coordinate differs by less than EPS' (hence reflexive and symmetric)")
    return q


EQ_REPLAY = r'''
use similari::utils::bbox::{BoundingBox, Universal2DBox};
use similari::EPS;
#[test]
fn replay() {
    // pairs differing in exactly one coordinate by +-delta for deltas across the epsilon boundary, both argument orders,
    // over magnitudes 1e-2 .. 1e3 (the property's own quantifier)
    let deltas = [0.0f32, EPS * 0.25, EPS * 0.5, EPS * 0.75, EPS * 1.5, EPS * 1.9, EPS * 3.0, 1e-3];
    for base in [[0.0f32, 0.0, 1.0, 2.0], [0.0, 0.0, 1000.0, 0.01], [5.0, -3.0, 0.01, 1000.0], [100.0, 50.0, 10.0, 10.0], [0.5, 0.25, 2.0, 0.5]] {
        for field in 0..5usize { for d in deltas { for sign in [1.0f32, -1.0] {
            let a = BoundingBox::new_with_confidence(base[0], base[1], base[2], base[3], 0.5);
            let mut v = [base[0], base[1], base[2], base[3], 0.5];
            v[field] += sign * d;
            let b = BoundingBox::new_with_confidence(v[0], v[1], v[2], v[3], v[4]);
            let diff = [(a.left - b.left).abs(), (a.top - b.top).abs(), (a.width - b.width).abs(), (a.height - b.height).abs(), (a.confidence - b.confidence).abs()];
            let want = diff.iter().all(|x| *x < EPS);
            assert_eq!(a == b, want, "BoundingBox {:?} == {:?}", a, b);
            assert_eq!(b == a, want, "BoundingBox == symmetric {:?} {:?}", a, b);
        } } }
        for field in 0..5usize { for d in deltas { for sign in [1.0f32, -1.0] { for ang in [None, Some(0.3f32)] {
            let a = Universal2DBox::new(base[0], base[1], ang, base[2], base[3]);
            let mut v = [base[0], base[1], ang.unwrap_or(0.0), base[2], base[3]];
            v[field] += sign * d;
            let b = Universal2DBox::new(v[0], v[1], if ang.is_none() && field != 2 { None } else { Some(v[2]) }, v[3], v[4]);
            let diff = [(a.xc - b.xc).abs(), (a.yc - b.yc).abs(), (a.angle.unwrap_or(0.0) - b.angle.unwrap_or(0.0)).abs(), (a.aspect - b.aspect).abs(), (a.height - b.height).abs()];
            let want = diff.iter().all(|x| *x < EPS);
            assert_eq!(a == b, want, "Universal2DBox {:?} == {:?}", a, b);
            assert_eq!(b == a, want, "Universal2DBox == symmetric");
        } } } }
    }
}
'''


def _replay_eq(cex, v, vm):
    return EQ_REPLAY


MIR += [
    MQ("c19_bbox_eq_m", "quick", _mk_eq('bbox'), "BoundingBox == is exactly the EPS-tolerance relation on left / top / width / height / confidence", "free f32 in [-1e4,1e4], sizes in [0.01,1e4]",
       ["similari::utils::bbox::BoundingBox::eq"], replay=_replay_eq),
    MQ("c19_ubox_eq_m", "quick", _mk_eq('ubox'), "Universal2DBox == is exactly the EPS-tolerance relation on xc / yc / angle (None = 0) / aspect / height", "free f32, angle given or not",
       ["similari::utils::bbox::Universal2DBox::eq"], replay=_replay_eq),
]
