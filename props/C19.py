from kani_engine import KH

EXPLANATION = ("Bounded solver-based checking (Kani/CBMC) of the real box code: every harness quantifies over all "
               "values of its symbolic inputs inside the stated bounds; unwinding assertions on; end-of-harness cover "
               "as reachability witness; counterexamples replayed natively (cargo kani playback, dev+release).")
ASSUMPTIONS = ["floats non-NaN and |x| <= 1e4 for equality; exact grid k/4 for conversions, area, radius, vertices",
               "normalize_angle only for |a| <= 1000"]
OUTSIDE = ["polygon vertices for a non-zero angle (sin/cos have no bit-precise semantics in CBMC)",
           "round trip on non-grid floats (thorough tier probes free floats under a time cap)"]
KANI_MODULES = ["c19_bbox"]
F = "similari::utils::bbox::"
KANI = [
    KH("c19_bbox::c19_bbox_eq_tolerance", "quick", 120,
       "BoundingBox == is exactly 'all 5 fields differ by < EPS': reflexive, symmetric",
       "all non-NaN f32 in [-1e4,1e4], confidence in [0,1]", [F + "BoundingBox::eq"]),
    KH("c19_bbox::c19_ubox_eq_tolerance", "quick", 120,
       "Universal2DBox == is exactly 'xc,yc,angle(None=0),aspect,height differ by < EPS': reflexive, symmetric",
       "all non-NaN f32 in [-1e4,1e4], angle Some/None", [F + "Universal2DBox::eq"]),
    KH("c19_bbox::c19_roundtrip_grid", "quick", 300,
       "ltwh -> xyaah -> ltwh returns the box (height/top/confidence exact, width within 2^-22 rel, left within (|l|+w+1)2^-21)",
       "left/top k/4 in [-64,64], width/height k/4 in (0,16]", [F + "Universal2DBox::from(&BoundingBox)", F + "BoundingBox::try_from(&Universal2DBox)"]),
    KH("c19_bbox::c19_area_grid", "quick", 300, "area = aspect*height^2 exactly",
       "height k/4 in (0,16], aspect k/4 in (0,8]", [F + "Universal2DBox::area"]),
    KH("c19_bbox::c19_radius_grid", "thorough", 1500, "radius^2 = (w/2)^2+(h/2)^2 within 2^-21 relative",
       "height k/4 in (0,16], aspect k/4 in (0,8]", [F + "Universal2DBox::get_radius"]),
    KH("c19_bbox::c19_radius_small", "quick", 400, "radius^2 = (w/2)^2+(h/2)^2 within 2^-21 relative",
       "height k/2 in (0,4], aspect k/2 in (0,4]", [F + "Universal2DBox::get_radius"]),
    KH("c19_bbox::c19_vertices_axis_aligned", "quick", 600,
       "polygon of an unrotated box = axis-aligned rectangle (x-+w/2, y+-h/2), clockwise from top-left, closed",
       "xc,yc k/4 in [-64,64], height k/4 in (0,16], aspect k/4 in (0,8]", [F + "Polygon::from(&Universal2DBox)"]),
    KH("c19_bbox::c19_normalize_angle", "quick", 400,
       "normalize_angle(a) in [0,2pi] and congruent to a modulo 2pi within 1e-4 turns",
       "all f32 |a| <= 1000", [F + "normalize_angle"]),
]

KANI.append(KH("c19_bbox::c19_vertices_far_small", "quick", 900,
               "polygon vertices of tiny boxes far from the origin are exact in f64 (centre +- half size not representable in f32)",
               "xc = 8192 + k/4, yc = -4096 + k/4, height m/2048 (m 1..8), aspect 1..4", [F + "Polygon::from(&Universal2DBox)"]))
# engine M: vertex formula for any angle (sin / cos uninterpreted but functional), never a stale cache; gen_vertices regenerates
import C08 as _c08
MIR = [q for q in _c08.MIR if q.name in ('c08_polygon_from', 'c08_gen_vertices')]
EXPLANATION += (" Engine M: Polygon::from(&Universal2DBox) yields the four vertices centre +- the half-size vector rotated by (cos, sin) of the box "
                "angle - bit-equal to an independently written f64 term with sin / cos as uninterpreted functions, so sign / order / "
                "precision changes are caught without reasoning about sin and cos - from the CURRENT fields, never from a cached polygon; "
                "gen_vertices replaces a stale cache.")
ASSUMPTIONS += ["M: free centre, angle None or from {0,.5,1,2.5,-.75,7}, sizes from exact grids; sin / cos uninterpreted"]
