"""C14 - non-maximum suppression keeps a maximal independent set in rank order (engine M)."""
import z3
from mir_engine import MQ
from mirlib import *

EXPLANATION = ("Bounded symbolic execution of the MIR of utils::nms::nms (filter / enumerate / sorted_by / greedy exclusion loops "
               "/ HashSet) on N boxes whose scores, heights (rank when no score), pairwise intersections and areas are exact "
               "grid floats selected by symbolic indices; thresholds are free f32. Universal2DBox::intersection and ::area are "
               "uninterpreted but functional (geometry is C08). The oracle states the property directly: subset of the boxes "
               "passing the score/validity filter, rank order (ties either way), top-ranked kept, no kept box covered above the threshold "
               "by a higher-ranked kept box, every dropped box so covered by a kept higher-ranked box; a second run on the "
               "output returns it unchanged.")
ASSUMPTIONS = ["N <= 3 boxes (quick) / 4 (thorough)", "scores None or from {0.125,0.5,0.875}; heights from {-1,0,1,2,3} (non-positive = invalid box); aspect 1",
               "intersection(i,j) from {0,1,2,4} (symmetric, functional), area(i) from {2,4,8}; nms threshold and score threshold free non-NaN f32",
               "sorted_by is stable (itertools/std contract)"]
OUTSIDE = ["the geometry of intersection/area (C08)", "N > 4", "NaN scores (partial_cmp().unwrap() panics: documented precondition)"]

SCORES = [0.125, 0.5, 0.875]
HEIGHTS = [-1.0, 0.0, 1.0, 2.0, 3.0]
INTER = [0.0, 1.0, 2.0, 4.0]
AREAS = [2.0, 4.0, 8.0]


def _nms_calls(P):
    def idx_of(vm, ref):
        b = vm.deref(ref)
        while isinstance(b, Ref):
            b = vm.deref(b)
        tag = z3_to_np(b.fields[0], F32)
        return int(tag)

    def inter(vm, cal, args):
        i, j = idx_of(vm, args[0]), idx_of(vm, args[1])
        return f_to(vm.notes['inter'][(min(i, j), max(i, j))], F64)

    def area(vm, cal, args):
        return vm.notes['area'][idx_of(vm, args[0])]
    return {('Universal2DBox', None, 'intersection'): inter, ('Universal2DBox', None, 'area'): area}


def _setup(vm, P, n):
    dets = []
    scores, heights = [], []
    for i in range(n):
        has_score = vm.choose_n(2, "score given") == 0
        sc = grid_f32(vm, 'score%d' % i, SCORES) if has_score else None
        h = grid_f32(vm, 'height%d' % i, HEIGHTS)
        box = Adt('Universal2DBox', 0, (f32(float(i)), f32(0.0), NONE, f32(1.0), h, f32(1.0), NONE))
        dets.append((box, SOME(sc) if sc is not None else NONE))
        scores.append(sc)
        heights.append(h)
    inter = {}
    for i in range(n):
        for j in range(i + 1, n):
            inter[(i, j)] = grid_f32(vm, 'inter_%d_%d' % (i, j), INTER)
    area = [grid_f32(vm, 'area%d' % i, AREAS) for i in range(n)]
    for (i, j), x in inter.items():
        vm.assume(z3.And(f_le(x, area[i]), f_le(x, area[j])))     # an intersection is not larger than either box
    vm.notes['inter'] = inter
    vm.notes['area'] = area
    return dets, scores, heights, inter, area


def _mk_nms(n, second_run=False):
    def q(vm, P):
        fn = P.free['nms'][0]
        dets, scores, heights, inter, area = _setup(vm, P, n)
        thr = vm.fresh('f32', 'nms_threshold')
        vm.assume(z3.Not(z3.fpIsNaN(thr)))
        st_given = vm.choose_n(2, "score threshold given") == 0
        sthr = vm.fresh('f32', 'score_threshold')
        vm.assume(z3.Not(z3.fpIsNaN(sthr)))
        inp = Cell(VecV(tuple(dets)), 'detections')
        r = vm.exec_fn(fn, [Ref(inp), thr, SOME(sthr) if st_given else NONE], {})
        vm.notes.update(n=n, st_given=st_given)
        out = []
        for x in r.items:
            vm.check(BOOL(isinstance(x, Ref) and x.cell is inp and len(x.path) == 2 and x.path[1] == 0), "results are references to input boxes")
            out.append(x.path[0][1])
        vm.check(BOOL(len(set(out)) == len(out)), "no box returned twice")
        eff_thr = sthr if st_given else f32(-3.4028234663852886e38)
        fmax = f32(3.4028234663852886e38)

        def passed(i):
            s = scores[i] if scores[i] is not None else fmax
            return vm.branch(z3.And(f_gt(s, eff_thr), f_gt(heights[i], f32(0.0))))

        def rank(i):
            return scores[i] if scores[i] is not None else heights[i]

        def metric_gt(k, b):
            m = f_div(f_to(f_to(inter[(min(k, b), max(k, b))], F64), F32), area[b])
            return vm.branch(f_gt(m, thr))
        P_ = [i for i in range(n) if passed(i)]
        vm.check(BOOL(all(i in P_ for i in out)), "only boxes passing the score filter with positive size are returned")
        for a, b in zip(out, out[1:]):
            vm.check(f_ge(rank(a), rank(b)), "output ordered by decreasing rank")
        # ties in rank: the property does not say how they are ordered, so they are accepted either way:
        #   'strictly higher' is used where something is forbidden, 'higher or equal' where something is required
        def strictly_higher(a, b):
            return vm.branch(f_gt(rank(a), rank(b)))

        def not_lower(a, b):
            return vm.branch(f_ge(rank(a), rank(b)))
        if P_:
            top = [i for i in P_ if all(i == j or strictly_higher(i, j) for j in P_)]
            if len(top) == 1:
                vm.check(BOOL(top[0] in out), "the (unique) top-ranked box is always kept")
        for b in out:
            for k in out:
                if k != b and strictly_higher(k, b):
                    vm.check(BOOL(not metric_gt(k, b)), "no kept box is covered above the threshold by a higher-ranked kept box")
        for b in P_:
            if b not in out:
                vm.check(BOOL(any(k != b and not_lower(k, b) and metric_gt(k, b) for k in out)), "every dropped box is covered above the threshold by a kept box ranked at least as high")
        if second_run:
            dets2 = [dets[i] for i in out]
            inp2 = Cell(VecV(tuple(dets2)), 'detections2')
            r2 = vm.exec_fn(fn, [Ref(inp2), thr, SOME(sthr) if st_given else NONE], {})
            out2 = [x.path[0][1] for x in r2.items]
            vm.check(BOOL(out2 == list(range(len(out)))), "applying NMS to its own output changes nothing")
    return q


def _layout(heights, areas, inter):
    """x positions of top-aligned axis-aligned boxes (width = area/height) realising the pairwise intersection areas of the
    counterexample; exact when a layout exists on the candidate set, else the closest candidate (the replay states the
    oracle on the real geometry of the boxes it builds, so an inexact layout can only fail to reproduce)"""
    n = len(heights)
    w = [areas[i] / heights[i] if heights[i] > 0 else 1.0 for i in range(n)]

    def ox(i, j, xi, xj):
        return max(0.0, min(xi + w[i], xj + w[j]) - max(xi, xj))

    def want(i, j):
        hm = min(heights[i], heights[j])
        return inter[(min(i, j), max(i, j))] / hm if hm > 0 else 0.0
    import itertools
    best = (None, 1e18)

    def err_of(xs):
        return sum(abs(ox(i, j, xs[i], xs[j]) - want(i, j)) for i in range(n) for j in range(i + 1, n) if heights[i] > 0 and heights[j] > 0)

    def rec(order, pos, xs):
        nonlocal best
        if best[1] < 1e-9:
            return
        if pos == n:
            e = err_of(xs)
            if e < best[1]:
                best = ([xs[i] for i in range(n)], e)
            return
        k = order[pos]
        if heights[k] <= 0:
            xs[k] = 1000.0 * (k + 1)
            rec(order, pos + 1, xs)
            return
        cands = {100.0 * (k + 1)}
        for i in order[:pos]:
            if heights[i] <= 0:
                continue
            o = want(i, k)
            cands.update([xs[i] + w[i] - o, xs[i] + o - w[k], xs[i], xs[i] + w[i] - w[k], xs[i] + w[i] + 1.0, xs[i] - w[k] - 1.0])
        for c in sorted(cands):
            xs[k] = c
            rec(order, pos + 1, xs)
    # placement order matters (a box overlapping two others has to be placed before them): try every order
    for order in itertools.permutations(range(n)):
        rec(list(order), 0, {})
    return best[0], w


NMS_REPLAY = r'''
use similari::utils::bbox::Universal2DBox;
use similari::utils::nms::nms;

type Det = (Universal2DBox, Option<f32>);

fn check(dets: &Vec<Det>, thr: f32, sthr: Option<f32>) {
    let out = nms(dets, thr, sthr);
    let idx: Vec<usize> = out.iter().map(|b| dets.iter().position(|d| std::ptr::eq(&d.0, *b)).expect("output is an input box")).collect();
    let st = sthr.unwrap_or(f32::MIN);
    let passed: Vec<usize> = (0..dets.len()).filter(|i| dets[*i].1.unwrap_or(f32::MAX) > st && dets[*i].0.height > 0.0 && dets[*i].0.aspect > 0.0).collect();
    let rank = |i: usize| dets[i].1.unwrap_or(dets[i].0.height);
    // ties in rank are accepted either way: strict where something is forbidden, non-strict where something is required
    let higher = |a: usize, b: usize| rank(a) > rank(b);
    let not_lower = |a: usize, b: usize| rank(a) >= rank(b);
    let cover = |k: usize, b: usize| (Universal2DBox::intersection(&dets[k].0, &dets[b].0) as f32 / dets[b].0.area()) > thr;
    for (n, i) in idx.iter().enumerate() {
        assert!(passed.contains(i), "only boxes passing the score filter with positive size are returned");
        assert!(!idx[..n].contains(i), "no box returned twice");
    }
    for w in idx.windows(2) { assert!(not_lower(w[0], w[1]), "output ordered by decreasing rank"); }
    if let Some(top) = passed.iter().find(|i| passed.iter().all(|j| *j == **i || higher(**i, *j))) {
        assert!(idx.contains(top), "the top-ranked box is always kept");
    }
    for b in &idx { for k in &idx { if k != b && higher(*k, *b) {
        assert!(!cover(*k, *b), "kept box {} is covered above the threshold by the higher-ranked kept box {}", b, k);
    } } }
    for b in &passed { if !idx.contains(b) {
        assert!(idx.iter().any(|k| k != b && not_lower(*k, *b) && cover(*k, *b)), "dropped box {} is not covered above the threshold by any kept box ranked at least as high", b);
    } }
    let dets2: Vec<Det> = idx.iter().map(|i| dets[*i].clone()).collect();
    let out2 = nms(&dets2, thr, sthr);
    assert!(out2.len() == dets2.len() && out2.iter().zip(dets2.iter()).all(|(o, d)| std::ptr::eq(*o, &d.0)), "applying NMS to its own output changes nothing");
}

fn permutations(n: usize) -> Vec<Vec<usize>> {
    if n == 0 { return vec![vec![]]; }
    let mut out = vec![];
    for p in permutations(n - 1) { for pos in 0..n { let mut q = p.clone(); q.insert(pos, n - 1); out.push(q); } }
    out
}

#[test]
fn replay() {
    // boxes realising the rank / area / pairwise-intersection values of the counterexample (top-aligned, axis-aligned)
    let dets: Vec<Det> = vec![%(items)s];
    let thr: f32 = %(thr)s;
    let sthr: Option<f32> = %(sthr)s;
    check(&dets, thr, sthr);
    // the same boxes in every input order
    for p in permutations(dets.len()) {
        let d: Vec<Det> = p.iter().map(|i| dets[*i].clone()).collect();
        check(&d, thr, sthr);
    }
    // a catalogue of axis-aligned scenes around it: every triple of boxes (large / small, nested, chained, duplicated),
    // every assignment of three distinct scores or no scores, thresholds on both sides of typical coverages
    let cat: Vec<Universal2DBox> = vec![(0.0, 0.0, 4.0, 4.0), (1.0, 1.0, 2.0, 2.0), (3.0, 0.0, 4.0, 4.0), (0.0, 0.0, 16.0, 8.0), (2.0, 2.0, 1.0, 1.0),
                                        (0.0, 0.0, 4.0, 4.0), (6.0, 0.0, 2.0, 8.0), (0.0, 3.0, 12.0, 2.0), (40.0, 40.0, 3.0, 3.0)]
        .into_iter().map(|(l, t, w, h): (f32, f32, f32, f32)| Universal2DBox::ltwh(l, t, w, h)).collect();
    let score_sets: [[Option<f32>; 3]; 5] = [[Some(0.9), Some(0.6), Some(0.3)], [Some(0.3), Some(0.9), Some(0.6)], [Some(0.6), Some(0.3), Some(0.9)], [None, None, None], [Some(0.5), None, Some(0.5)]];
    for i in 0..cat.len() { for j in 0..cat.len() { for k in 0..cat.len() {
        if i == j || j == k || i == k { continue; }
        for sc in &score_sets { for t in [thr, 0.1, 0.3, 0.6] {
            let d: Vec<Det> = vec![(cat[i].clone(), sc[0]), (cat[j].clone(), sc[1]), (cat[k].clone(), sc[2])];
            check(&d, t, None);
        } }
    } } }
}
'''


def _replay(cex, v, vm):
    n = vm.notes['n']
    heights, scores, areas = [], [], []
    for i in range(n):
        try:
            scores.append(grid_value(cex, vm, 'score%d' % i))
        except KeyError:
            scores.append(None)
        heights.append(grid_value(cex, vm, 'height%d' % i))
        areas.append(grid_value(cex, vm, 'area%d' % i))
    inter = {(i, j): grid_value(cex, vm, 'inter_%d_%d' % (i, j)) for i in range(n) for j in range(i + 1, n)}
    xs, w = _layout(heights, areas, inter)
    items = []
    for i in range(n):
        h = heights[i]
        sc = "Some(%rf32)" % scores[i] if scores[i] is not None else "None"
        if h > 0:
            items.append("(Universal2DBox::new(%rf32, %rf32, None, %rf32, %rf32), %s)" % (xs[i] + w[i] / 2.0, h / 2.0, w[i] / h, h, sc))
        else:
            items.append("(Universal2DBox::new(%rf32, 0.0, None, 1.0, %rf32), %s)" % (xs[i], h, sc))
    return NMS_REPLAY % dict(items=", ".join(items), thr=rust_f32(cex_get(cex, 'nms_threshold')),
                             sthr="Some(%s)" % rust_f32(cex_get(cex, 'score_threshold')) if vm.notes['st_given'] else "None")


# the geometry NMS relies on: the cheap pre-filter must not zero the coverage of overlapping boxes (harness shared with C08)
from kani_engine import KH
KANI_MODULES = ["c08_geometry"]
KANI = [KH("c08_geometry::c08_too_far_sound_grid", "quick", 1800,
           "too_far never rejects overlapping axis-aligned boxes (a rejected pair would count as coverage 0 and survive suppression)",
           "left/top k/4 in [-4,4], width/height k/2 in (0,4], exact aspects", ["similari::utils::bbox::Universal2DBox::too_far"])]

N = "similari::utils::nms::nms"
MIR = [
    MQ("c14_nms_1", "quick", _mk_nms(1), "nms on 1 box: filter and identity", "1 box", [N], spec_calls=_nms_calls, replay=_replay),
    MQ("c14_nms_2", "quick", _mk_nms(2, True), "nms = maximal independent set in rank order; idempotent", "2 boxes", [N], spec_calls=_nms_calls, replay=_replay),
    MQ("c14_nms_3", "quick", _mk_nms(3), "nms = maximal independent set in rank order", "3 boxes", [N], spec_calls=_nms_calls, replay=_replay, max_paths=400000, timeout=1500),
    MQ("c14_nms_3_idem", "thorough", _mk_nms(3, True), "nms = maximal independent set in rank order; idempotent", "3 boxes, second run on the output",
       [N], spec_calls=_nms_calls, replay=_replay, max_paths=800000, timeout=3300),
    MQ("c14_nms_4", "thorough", _mk_nms(4), "nms = maximal independent set in rank order", "4 boxes", [N], spec_calls=_nms_calls, replay=_replay,
       max_paths=3000000, timeout=3400),
]


# the intersection NMS measures coverage with: structure of the rotated-box pipeline (same obligation as C08)
import C08 as _c08
MIR += [q for q in _c08.MIR if q.name in ('c08_ubox_intersection',)]
