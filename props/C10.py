"""C10 - distance queries are exact and schedule independent (engine M).
Schedules are explored at command granularity: every time the caller queues a command for a shard worker the
scheduler may run that worker at once or later (a symbolic yield point), and when the caller blocks on a result the
remaining workers run in every order."""
import itertools
import z3
from mir_engine import MQ
from mirlib import *
from envlib import *
from storelib import *
import replaylib as c11

EXPLANATION = ("Bounded symbolic execution of the generic MIR of Track::distances, of the worker's Distances handler, of "
               "TrackStore::{foreign_track_distances, owned_track_distances} and of the TrackDistanceOk/Err response objects. "
               "compatible()/baked()/metric() are arbitrary functional callbacks; ids are symbolic; the worker threads are the "
               "real handle_store_ops MIR run at symbolic yield points (after any send of a command, and in every order when "
               "the caller blocks). Oracle: the multiset of Ok results and the number of errors equal the reference obtained by "
               "running Track::distances for every (candidate, other stored track) pair on the store content at call time, for "
               "every explored schedule, and the store is unchanged afterwards.")
ASSUMPTIONS = ["<= 2 shards, <= 2 candidates, <= 3 stored tracks, <= 2 observations per track and class, one feature class queried",
               "each command is handled atomically (shard mutex); no preemption inside a command",
               "postprocess_distances is the trait's default (identity)", "callbacks are arbitrary but functional in what they read",
               "ids pairwise distinct"]
OUTSIDE = ["more shards/candidates/tracks", "preemption inside a command", "real OS threads"]


def _dist_calls(P):
    base = track_callbacks(P)['*']

    def env(vm):
        e = vm.notes.get('env')
        if e is None:
            e = Env(vm)
            vm.notes['env'] = e
        return e

    def star(vm, cal, args):
        e = env(vm)
        if cal.trait == 'TrackAttributes' and cal.method == 'compatible':
            dg = digest('compatible', deep(vm, args[0]), deep(vm, args[1]))
            if dg not in e.outcomes:
                e.outcomes[dg] = vm.choose_n(2, "compatible")
            return BOOL(e.outcomes[dg] == 0)
        if cal.trait == 'TrackAttributes' and cal.method == 'baked':
            dg = digest('baked', deep(vm, args[0]))
            if dg not in e.outcomes:
                e.outcomes[dg] = vm.choose_n(3, "baked")
            k = e.outcomes[dg]
            if k == 2:
                return ERR(Opaque('anyhow::Error', 'baked:' + dg))
            return OK(variant(P, 'TrackStatus', ['Ready', 'Wasted'][k]))
        if cal.trait == 'ObservationMetric' and cal.method == 'metric':
            mq = vm.deref(args[1])
            dg = digest('metric', deep(vm, mq))
            if dg not in e.outcomes:
                e.outcomes[dg] = vm.choose_n(2, "metric")
            if e.outcomes[dg] == 1:
                return NONE
            return SOME((SOME(Opaque('MetricObject', dg)), SOME(Opaque('f32', 'd' + dg))))
        if cal.trait == 'ObservationMetric' and cal.method == 'postprocess_distances':
            return args[1]
        return base(vm, cal, args)
    return {'*': star}


def _track_n(P, vm, tag, present, nobs):
    tid = vm.fresh(64, tag + '_id')
    obs = MapV(((usize(0), VecV(tuple(Adt('Observation', 0, (SOME(Opaque('OA', '%s-o%d' % (tag, j))), NONE)) for j in range(nobs)))),) if present else ())
    t = mk(P, 'Track', attributes=Opaque('TA', tag), track_id=tid, observations=obs, metric=Opaque('M', tag),
           merge_history=VecV((tid,)), notifier=Opaque('N', tag))
    return tid, t


def _res_key(P, r):
    return repr((fld(P, r, 'ObservationMetricOk', 'from'), fld(P, r, 'ObservationMetricOk', 'to'),
                 fld(P, r, 'ObservationMetricOk', 'attribute_metric'), fld(P, r, 'ObservationMetricOk', 'feature_distance')))


# ---------------------------------------------------------------- Track::distances
def _mk_track_distances(na, nb):
    def q(vm, P):
        fn = P.impl_methods[('Track', None, 'distances')][0][0]
        pa, pb = vm.choose_n(2, "class in candidate"), vm.choose_n(2, "class in track")
        ida, a = _track_n(P, vm, 'cand', pa == 0, na)
        idb, b = _track_n(P, vm, 'trk', pb == 0, nb)
        ca, cb = Cell(a, 'a'), Cell(b, 'b')
        r = vm.exec_fn(fn, [Ref(ca), Ref(cb), usize(0)], STORE_ENV)
        e = vm.notes.get('env') or Env(vm)
        ckey = digest('compatible', deep(vm, Ref(Cell(Opaque('TA', 'cand')))), deep(vm, Ref(Cell(Opaque('TA', 'trk')))))
        vm.check(BOOL(ckey in e.outcomes), "compatibility is decided first: an incompatible pair is reported as incompatible, never as a missing class or a result")
        if ckey not in e.outcomes:
            return
        comp = e.outcomes[ckey] == 0
        if not comp:
            vm.check(BOOL(r.variant == 1 and is_variant(P, r.fields[0].fields[0], 'Errors', 'IncompatibleAttributes')),
                     "incompatible attributes -> Err(IncompatibleAttributes)")
            return
        if pa or pb:
            vm.check(BOOL(r.variant == 1 and is_variant(P, r.fields[0].fields[0], 'Errors', 'ObservationForClassNotFound')),
                     "class missing on either side -> Err(ObservationForClassNotFound)")
            er = r.fields[0].fields[0]
            vm.check(z3.And(er.fields[0].e == ida.e, er.fields[1].e == idb.e, er.fields[2].e == 0), "the error names both tracks and the class")
            return
        vm.check(BOOL(r.variant == 0), "compatible tracks with the class on both sides -> Ok")
        got = list(r.fields[0].items)
        # reference: cartesian order, one result per pair for which the metric is Some
        exp = []
        for i in range(na):
            for j in range(nb):
                mq = mk(P, 'MetricQuery', feature_class=usize(0), candidate_attrs=Ref(Cell(Opaque('TA', 'cand'))),
                        candidate_observation=Ref(Cell(a.fields[2].items[0][1].items[i])), track_attrs=Ref(Cell(Opaque('TA', 'trk'))),
                        track_observation=Ref(Cell(b.fields[2].items[0][1].items[j])))
                dg = digest('metric', deep(vm, mq))
                vm.check(BOOL(dg in e.outcomes), "the metric is evaluated for every observation pair")
                if e.outcomes.get(dg) == 0:
                    exp.append(dg)
        vm.check(BOOL(len(got) == len(exp)), "exactly one result per observation pair for which the metric yields a value")
        remaining = list(exp)
        for g in got:
            vm.check(z3.And(fld(P, g, 'ObservationMetricOk', 'from').e == ida.e, fld(P, g, 'ObservationMetricOk', 'to').e == idb.e), "results carry the right ids")
            # the multiset of results is what the property fixes, not their order
            am = fld(P, g, 'ObservationMetricOk', 'attribute_metric')
            hit = [dg for dg in remaining if am.variant == 1 and isinstance(am.fields[0], Opaque) and am.fields[0] == Opaque('MetricObject', dg)]
            vm.check(BOOL(len(hit) >= 1), "every result carries the metric's value of one observation pair, each pair once")
            if hit:
                remaining.remove(hit[0])
    return q


# ---------------------------------------------------------------- schedules
class ForkSched:
    """symbolic yield points: after a command is queued its worker may run at once; blocked caller -> all orders"""

    def __init__(self, store, yield_on_send=True):
        self.store = store
        self.active = False
        self.yield_on_send = yield_on_send
        self.trace = []

    def on_send(self, vm, qcell):
        if self.active or not self.yield_on_send:
            return
        for i, q in enumerate(self.store.queues):
            if q is qcell:
                if vm.choose_n(2, "run worker now") == 1:
                    self.active = True
                    try:
                        self.trace.append(('early', i, self.store.pending(i)))
                        self.store.run_worker(i)
                    finally:
                        self.active = False

    def on_block(self, vm, qcell):
        if self.active or any(qcell is q for q in self.store.queues):
            return
        self.active = True
        try:
            pend = [i for i in range(self.store.n) if self.store.pending(i)]
            perms = list(itertools.permutations(pend))
            order = perms[vm.choose_n(len(perms), "worker order")] if perms else ()
            for i in order:
                self.trace.append(('block', i, self.store.pending(i)))
                self.store.run_worker(i)
        finally:
            self.active = False


def _reference(vm, P, cands, stored, only_baked):
    """expected Ok results (multiset of keys) and number of errors, from the store content at call time"""
    fn = P.impl_methods[('Track', None, 'distances')][0][0]
    e = vm.notes['env']
    exp_ok, n_err = [], 0
    for cid, c in cands:
        for oid, o in stored:
            same = z3.simplify(cid.e == oid.e)
            if z3.is_true(same) or (cid is oid):
                continue
            if only_baked:
                dg = digest('baked', deep(vm, Ref(Cell(fld(P, o, 'Track', 'attributes')))))
                if dg not in e.outcomes:
                    e.outcomes[dg] = vm.choose_n(3, "baked")
                if e.outcomes[dg] != 0:
                    continue
            r = vm.exec_fn(fn, [Ref(Cell(c)), Ref(Cell(o)), usize(0)], STORE_ENV)
            if r.variant == 0:
                exp_ok += [_res_key(P, x) for x in r.fields[0].items]
            elif not is_variant(P, r.fields[0].fields[0], 'Errors', 'IncompatibleAttributes'):
                n_err += 1
    return sorted(exp_ok), n_err


def _collect(vm, P, resp_ok, resp_err, via_iter):
    if via_iter:
        it_fn = P.impl_methods[('TrackDistanceOk', 'IntoIterator', 'into_iter')][0][0]
        nx = P.impl_methods[('TrackDistanceOkIterator', 'Iterator', 'next')][0][0]
        itc = Cell(vm.exec_fn(it_fn, [resp_ok], STORE_ENV), 'okiter')
        oks = []
        while True:
            x = vm.exec_fn(nx, [Ref(itc)], STORE_ENV)
            if x.variant == 0:
                break
            oks.append(x.fields[0])
    else:
        oks = list(vm.exec_fn(P.impl_methods[('TrackDistanceOk', None, 'all')][0][0], [resp_ok], STORE_ENV).items)
    errs = list(vm.exec_fn(P.impl_methods[('TrackDistanceErr', None, 'all')][0][0], [resp_err], STORE_ENV).items)
    return oks, errs


def _mk_query(kind, S, ncand, nstored, nobs=1, via_iter=False):
    def q(vm, P):
        stored, ids = [], []
        for i in range(nstored):
            present = vm.choose_n(2, "class present") == 0
            tid, t = _track_n(P, vm, 's%d' % i, present, nobs)
            stored.append((tid, t))
            ids.append(tid)
        cands = []
        if kind == 'foreign':
            for i in range(ncand):
                tid, t = _track_n(P, vm, 'c%d' % i, True, nobs)
                cands.append((tid, t))
                ids.append(tid)
        else:
            cands = stored[:ncand]
        distinct(vm, ids)
        st = Store(P, vm, S, [t for _, t in stored])
        sched = ForkSched(st)
        vm.notes['sched'] = sched
        vm.notes['env'] = Env(vm)
        only_baked = vm.choose_n(2, "only_baked") == 1
        before = [st.shard(i) for i in range(S)]
        exp_ok, exp_err = _reference(vm, P, cands, stored, only_baked)
        if kind == 'foreign':
            fn = P.impl_methods[('TrackStore', None, 'foreign_track_distances')][0][0]
            r = vm.exec_fn(fn, [st.ref(), VecV(tuple(t for _, t in cands)), usize(0), BOOL(only_baked)], STORE_ENV)
        else:
            fn = P.impl_methods[('TrackStore', None, 'owned_track_distances')][0][0]
            rq = Cell(VecV(tuple(cid for cid, _ in cands)), 'req')
            r = vm.exec_fn(fn, [st.ref(), Ref(rq), usize(0), BOOL(only_baked)], STORE_ENV)
        resp_ok, resp_err = r
        vm.check(fld(P, resp_ok, 'TrackDistanceOk', 'count').e == S * ncand, "the response expects executors x candidates chunks")
        oks, errs = _collect(vm, P, resp_ok, resp_err, via_iter)
        got = sorted(_res_key(P, x) for x in oks)
        vm.notes.update(kind=kind, S=S, ncand=ncand, nstored=nstored, only_baked=only_baked, trace=list(sched.trace),
                        got=len(got), exp=len(exp_ok))
        vm.check(BOOL(got == exp_ok), "the multiset of distance results equals the reference for this schedule (%s query)" % kind,
                 info={'key': 'owned-distances-race' if kind == 'owned' else None})
        vm.check(BOOL(len(errs) == exp_err), "missing-class cases are reported on the error stream, incompatible pairs silently dropped")
        vm.check(BOOL(all(e_.variant == 1 for e_ in errs)), "the error stream holds errors")
        for i in range(S):
            vm.check(BOOL(st.pending(i) == 0), "every queued command was handled")
            vm.check(struct_eq(st.shard(i), before[i]), "the store is unchanged after the query")
    return q


# ---------------------------------------------------------------- native replay of the owned-distance race
REPLAY_OWNED = c11.REPLAY_PRELUDE.replace("fn metric(&self, _mq: &MetricQuery<'_, TA, f32>) -> MetricOutput<f32> { None }",
                                          "fn metric(&self, _mq: &MetricQuery<'_, TA, f32>) -> MetricOutput<f32> { Some((Some(1.0), Some(1.0))) }") + r'''
use similari::store::TrackStore;

#[test]
fn replay() {
    // two stored tracks, both are the candidates of an owned distance query: each must be compared with the other.
    // The candidates are taken out of the store while the commands are queued; whether a worker sees them depends
    // on when it runs. Repeat to hit the early-worker schedule the solver found.
    let mut misses = 0;
    for _round in 0..300 {
        let notif = Notif::default();
        let mut store: TrackStore<TA, M, f32, Notif> = TrackStore::new(M::default(), TA::default(), notif.clone(), 2);
        store.add_track(build(1, &[0u64], &notif)).unwrap();
        store.add_track(build(2, &[0u64], &notif)).unwrap();
        // expected number of results per ordered pair, from the tracks themselves
        let e12 = store.get_store(1).get(&1).unwrap().distances(store.get_store(2).get(&2).unwrap(), 0).unwrap().len();
        let e21 = store.get_store(2).get(&2).unwrap().distances(store.get_store(1).get(&1).unwrap(), 0).unwrap().len();
        assert!(e12 > 0 && e21 > 0);
        let (ok, _err) = store.owned_track_distances(&[1, 2], 0, false);
        let res = ok.all();
        let n12 = res.iter().filter(|r| (r.from, r.to) == (1, 2)).count();
        let n21 = res.iter().filter(|r| (r.from, r.to) == (2, 1)).count();
        if !(n12 == e12 && n21 == e21 && res.len() == e12 + e21) {
            misses += 1;
        }
    }
    assert_eq!(misses, 0, "owned_track_distances missed candidate-vs-candidate results in {} of 300 rounds", misses);
}
'''


# ---------------------------------------------------------------- native sweep for the distance queries
DIST_SWEEP = r'''
use anyhow::{anyhow, Result};
use similari::store::TrackStore;
use similari::track::notify::NoopNotifier;
use similari::track::{
    MetricOutput, MetricQuery, NoopLookup, Observation, ObservationMetric, ObservationsDb, Track, TrackAttributes,
    TrackAttributesUpdate, TrackStatus,
};

// scripted attributes: v % 4 = 0 Ready, 1 Pending, 2 Wasted, 3 status error; compatible iff bit 3 of v agrees
#[derive(Clone, Debug, PartialEq, Default)]
struct TA { v: u64 }
#[derive(Clone)]
struct Upd;
impl TrackAttributesUpdate<TA> for Upd { fn apply(&self, _a: &mut TA) -> Result<()> { Ok(()) } }
impl TrackAttributes<TA, f32> for TA {
    type Update = Upd;
    type Lookup = NoopLookup<TA, f32>;
    fn compatible(&self, o: &TA) -> bool { (self.v ^ o.v) & 8 == 0 }
    fn merge(&mut self, _o: &TA) -> Result<()> { Ok(()) }
    fn baked(&self, _o: &ObservationsDb<f32>) -> Result<TrackStatus> {
        match self.v % 4 { 0 => Ok(TrackStatus::Ready), 1 => Ok(TrackStatus::Pending), 2 => Ok(TrackStatus::Wasted), _ => Err(anyhow!("scripted status error")) }
    }
}
// metric: defined unless the two observation attributes sum to a multiple of 5
#[derive(Clone, Default)]
struct M;
fn pair_value(a: f32, b: f32) -> Option<f32> { if ((a + b) as i64) % 5 == 0 { None } else { Some(a * 100.0 + b) } }
impl ObservationMetric<TA, f32> for M {
    fn metric(&self, mq: &MetricQuery<'_, TA, f32>) -> MetricOutput<f32> {
        let v = pair_value(mq.candidate_observation.attr().unwrap(), mq.track_observation.attr().unwrap())?;
        Some((Some(v), None))
    }
    fn optimize(&mut self, _c: u64, _h: &[u64], _a: &mut TA, _o: &mut Vec<Observation<f32>>, _p: usize, _m: bool) -> Result<()> { Ok(()) }
}
type T = Track<TA, M, f32, NoopNotifier>;
type S = TrackStore<TA, M, f32, NoopNotifier>;

#[derive(Clone, Debug)]
struct Spec { id: u64, v: u64, obs: Vec<f32>, has_class: bool }
fn mk(s: &Spec) -> T {
    let mut t = T::new(s.id, M, TA { v: s.v }, NoopNotifier);
    for o in &s.obs { t.add_observation(if s.has_class { 0 } else { 1 }, Some(*o), None, None).unwrap(); }
    t
}
/// reference answer computed from the specs: (sorted results (from, to, value bits), number of errors)
fn reference(cands: &[Spec], stored: &[Spec], only_baked: bool) -> (Vec<(u64, u64, u32)>, usize) {
    let (mut ok, mut errs) = (vec![], 0);
    for c in cands { for t in stored {
        if t.id == c.id { continue; }
        if only_baked && t.v % 4 != 0 { continue; }
        if (c.v ^ t.v) & 8 != 0 { continue; }
        if !c.has_class || !t.has_class { errs += 1; continue; }
        for a in &c.obs { for b in &t.obs { if let Some(v) = pair_value(*a, *b) { ok.push((c.id, t.id, v.to_bits())); } } }
    } }
    ok.sort();
    (ok, errs)
}

#[test]
fn replay() {
    let ids: [u64; 5] = [%(ids)s];
    for round in 0..40u64 {
        for shards in 1..=4usize { for only_baked in [false, true] { for variant in 0..6u64 {
            // store content: four tracks with varying status / compatibility / class presence / observation counts
            let stored: Vec<Spec> = (0..4usize).map(|k| {
                let x = variant * 7 + k as u64 * 3 + round %% 5;
                Spec { id: ids[k], v: (x %% 4) + if (x / 4) %% 3 == 0 { 8 } else { 0 }, obs: (0..(1 + (x %% 3))).map(|j| (k as f32) * 10.0 + j as f32 + 1.0).collect(),
                       has_class: (x / 2) %% 4 != 0 }
            }).collect();
            let mut store: S = TrackStore::new(M, TA::default(), NoopNotifier, shards);
            for sp in &stored { store.add_track(mk(sp)).unwrap(); }
            // ---- foreign candidates (not stored)
            let foreign: Vec<Spec> = (0..2usize).map(|k| Spec { id: ids[4] + 1000 + k as u64, v: if (variant + k as u64) %% 2 == 0 { 0 } else { 8 },
                                                              obs: vec![3.0 + k as f32, 4.0], has_class: (variant + k as u64) %% 5 != 0 }).collect();
            let (ok, err) = store.foreign_track_distances(foreign.iter().map(mk).collect(), 0, only_baked);
            let mut got: Vec<(u64, u64, u32)> = if round %% 2 == 0 { ok.all() } else { ok.into_iter().collect() }
                .iter().map(|r| (r.from, r.to, r.attribute_metric.unwrap().to_bits())).collect();
            got.sort();
            let errs = err.all().len();
            let (exp, exp_errs) = reference(&foreign, &stored, only_baked);
            assert_eq!(got, exp, "foreign distances: result multiset (shards {} only_baked {} variant {})", shards, only_baked, variant);
            assert_eq!(errs, exp_errs, "foreign distances: missing-class cases on the error stream (shards {} only_baked {} variant {})", shards, only_baked, variant);
            assert_eq!(store.shard_stats().iter().sum::<usize>(), 4, "the store is unchanged by a foreign query");
            // ---- owned candidates (stored tracks, compared with every other stored track including one another)
            let owned: Vec<Spec> = vec![stored[(variant %% 4) as usize].clone(), stored[((variant + 1 + round %% 3) %% 4) as usize].clone()];
            let owned: Vec<Spec> = if owned[0].id == owned[1].id { vec![owned[0].clone()] } else { owned };
            let (ok, err) = store.owned_track_distances(&owned.iter().map(|s| s.id).collect::<Vec<_>>(), 0, only_baked);
            let mut got: Vec<(u64, u64, u32)> = ok.all().iter().map(|r| (r.from, r.to, r.attribute_metric.unwrap().to_bits())).collect();
            got.sort();
            let errs = err.all().len();
            let (exp, exp_errs) = reference(&owned, &stored, only_baked);
            assert_eq!(got, exp, "owned distances: result multiset (shards {} only_baked {} variant {})", shards, only_baked, variant);
            assert_eq!(errs, exp_errs, "owned distances: error stream (shards {} only_baked {} variant {})", shards, only_baked, variant);
            let mut left: Vec<u64> = (0..shards).flat_map(|sh| store.get_store(sh).keys().cloned().collect::<Vec<_>>()).collect();
            left.sort();
            let mut all: Vec<u64> = stored.iter().map(|s| s.id).collect();
            all.sort();
            assert_eq!(left, all, "the store is unchanged by an owned query");
        } } }
    }
}
'''.replace("%%", "%")


def _replay_sweep(cex, v, vm):
    ids = []
    for k, val in cex["inputs"].items():
        if k.split('!')[0].endswith('_id') and isinstance(val, int) and val not in ids and val < 2 ** 63:
            ids.append(val)
    k = 3
    while len(ids) < 5:
        if k not in ids:
            ids.append(k)
        k += 1
    return DIST_SWEEP.replace("%(ids)s", ", ".join("%du64" % i for i in ids[:5]))


def _replay_owned(cex, v, vm):
    # the schedule-dependent race first (repeated rounds), then the general sweep
    return REPLAY_OWNED


def _replay_owned_or_sweep(cex, v, vm):
    # two native tests: the race scenario the solver's schedule describes (repeated rounds) and the general sweep
    return "mod race {\n" + REPLAY_OWNED + "\n}\nmod sweep {\n" + _replay_sweep(cex, v, vm) + "\n}\n"


T = "similari::track::Track::distances"
TS = "similari::track::store::TrackStore::"
W = TS + "handle_store_ops"
TD = "similari::track::store::track_distance::"
MIR = [
    MQ("c10_track_distances_1x1", "quick", _mk_track_distances(1, 1), "Track::distances: error cases and one result per pair with a metric value",
       "1x1 observations, class present/absent on each side, arbitrary compatible/metric", [T], spec_calls=_dist_calls, replay=_replay_sweep),
    MQ("c10_track_distances_2x2", "quick", _mk_track_distances(2, 2), "Track::distances: same", "2x2 observations", [T], spec_calls=_dist_calls, replay=_replay_sweep),
    MQ("c10_track_distances_3x2", "thorough", _mk_track_distances(3, 2), "Track::distances: same", "3x2 observations", [T], spec_calls=_dist_calls, replay=_replay_sweep),
]
for (kind, S, nc, ns, nobs, it, tier) in [('foreign', 1, 1, 2, 1, False, 'quick'), ('foreign', 2, 1, 2, 1, False, 'quick'), ('foreign', 2, 1, 2, 1, True, 'quick'),
                                           ('foreign', 2, 2, 2, 1, False, 'thorough'), ('foreign', 2, 1, 3, 1, False, 'thorough'), ('foreign', 1, 1, 2, 2, False, 'thorough'),
                                           ('owned', 1, 1, 2, 1, False, 'quick'), ('owned', 2, 1, 2, 1, False, 'quick'), ('owned', 1, 2, 2, 1, False, 'quick'),
                                           ('owned', 2, 2, 2, 1, False, 'thorough')]:
    MIR.append(MQ("c10_%s_s%d_c%d_t%d_o%d%s" % (kind, S, nc, ns, nobs, "_iter" if it else ""), tier, _mk_query(kind, S, nc, ns, nobs, it),
                  "%s distance query: result multiset = reference for every schedule; errors on the error stream; store unchanged" % kind,
                  "%d shards, %d candidates, %d stored tracks, %d observations each, only_baked both, yield after every send + every worker order" % (S, nc, ns, nobs),
                  [TS + ("foreign_track_distances" if kind == 'foreign' else "owned_track_distances"), W, T, TD + "TrackDistanceOk::all", TD + "TrackDistanceErr::all"]
                  + ([TD + "TrackDistanceOkIterator::next"] if it else []) + ([TS + "fetch_tracks", TS + "add_track"] if kind == 'owned' else []),
                  spec_calls=_dist_calls, replay=_replay_owned_or_sweep if kind == 'owned' else _replay_sweep, key='owned-distances-race' if kind == 'owned' else None,
                  max_paths=300000, timeout=3000))
