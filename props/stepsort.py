"""One whole Sort::predict_with_scene call, executed from MIR on a symbolic tracker state (engine M).

The tracker's store is the store model of C09/C10 (shards = finite maps, worker loop = the real handle_store_ops MIR
run when the caller blocks), its tracks are real SortAttributes / SortMetric values with symbolic scene, epoch, length
and ids; the numbers of the geometry (too_far, IoU, Kalman prediction) are uninterpreted. Registered under C01 and
cross-listed by C02, C03, C04 (one predict step from an arbitrary valid tracker state = the inductive step of their
history statements)."""
import itertools
import z3
from mir_engine import MQ
from mirlib import *
from storelib import Store, EagerSched
from C10 import ForkSched
from envlib import struct_eq

IOUGRID = [0.125, 0.25, 0.5, 0.75]
CONF = [0.25, 1.0]
ENV = {'TA': 'SortAttributes', 'M': 'SortMetric', 'OA': 'Universal2DBox', 'N': 'NoopNotifier'}
F32_MULT = 1000000.0
MAHAGRID = [0.0, 4.0, 11.0, 11.125, 50.0, 99.5]
CHI2INV95_4 = 11.070   # CHI2INV95[4], as the documented gate of the box filter (5th table entry)


def _marker(b):
    while isinstance(b, Ref):
        raise Unmodelled("marker of a reference")
    return int(z3_to_np(b.fields[0], F32))


def _calls(P):
    def box(vm, x):
        while isinstance(x, Ref):
            x = vm.deref(x)
        return x

    def pair(vm, args):
        a, b = _marker(box(vm, args[0])), _marker(box(vm, args[1]))
        # detections (and their fresh candidate tracks' boxes) carry markers 100+i, stored track boxes 200+j
        d, t = (a, b) if a < 200 else (b, a)
        return d - 100, t - 200

    def too_far(vm, cal, args):
        d, t = pair(vm, args)
        return vm.notes['far'][(d, t)]

    def cmo(vm, cal, args):
        l, r = args
        l = vm.deref(l) if isinstance(l, Ref) else l
        r = vm.deref(r) if isinstance(r, Ref) else r
        d, t = pair(vm, [l.fields[0], r.fields[0]])
        return vm.notes['iou'][(d, t)]

    def dist_in_2r(vm, cal, args):
        return f32(0.5)

    def make_prediction(vm, cal, args):
        # Kalman step. A FRESH filter (no state yet) initiated and updated with the same box returns that box: the
        # innovation is exactly zero (decided bit-exactly for the point filter in C07; for the box filter by the same
        # argument - stated assumption). For a track that already has a state the prediction is an uninterpreted box
        # keeping the detection's confidence.
        b = box(vm, args[1])
        m = _marker(b)
        attrs = args[0]
        a = vm.deref(attrs)
        si = P.decls.field_index(a.ty, 'state')
        fresh = a.fields[si].variant == 0
        vm.store(attrs, Adt(a.ty, 0, tuple(SOME(Opaque('KalmanState', 'after%d' % m)) if i == si else f for i, f in enumerate(a.fields))))
        if fresh:
            return Adt('Universal2DBox', 0, (b.fields[0], b.fields[1], NONE, b.fields[3], b.fields[4], b.fields[5], NONE))
        return Adt('Universal2DBox', 0, (f32(float(400 + m)), f32(1.0), NONE, f32(1.0), f32(1.0), b.fields[5], NONE))

    def kf_distance(vm, cal, args):
        # squared Mahalanobis distance of the candidate's box from the stored track's filter state: uninterpreted number
        st = args[1]
        st = vm.deref(st) if isinstance(st, Ref) else st
        t = int(st.tag[2:])
        d = _marker(box(vm, args[2])) - 100
        return vm.notes['maha'][(d, t)]

    def kf_new(vm, cal, args):
        return Opaque('Universal2DBoxKalmanFilter', 'f')

    def rng_gen(vm, cal, args):
        x = vm.fresh(64, 'candidate_id')
        ids = vm.notes['ids']
        vm.assume(z3.And([x.e != 0] + [x.e != o.e for o in ids]))   # random 64-bit ids: collisions assumed away (stated)
        ids.append(x)
        vm.notes.setdefault('cand_ids', []).append(x)
        return x

    def star(vm, cal, args):
        if cal.trait == 'ChangeNotifier' and cal.method == 'send':
            return ()
        return NotImplemented
    return {('Universal2DBox', None, 'too_far'): too_far, ('Universal2DBox', 'ObservationAttributes', 'calculate_metric_object'): cmo,
            ('Universal2DBox', None, 'dist_in_2r'): dist_in_2r,
            ('Universal2DBoxKalmanFilter', None, 'distance'): kf_distance, ('Universal2DBoxKalmanFilter', None, 'new'): kf_new,
            ('SortAttributes', 'TrackAttributesKalmanPrediction', 'make_prediction'): make_prediction,
            ('ThreadRng', 'Rng', 'gen'): rng_gen, ('*', 'Rng', 'gen'): rng_gen, '*': star}


def _detbox(i, conf):
    return Adt('Universal2DBox', 0, (f32(float(100 + i)), f32(0.0), NONE, f32(1.0), f32(1.0), conf, NONE))


def _trackbox(j):
    return Adt('Universal2DBox', 0, (f32(float(200 + j)), f32(0.0), NONE, f32(1.0), f32(1.0), f32(1.0), NONE))


def mk_step(ndet, nstored, shards=1, aw_zero=False, lite=False, fork=False, maha=False, driver=None):
    def q(vm, P):
        fn = P.impl_methods[('Sort', None, 'predict_with_scene')][0][0] if driver is None else None
        scene = vm.fresh(64, 'scene')
        # ---- options, epoch db: the call's scene and one other scene
        other_scene = vm.fresh(64, 'other_scene')
        vm.assume(other_scene.e != scene.e)
        ep_s, ep_o = vm.fresh(64, 'epoch_scene'), vm.fresh(64, 'epoch_other')
        vm.assume(z3.And(z3.ULT(ep_s.e, 2 ** 40), z3.ULT(ep_o.e, 2 ** 40)))
        scene_known = lite or vm.choose_n(2, "scene already in the epoch db") == 0
        ents = ([(scene, ep_s)] if scene_known else []) + [(other_scene, ep_o)]
        cur = ep_s.e if scene_known else z3.BitVecVal(0, 64)
        max_idle = vm.fresh(64, 'max_idle')
        vm.assume(z3.ULT(max_idle.e, 2 ** 40))
        hist = 2
        opts = Cell(sort_options(P, vm, ents, max_idle, history_length=usize(hist)), 'opts')
        thr = grid_f32(vm, 'iou_threshold', [0.25] if lite else [0.125, 0.25, 0.5])
        method = variant(P, 'PositionalMetricType', 'Mahalanobis') if maha else variant(P, 'PositionalMetricType', 'IoU', thr)
        if maha:
            thr = f32(1.0)    # MAHALANOBIS_NEW_TRACK_THRESHOLD: the documented new-track threshold of the Mahalanobis mode
        minc = f32(0.5)
        metric = mk(P, 'SortMetric', method=method, min_confidence=minc)
        noop = Adt('NoopNotifier', 0, ())
        # ---- stored tracks
        ids = []
        vm.notes['ids'] = ids
        tracks, info = [], []
        for j in range(nstored):
            tid = vm.fresh(64, 'track%d_id' % j)
            vm.assume(z3.And([tid.e != 0] + [tid.e != o.e for o in ids]))
            ids.append(tid)
            same_scene = lite or vm.choose_n(2, "track %d in the call's scene" % j) == 0
            tscene = scene if same_scene else other_scene
            last = vm.fresh(64, 'track%d_last' % j)
            vm.assume(z3.ULE(last.e, ep_s.e if (same_scene and scene_known) else (z3.BitVecVal(0, 64) if same_scene else ep_o.e)))
            length = vm.fresh(64, 'track%d_length' % j)
            vm.assume(z3.And(z3.UGE(length.e, 1), z3.ULT(length.e, 2 ** 40)))
            cid = vm.fresh(64, 'track%d_custom' % j, signed=True)
            attrs = mk(P, 'SortAttributes', predicted_boxes=VecV((_trackbox(j),), 'VecDeque'), observed_boxes=VecV((_trackbox(j),), 'VecDeque'),
                       last_updated_epoch=last, track_length=length, scene_id=tscene, custom_object_id=SOME(cid),
                       state=SOME(Opaque('KalmanState', 'st%d' % j)), opts=Ref(opts))
            t = mk(P, 'Track', attributes=attrs, track_id=tid, observations=MapV(((usize(0), VecV((Adt('Observation', 0, (SOME(_trackbox(j)), NONE)),))),)),
                   metric=metric, merge_history=VecV((tid,)), notifier=noop)
            tracks.append(t)
            info.append(dict(id=tid, same_scene=same_scene, last=last, length=length, scene=tscene))
        if nstored and not any(i['same_scene'] for i in info) and nstored > 1:
            pass
        defaults = (mk(P, 'SortAttributes', predicted_boxes=VecV((), 'VecDeque'), observed_boxes=VecV((), 'VecDeque'), last_updated_epoch=usize(0),
                       track_length=usize(0), scene_id=usize(0), custom_object_id=NONE, state=NONE, opts=Ref(opts)), metric, noop)
        main = Store(P, vm, shards, tracks, tag='main', defaults=defaults, env=ENV)
        wasted = Store(P, vm, shards, [], tag='wasted', defaults=defaults, env=ENV)

        class Both:
            """scheduler over both stores: workers run when the caller blocks"""
            def __init__(s):
                # fork: symbolic yield points - after every queued command its worker may run at once, and a blocked caller
                # is served by the pending workers in every order (command-granularity schedules, as in C10)
                s.a = ForkSched(main) if fork else EagerSched(main)
                s.b = EagerSched(wasted)

            def on_send(s, vm_, qc):
                s.a.on_send(vm_, qc)

            def on_block(s, vm_, qc):
                s.a.on_block(vm_, qc)
                s.b.on_block(vm_, qc)
        vm.notes['sched'] = Both()
        counter = vm.fresh(64, 'id_counter')
        vm.assume(z3.And(z3.ULT(counter.e, 2 ** 62), *[z3.ULE(i['id'].e, counter.e) for i in info]))   # invariant: issued ids <= counter
        awc = usize(0) if aw_zero else vm.fresh(64, 'aw_counter')
        if not aw_zero:
            vm.assume(awc.e != 0)
        awp = vm.fresh(64, 'aw_periodicity')
        counter_cell = Cell(counter, 'id_counter')      # batch trackers: the counter shared with the voting threads
        if driver is None:
            sort = Cell(mk(P, 'Sort', store=main.value, wasted_store=wasted.value, method=method, opts=Ref(opts),
                           auto_waste=mk(P, 'AutoWaste', periodicity=awp, counter=awc), track_id=counter), 'sort')
            counter_after = lambda: fld(P, sort.v, 'Sort', 'track_id')
        else:
            counter_after = lambda: counter_cell.v
        # ---- detections
        dets, dinfo = [], []
        for i in range(ndet):
            conf = grid_f32(vm, 'det%d_conf' % i, [1.0] if lite else CONF)
            has_cid = lite or vm.choose_n(2, "custom id given") == 0
            cid = vm.fresh(64, 'det%d_custom' % i, signed=True)
            dets.append((_detbox(i, conf), SOME(cid) if has_cid else NONE))
            dinfo.append(dict(conf=conf, cid=cid if has_cid else None))
        far, iou, mah = {}, {}, {}
        for i in range(ndet):
            for j in range(nstored):
                far[(i, j)] = vm.fresh('bool', 'too_far_%d_%d' % (i, j))
                if maha:
                    mah[(i, j)] = grid_f32(vm, 'maha_%d_%d' % (i, j), MAHAGRID)
                    continue
                overlap = vm.choose_n(2, "boxes overlap") == 0
                iou[(i, j)] = SOME(grid_f32(vm, 'iou_%d_%d' % (i, j), [0.125, 0.5, 0.75] if lite else IOUGRID)) if overlap else NONE
        vm.notes.update(far=far, iou=iou, maha=mah, ndet=ndet, nstored=nstored)
        arg = Ref(Cell(VecV(tuple(dets), 'slice'), 'bboxes'))
        if driver is None:
            r = vm.exec_fn(fn, [Ref(sort), scene, arg], {})
        else:
            # another front end over the same store / options / metric (batch tracker): must satisfy the same oracle
            r = driver(vm, P, dict(main=main, wasted=wasted, method=method, opts=opts, awp=awp, awc=awc, counter_cell=counter_cell,
                                   scene=scene, dets=dets, sched=vm.notes['sched'], shards=shards))
        # =================================================================== oracle
        new_epoch = cur + 1
        recs = r.items
        vm.check(BOOL(len(recs) == ndet), "one record per detection")
        T = 'SortTrack'
        # gated pairs and their weights
        W, gated = {}, {}
        for i in range(ndet):
            c = f_ite(f_lt(dinfo[i]['conf'], minc), minc, dinfo[i]['conf'])
            for j in range(nstored):
                tj = info[j]
                if not tj['same_scene'] or (not maha and iou[(i, j)].variant == 0):
                    gated[(i, j)] = z3.BoolVal(False)
                    W[(i, j)] = z3.BitVecVal(0, 64)
                    continue
                alive = z3.ULE(new_epoch - tj['last'].e, max_idle.e)
                if maha:
                    # inverted 95% chi-square cost (4 degrees of freedom) over the effective confidence; every pair that is
                    # not too far has a weight, the new-track threshold 1.0 decides in the assignment
                    d = mah[(i, j)]
                    w = f_div(f_ite(f_gt(d, f32(CHI2INV95_4)), f32(0.0), f_sub(f32(100.0), d)), c)
                    gated[(i, j)] = z3.And(alive, z3.Not(far[(i, j)]), z3.Not(f_gt(d, f32(CHI2INV95_4))))
                    W[(i, j)] = vm.cast(f_mul(w, f32(F32_MULT)), 'i64', 'FloatToInt').e
                    continue
                w = f_mul(iou[(i, j)].fields[0], c)
                gated[(i, j)] = z3.And(alive, z3.Not(far[(i, j)]), f_ge(w, thr))
                W[(i, j)] = vm.cast(f_mul(w, f32(F32_MULT)), 'i64', 'FloatToInt').e
        thr_i = vm.cast(f_mul(thr, f32(F32_MULT)), 'i64', 'FloatToInt').e
        assign = []
        new_count = 0
        new_ids = []
        for i, rec in enumerate(recs[:ndet]):
            g = lambda n: fld(P, rec, T, n)
            vm.check(BOOL(_marker(g('observed_bbox')) == 100 + i), "record i echoes detection i's observed box (submission order)")
            vm.check(g('scene_id').e == scene.e, "record carries the scene of the call")
            vm.check(g('epoch').e == new_epoch, "record carries the scene's epoch after the call (previous + 1)")
            co = g('custom_object_id')
            if dinfo[i]['cid'] is None:
                vm.check(BOOL(co.variant == 0), "record echoes the detection's custom object id (none)")
            else:
                vm.check(BOOL(co.variant == 1) if co.variant != 1 else co.fields[0].e == dinfo[i]['cid'].e, "record echoes the detection's custom object id")
            rid = g('id')
            hit = [j for j in range(nstored) if vm.branch(rid.e == info[j]['id'].e)]
            if hit:
                j = hit[0]
                assign.append(j)
                vm.check(BOOL(info[j]['same_scene']), "a detection is never attached to a track of another scene")
                vm.check(gated[(i, j)], "a detection continues a track only if the pair passes the gate and the track is unexpired")
                vm.check(g('length').e == info[j]['length'].e + 1, "track length = number of detections attached")
            else:
                assign.append(None)
                new_count += 1
                # inductive form of "never issued before": every issued id is <= the counter; a new id is above the old
                # counter, at most the new counter, and differs from the other new ids of this call
                vm.check(z3.And(z3.UGT(rid.e, counter.e), z3.ULE(rid.e, counter_after().e)), "a new track gets an id never issued before (above the old counter, covered by the new one)")
                vm.check(z3.And([rid.e != o for o in new_ids] + [z3.BoolVal(True)]), "new ids of one call are pairwise distinct")
                new_ids.append(rid.e)
                vm.check(g('length').e == 1, "a new track has length 1")
        used = [a for a in assign if a is not None]
        vm.check(BOOL(len(used) == len(set(used))), "no two detections of one call receive the same track")
        # maximum total weight over gated pairs, unmatched = threshold
        def total(a):
            s = z3.BitVecVal(0, 128)
            ok = z3.BoolVal(True)
            for i, j in enumerate(a):
                if j is None:
                    s = s + z3.SignExt(64, thr_i)
                else:
                    s = s + z3.SignExt(64, W[(i, j)])
                    ok = z3.And(ok, gated[(i, j)])
            return s, ok
        if len(assign) == ndet:
            mine, _ = total(assign)
            alts = []
            for combo in itertools.product([None] + list(range(nstored)), repeat=ndet):
                u = [x for x in combo if x is not None]
                if len(u) != len(set(u)):
                    continue
                s, ok = total(combo)
                alts.append(z3.Implies(ok, mine >= s))
            vm.check(z3.And(alts), "the continuations form a maximum-weight one-to-one assignment over the gated pairs (unmatched = threshold)")
        # ---- state after the call
        vm.check(z3.UGE(counter_after().e, counter.e), "the id counter never goes back")
        stored_after = {}
        for k, t in main.all_tracks():
            stored_after[k] = t
        vm.check(BOOL(len(stored_after) == nstored + new_count), "every stored track is still stored once, plus the new ones")
        for j in range(nstored):
            cur_t = [t for k, t in main.all_tracks() if k is info[j]['id'] or z3.is_true(z3.simplify(k.e == info[j]['id'].e))]
            vm.check(BOOL(len(cur_t) == 1), "stored track kept")
            if len(cur_t) != 1:
                continue
            a = fld(P, cur_t[0], 'Track', 'attributes')
            if j in used:
                vm.check(fld(P, a, 'SortAttributes', 'last_updated_epoch').e == new_epoch, "a continued track is stamped with the new epoch")
                vm.check(fld(P, a, 'SortAttributes', 'track_length').e == info[j]['length'].e + 1, "a continued track grows by one")
                vm.check(fld(P, a, 'SortAttributes', 'scene_id').e == info[j]['scene'].e, "a continued track stays in its scene")
            else:
                vm.check(struct_eq(cur_t[0], tracks[j]), "a track that was not continued is unchanged")
        em = opts.v.fields[0].fields[0]
        after_s = z3.BitVecVal(0, 64)
        after_o = z3.BitVecVal(0, 64)
        for k, e in reversed(em.items):
            after_s = z3.If(k.e == scene.e, e.e, after_s)
            after_o = z3.If(k.e == other_scene.e, e.e, after_o)
        vm.check(after_s == new_epoch, "the scene's epoch advanced by one")
        vm.check(after_o == ep_o.e, "other scenes' epochs are untouched")
    return q


STEP_REPLAY = r'''
use similari::trackers::sort::simple_api::Sort;
use similari::trackers::sort::PositionalMetricType;
use similari::trackers::tracker_api::TrackerAPI;
use similari::utils::bbox::BoundingBox;
use std::collections::HashSet;

#[derive(Clone, Debug)]
struct MT { id: u64, scene: u64, pos: i32, last: usize, len: usize }

/// deterministic pseudo-random multi-scene histories against a model: detections at well separated positions (1000 apart),
/// so a detection overlaps exactly the track at its position (IoU 1) and nothing else
fn history(max_idle: usize, shards: usize, seed: u64, steps: usize, maha: bool) {
    let mut t = Sort::new(shards, 2, max_idle, if maha { PositionalMetricType::Mahalanobis } else { PositionalMetricType::IoU(0.3) }, 0.5, None, 1.0 / 20.0, 1.0 / 160.0);
    let mut model: Vec<MT> = vec![];
    let mut issued: HashSet<u64> = HashSet::new();
    let mut epochs = [0usize; 3];
    let mut rng = seed.wrapping_mul(6364136223846793005).wrapping_add(1442695040888963407);
    for step in 0..steps {
        rng = rng.wrapping_mul(6364136223846793005).wrapping_add(1442695040888963407);
        let scene = (rng >> 33) % 3;
        let mask = (rng >> 40) % 8;
        let confs = [0.2f32, 0.9, 1.0];
        epochs[scene as usize] += 1;
        let epoch = epochs[scene as usize];
        let mut positions: Vec<i32> = (0..3).filter(|p| (mask >> p) & 1 == 1).collect();
        // submission order is not creation order: on some steps the frame lists the places in descending order
        if (rng >> 58) & 1 == 1 { positions.reverse(); }
        let dets: Vec<_> = positions.iter().map(|p| {
            let mut b: similari::utils::bbox::Universal2DBox = BoundingBox::new(1000.0 * *p as f32, 0.0, 10.0, 20.0).into();
            b.confidence = confs[((rng >> (44 + *p)) % 3) as usize];
            (b, if (rng >> (50 + *p)) & 1 == 1 { Some(step as i64 * 10 + *p as i64) } else { None })
        }).collect();
        let recs = t.predict_with_scene(scene, &dets);
        let ctx = format!("max_idle {} shards {} seed {} step {} scene {} maha {}", max_idle, shards, seed, step, scene, maha);
        assert_eq!(recs.len(), dets.len(), "one record per detection ({})", ctx);
        let mut seen = HashSet::new();
        for ((p, d), r) in positions.iter().zip(dets.iter()).zip(recs.iter()) {
            assert!((r.observed_bbox.xc - d.0.xc).abs() < 1e-6, "record echoes the observed box in submission order ({})", ctx);
            assert_eq!(r.custom_object_id, d.1, "record echoes the custom object id ({})", ctx);
            assert_eq!((r.scene_id, r.epoch), (scene, epoch), "record carries scene and epoch ({})", ctx);
            assert!(seen.insert(r.id), "no two detections of one call receive the same track ({})", ctx);
            match model.iter_mut().find(|m| m.scene == scene && m.pos == *p && epoch - m.last <= max_idle) {
                Some(m) => { assert_eq!(r.id, m.id, "continues the unexpired track of its scene at that place ({})", ctx); m.last = epoch; m.len += 1; assert_eq!(r.length, m.len, "track length ({})", ctx); }
                None => { assert!(issued.insert(r.id), "a new track gets an id never issued before: {} ({})", r.id, ctx); assert_eq!(r.length, 1); model.push(MT { id: r.id, scene, pos: *p, last: epoch, len: 1 }); }
            }
        }
        for s in 0..3u64 { assert_eq!(t.current_epoch_with_scene(s), epochs[s as usize], "epochs advance per scene only ({})", ctx); }
    }
}

#[test]
fn replay() {
    for seed in 0..6u64 { for max_idle in [0usize, 1, 3] { for shards in [1usize, 2, 3, 8] { history(max_idle, shards, seed, 60, false); if shards <= 2 { history(max_idle, shards, seed, 40, true); } } } }
    // the first steps of a tracker (few tracks, some shards still empty) under many distinct beginnings
    for seed in 6..150u64 { for shards in [2usize, 3, 8] { history(1, shards, seed, 6, false); } }
}

/// Mahalanobis mode: a detection within bounding-circle reach of the only stored track but outside the 95% chi-square gate
/// starts a new track (1 candidate x 1 track and 2 x 1); one inside the gate continues it
#[test]
fn replay_chi_square_gate() {
    for shards in [1usize, 2] { for n_near in [1usize, 2] {
        let mut t = Sort::new(shards, 2, 5, PositionalMetricType::Mahalanobis, 0.5, None, 1.0 / 20.0, 1.0 / 160.0);
        let b = |x: f32, y: f32| -> (similari::utils::bbox::Universal2DBox, Option<i64>) { (BoundingBox::new(x, y, 10.0, 20.0).into(), None) };
        let first = t.predict_with_scene(7, &[b(0.0, 0.0)]);
        let id0 = first[0].id;
        let same = t.predict_with_scene(7, &[b(0.25, 0.0)]);
        assert_eq!(same[0].id, id0, "a detection inside the chi-square gate continues the track (shards {})", shards);
        assert_eq!(same[0].length, 2);
        // 14 px aside: inside the bounding circles' reach (radius ~11.2 each), far outside the gate (sigma ~ 2 px)
        let dets: Vec<_> = (0..n_near).map(|k| b(14.0, 3.0 * k as f32)).collect();
        let off = t.predict_with_scene(7, &dets);
        for r in off.iter() {
            assert_ne!(r.id, id0, "a detection outside the 95% chi-square gate starts a new track (shards {}, {} detections)", shards, n_near);
            assert_eq!(r.length, 1);
        }
    } }
}
'''


def replay_step(cex, v, vm):
    return STEP_REPLAY


S = "similari::trackers::sort::simple_api::Sort::predict_with_scene"
FUNCS = [S, "similari::track::store::TrackStore::{new_track, foreign_track_distances, add_track, merge_external, get_store, shard_stats}",
         "similari::track::store::TrackStore::handle_store_ops", "similari::track::builder::{TrackBuilder, ObservationBuilder}::*", "similari::track::Track::{new, add_observation, merge, distances}",
         "similari::trackers::sort::metric::SortMetric::{metric, optimize, postprocess_distances}", "similari::trackers::sort::SortAttributes::{compatible, merge, baked}",
         "similari::trackers::sort::voting::SortVoting::winners", "similari::trackers::epoch_db::EpochDb::next_epoch", "similari::trackers::sort::SortTrack::from"]


def step_queries():
    out = []
    for (nd, ns, sh, tier, lite) in [(0, 1, 1, 'quick', False), (1, 0, 1, 'quick', False), (1, 1, 1, 'quick', False), (2, 1, 1, 'quick', False), (1, 2, 1, 'quick', False),
                                     (2, 2, 1, 'thorough', True), (2, 1, 2, 'thorough', False)]:
        out.append(MQ("step_sort_d%d_t%d_s%d" % (nd, ns, sh), tier, mk_step(nd, ns, sh, lite=lite),
                      "one Sort::predict_with_scene call from an arbitrary valid tracker state: one record per detection in order echoing box / custom id / scene / new epoch; "
                      "continuations only within the scene, through the gate, unexpired, maximum-weight one-to-one; new ids = counter + k; lengths; untouched tracks unchanged; only this scene's epoch advances",
                      "%d detections, %d stored tracks (scene, epoch, length, ids symbolic), %d shard(s); IoU mode; too_far / IoU values / Kalman prediction uninterpreted" % (nd, ns, sh),
                      FUNCS, spec_calls=_calls, replay=replay_step, max_paths=200000, timeout=3000))
    return out


MIR = step_queries()
# Mahalanobis mode: the squared distance to the track's filter state is an uninterpreted number from an exact grid around the
# 95% chi-square gate; SortMetric::metric, calculate_cost, SortVoting (new-track threshold 1.0) are the real code
for (nd, ns, tier, lite) in [(1, 1, 'quick', False), (2, 1, 'quick', False), (1, 2, 'quick', False), (2, 2, 'thorough', True)]:
    MIR.append(MQ("step_sort_d%d_t%d_s1_maha" % (nd, ns), tier, mk_step(nd, ns, 1, lite=lite, maha=True),
                  "one Sort::predict_with_scene call in Mahalanobis mode from an arbitrary valid tracker state: a detection continues a track only within the 95% chi-square gate, "
                  "within reach, unexpired, same scene; maximum-weight one-to-one over the gated pairs with unmatched = the new-track threshold; records / ids / lengths / epochs as in IoU mode",
                  "%d detections, %d stored tracks, 1 shard; squared Mahalanobis distances from {0,4,11,11.125,50,99.5}; too_far / Kalman prediction uninterpreted" % (nd, ns),
                  FUNCS + ["similari::utils::kalman::kalman_2d_box::Universal2DBoxKalmanFilter::calculate_cost"], spec_calls=_calls, replay=replay_step, max_paths=200000, timeout=3000))
# the same call under every command-granularity schedule of the store workers (2 shards)
MIR.append(MQ("step_sort_d1_t2_s2_sched", 'quick', mk_step(1, 2, 2, lite=True, fork=True),
              "one Sort::predict_with_scene call, 2 shards, EVERY command-granularity schedule of the shard workers (a worker may run right after a command is queued; "
              "blocked caller served in every order): the records and the state after the call satisfy the same shard- and schedule-independent oracle",
              "1 detection, 2 stored tracks, 2 shards, reduced option grid", FUNCS, spec_calls=_calls, replay=replay_step, max_paths=400000, timeout=3000))
MIR.append(MQ("step_sort_d2_t1_s2_sched", 'thorough', mk_step(2, 1, 2, lite=True, fork=True),
              "same, 2 detections x 1 stored track", "2 detections, 1 stored track, 2 shards, reduced option grid", FUNCS, spec_calls=_calls, replay=replay_step, max_paths=400000, timeout=3300))
