"""C04 - scene isolation (engine M): the mechanisms that partition tracking by scene id. The two-run comparison over whole
histories is outside the claim; what is decided are the facts it is composed of."""
import z3
from mir_engine import MQ
from mirlib import *
import C03 as _c03
import C20 as _c20
import C10 as _c10
import C02 as _c02

EXPLANATION = ("Bounded symbolic execution of the MIR with z3, mechanism level: (1) compatible() of both attribute types implies "
               "equal scene ids - with and without spatio-temporal constraints configured, for all epochs / idle limits / "
               "distances - so a detection is never compared with, let alone attached to, a track of another scene; an expired "
               "track is incompatible however its scene's neighbours advanced; (2) the epoch operations (next_epoch, skip, "
               "current, baked) read and write only the addressed scene's epoch; (3) Track::distances yields no result for an "
               "incompatible pair and the worker drops such pairs silently; (4) the attribute update a detection is created "
               "with stamps exactly the scene / epoch / custom id given; (5) the positional assignment is unchanged when the "
               "store holds additional tracks that produced no result (tracks of other scenes only add all-zero columns).")
ASSUMPTIONS = ["the bounds of the cross-listed obligations of C03 (epoch map <= 3 entries, values < 2^62), C20 (<= 2 constraint entries, 1..3 boxes), C10 (<= 3x2 observations) and C02 (<= 2x2 assignment with up to 2 extra empty columns)"]
OUTSIDE = ["the comparison of a multi-scene run with its single-scene projections over whole histories (composed from these facts, not decided as a whole)",
           "batch trackers' threads"]


def _mk_update(kind):
    def q(vm, P):
        opts = Cell(sort_options(P, vm, [], usize(5)), 'opts')
        epoch, scene = vm.fresh(64, 'epoch'), vm.fresh(64, 'scene')
        cid = vm.fresh(64, 'custom_id', signed=True)
        has_cid = vm.choose_n(2, "custom id given") == 0
        c = SOME(cid) if has_cid else NONE
        if kind == 'sort':
            fn = P.impl_methods[('SortAttributesUpdate', 'TrackAttributesUpdate', 'apply')][0][0]
            upd = Cell(mk(P, 'SortAttributesUpdate', epoch=epoch, scene_id=scene, custom_object_id=c), 'upd')
            attrs = Cell(_c03.sort_attrs(P, vm, Ref(opts), vm.fresh(64, 'old_scene'), vm.fresh(64, 'old_epoch')), 'attrs')
            ty = 'SortAttributes'
        else:
            fn = P.impl_methods[('VisualAttributesUpdate', 'TrackAttributesUpdate', 'apply')][0][0]
            upd = Cell(variant(P, 'VisualAttributesUpdate', 'Init', epoch, scene, c), 'upd')
            attrs = Cell(_c03.visual_attrs(P, vm, Ref(opts), vm.fresh(64, 'old_scene'), vm.fresh(64, 'old_epoch')), 'attrs')
            ty = 'VisualAttributes'
        before = attrs.v
        r = vm.exec_fn(fn, [Ref(upd), Ref(attrs)], {})
        vm.check(BOOL(r.variant == 0), "the update succeeds")
        a = attrs.v
        vm.check(fld(P, a, ty, 'scene_id').e == scene.e, "the detection is stamped with the scene it was submitted for")
        vm.check(fld(P, a, ty, 'last_updated_epoch').e == epoch.e, "... with the scene's current epoch")
        co = fld(P, a, ty, 'custom_object_id')
        vm.check(BOOL(co.variant == (1 if has_cid else 0)) if not has_cid else (co.fields[0].e == cid.e if co.variant == 1 else z3.BoolVal(False)), "... and with its custom object id")
        keep = [i for i, n in enumerate(P.decls.structs[ty]) if n not in ('scene_id', 'last_updated_epoch', 'custom_object_id')]
        vm.check(BOOL(all(before.fields[i] is a.fields[i] for i in keep)), "nothing else changes")
    return q


UPDATE_REPLAY = r'''
use similari::track::TrackAttributesUpdate;
use similari::trackers::sort::{SortAttributes, SortAttributesOptions, SortAttributesUpdate};
use similari::trackers::visual_sort::track_attributes::{VisualAttributes, VisualAttributesUpdate};
use std::sync::Arc;
#[test]
fn replay() {
    let opts = Arc::new(SortAttributesOptions::default());
    for (epoch, scene, cid) in [(%(epoch)dusize, %(scene)du64, %(cid)s), (3, 7, None), (0, 0, Some(-5i64))] {
        let mut a = SortAttributes::new(opts.clone());
        a.scene_id = 99; a.last_updated_epoch = 98; a.custom_object_id = Some(97); a.track_length = 4;
        SortAttributesUpdate::new_with_scene(epoch, scene, cid).apply(&mut a).unwrap();
        assert_eq!((a.scene_id, a.last_updated_epoch, a.custom_object_id, a.track_length), (scene, epoch, cid, 4));
        let mut v = VisualAttributes::new(opts.clone());
        v.scene_id = 99; v.last_updated_epoch = 98; v.custom_object_id = Some(97); v.track_length = 4;
        VisualAttributesUpdate::new_init_with_scene(epoch, scene, cid).apply(&mut v).unwrap();
        assert_eq!((v.scene_id, v.last_updated_epoch, v.custom_object_id, v.track_length), (scene, epoch, cid, 4));
    }
}
'''


def _replay_update(cex, v, vm):
    try:
        cid = "Some(%di64)" % (cex_get(cex, 'custom_id') - (1 << 64) if cex_get(cex, 'custom_id') >= (1 << 63) else cex_get(cex, 'custom_id'))
    except KeyError:
        cid = "None"
    return UPDATE_REPLAY % dict(epoch=cex_get(cex, 'epoch') % (1 << 62), scene=cex_get(cex, 'scene'), cid=cid)


MIR = [
    MQ("c04_update_sort", "quick", _mk_update('sort'), "SortAttributesUpdate::apply stamps scene / epoch / custom id, nothing else", "symbolic values",
       ["similari::trackers::sort::SortAttributesUpdate::apply"], replay=_replay_update),
    MQ("c04_update_visual", "quick", _mk_update('visual'), "VisualAttributesUpdate::Init stamps scene / epoch / custom id, nothing else", "symbolic values",
       ["similari::trackers::visual_sort::track_attributes::VisualAttributesUpdate::apply"], replay=_replay_update),
]
# cross-listed obligations (same queries as registered under the named properties)
MIR += [q for q in _c20.MIR if q.name.startswith('c20_compatible_')]
MIR += [q for q in _c03.MIR if q.name.startswith(('c03_compatible_expired_', 'c03_next_epoch', 'c03_skip_epochs', 'c03_current_epoch', 'c03_baked'))]
MIR += [q for q in _c10.MIR if q.name.startswith('c10_track_distances_') or q.name in ('c10_foreign_s1_c1_t2_o1',)]
MIR += [q for q in _c02.MIR if q.name in ('c02_assign_c1_t1_r1', 'c02_assign_c1_t2_r2', 'c02_assign_c2_t1_r2', 'c02_assign_c2_t2_r2', 'c02_assign_c2_t2_r2_x2')]


# one whole predict call from an arbitrary valid tracker state (inductive step), see props/stepsort.py
import stepsort as _step
MIR += [q for q in _step.MIR if q.name in ('step_sort_d1_t1_s1', 'step_sort_d1_t2_s1', 'step_sort_d2_t2_s1', 'step_sort_d1_t1_s1_maha', 'step_sort_d1_t2_s1_maha')]
EXPLANATION += " A whole Sort::predict_with_scene call is also executed from MIR on a symbolic tracker state (props/stepsort.py): real TrackStore code over the shard-map store model with the real worker loop, real builders / Track::add_observation / merge / SortMetric / SortAttributes / SortVoting code, kuhn_munkres by contract, geometry numbers and Kalman prediction uninterpreted - one record per detection in submission order echoing box, custom id, scene and the scene's new epoch; continuations only inside the scene, through the gate, for unexpired tracks, forming a maximum-weight one-to-one assignment; new ids = counter + k; lengths = detections attached; tracks that were not continued unchanged; only this scene's epoch advances. One step from an arbitrary valid state is the inductive step of the history statements."
ASSUMPTIONS += ['predict step: <= 2 detections, <= 2 stored tracks (scene, last epoch, length, ids, custom ids symbolic; invariant: issued ids <= counter, last epoch <= scene epoch), 1 shard (thorough 2), IoU mode with threshold from {.125,.25,.5}, IoU values from {.125,.25,.5,.75} or no overlap, confidences {.25,1}, min confidence .5, history length 2, auto-waste counter != 0 (no collection in this call); candidate ids random 64-bit values assumed distinct from all ids in use and non-zero; a FRESH Kalman filter initiated and updated with the same box returns that box (innovation exactly 0); workers run when the caller blocks; HashMap iteration in insertion order']
