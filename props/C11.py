"""C11 - atomic track updates under callback failures; merge history (engine M, generic MIR: holds for every
implementation of TrackAttributes / TrackAttributesUpdate / ObservationMetric / ChangeNotifier)."""
import z3
from mir_engine import MQ
from mirlib import *
from envlib import *

EXPLANATION = ("Bounded symbolic execution of the *generic* MIR of Track::add_observation and Track::merge: TA, M, OA, N stay "
               "opaque, every trait call on them is an environment call that returns an arbitrary Ok/Err (one fresh decision "
               "per invocation = the fault position) and havocs what it borrows mutably; notifications go to an event log. "
               "All fault positions x class memberships x flags within the bound are explored; the oracle (rollback to the "
               "initial terms, exactly-one notification, merge-history shape) is checked on every path.")
ASSUMPTIONS = ["<= 3 requested feature classes (concrete keys 0,1,2; thorough) / <= 2 (quick); each class independently present in "
               "destination / source (symbolic membership), 1 observation per present class",
               "Clone::clone on a generic value returns an equal value (Clone contract)",
               "a failing callback may have arbitrarily modified what it borrowed mutably (havoc)",
               "HashMap iteration order irrelevant here (no iteration over maps in these functions)"]
OUTSIDE = ["more than 3 classes; duplicate entries in the requested class list", "store-level atomicity (merge_owned): see C09"]


def _obs(tag):
    return Adt('Observation', 0, (SOME(Opaque('OA', tag)), NONE))


def _track(P, vm, tag, tid, classes, hist):
    obs = MapV(tuple((usize(c), VecV((_obs("%s-c%d" % (tag, c)),))) for c in classes))
    return mk(P, 'Track', attributes=Opaque('TA', tag), track_id=tid, observations=obs, metric=Opaque('M', tag),
              merge_history=VecV(tuple(hist)), notifier=Opaque('N', tag))


def _parts(P, t):
    return [fld(P, t, 'Track', n) for n in ('attributes', 'observations', 'metric', 'merge_history')]


def _unchanged(P, t0, t1):
    return z3.And([struct_eq(a, b) for a, b in zip(_parts(P, t0), _parts(P, t1))])


ENV = {}


def _mk_add_observation(with_update):
    def q(vm, P):
        fn, info = P.impl_methods[('Track', None, 'add_observation')][0]
        tid = vm.fresh(64, 'track_id')
        k0 = vm.fresh(64, 'stored_class')
        cls = vm.fresh(64, 'new_class')
        t0 = _track_sym(P, vm, 'dst', tid, [k0], [tid])
        cell = Cell(t0, 'track')
        attrs_given = vm.choose_n(2, "attrs given")
        feat_given = vm.choose_n(2, "feature given")
        fa = SOME(Opaque('OA', 'new')) if attrs_given else NONE
        fe = SOME(VecV((Opaque('f32x8', 'feat'),))) if feat_given else NONE
        upd = SOME(Opaque('Update', 'u')) if with_update else NONE
        vm.notes.update(kind='add_observation', attrs_given=attrs_given, feat_given=feat_given, with_update=with_update)
        r = vm.exec_fn(fn, [Ref(cell), cls, fa, fe, upd], ENV)
        e = vm.notes.get('env') or Env(vm)
        vm.notes['fails'] = [x[1] for x in e.events if x[0] == 'fail']
        if r.variant == 1:
            vm.check(_unchanged(P, t0, cell.v), "failed add_observation leaves attributes, observations, metric and merge history as they were",
                     info={'key': 'add_observation-rollback'})
            vm.check(BOOL(e.count('send') == 0), "failed add_observation emits no notification")
            vm.check(BOOL(e.count('fail') >= 1), "an error is only reported when a callback failed")
        else:
            vm.check(BOOL(e.count('send') == 1), "successful add_observation emits exactly one notification")
            vm.check(BOOL(e.count('fail') == 0), "success only when no callback failed")
            vm.check(struct_eq(fld(P, cell.v, 'Track', 'merge_history'), fld(P, t0, 'Track', 'merge_history')), "add_observation keeps the merge history")
            if attrs_given or feat_given:
                vm.check(BOOL(e.count('optimize') == 1), "the observation-optimisation step runs once for the added observation")
    return q


def _distinct(vm, ks):
    for i in range(len(ks)):
        for j in range(i):
            vm.assume(ks[i].e != ks[j].e)


def _track_sym(P, vm, tag, tid, keys, hist):
    obs = MapV(tuple((k, VecV((_obs("%s-c%d" % (tag, i)),))) for i, k in enumerate(keys)))
    return mk(P, 'Track', attributes=Opaque('TA', tag), track_id=tid, observations=obs, metric=Opaque('M', tag),
              merge_history=VecV(tuple(hist)), notifier=Opaque('N', tag))


def _mk_merge(ncls, nd, ns):
    """ncls requested classes (symbolic keys, duplicates allowed), destination with nd and source with ns classes
    (symbolic, pairwise distinct within a track): membership of every requested class is decided by the solver"""
    def q(vm, P):
        fn, info = P.impl_methods[('Track', None, 'merge')][0]
        dk = [vm.fresh(64, 'dest_class%d' % i) for i in range(nd)]
        sk = [vm.fresh(64, 'src_class%d' % i) for i in range(ns)]
        rk = [vm.fresh(64, 'req_class%d' % i) for i in range(ncls)]
        _distinct(vm, dk)
        _distinct(vm, sk)
        did, sid, old = vm.fresh(64, 'dest_id'), vm.fresh(64, 'src_id'), vm.fresh(64, 'older_id')
        dh = [did, old] if vm.choose_n(2, "dest history length") else [did]
        sh = [sid]
        t0 = _track_sym(P, vm, 'dst', did, dk, dh)
        s0 = _track_sym(P, vm, 'src', sid, sk, sh)
        dc, sc = Cell(t0, 'dest'), Cell(s0, 'src')
        flag = vm.choose_n(2, "merge_history flag")
        classes = Cell(VecV(tuple(rk)), 'classes')
        vm.notes.update(kind='merge', flag=flag, dh=len(dh), ncls=ncls, nd=nd, ns=ns)
        r = vm.exec_fn(fn, [Ref(dc), Ref(sc), Ref(classes), BOOL(bool(flag))], ENV)
        e = vm.notes.get('env') or Env(vm)
        vm.notes['fails'] = [x[1] for x in e.events if x[0] == 'fail']
        vm.notes['ncallbacks'] = e.ncalls
        t1 = dc.v
        h1 = fld(P, t1, 'Track', 'merge_history')
        h0 = VecV(tuple(dh))
        hcat = VecV(tuple(dh + sh))
        present = [z3.Or([r_.e == k.e for k in dk + sk] + [z3.BoolVal(False)]) for r_ in rk]
        any_present = z3.Or(present + [z3.BoolVal(False)])
        vm.check(struct_eq(sc.v, s0), "the source track is not modified by merge")
        if r.variant == 1:
            vm.check(_unchanged(P, t0, t1), "failed merge leaves attributes, observations, metric and merge history as they were",
                     info={'key': 'merge-rollback'})
            vm.check(BOOL(e.count('send') == 0), "failed merge emits no notification")
            vm.check(BOOL(e.count('fail') >= 1), "an error is only reported when a callback failed")
        else:
            vm.check(BOOL(e.count('send') == 1), "successful merge emits exactly one notification")
            vm.check(BOOL(e.count('fail') == 0), "success only when no callback failed")
            if not flag:
                vm.check(struct_eq(h1, h0), "merge with history disabled leaves the merge history unchanged", info={'key': 'merge-history'})
            else:
                vm.check(z3.If(any_present, struct_eq(h1, hcat), z3.Or(struct_eq(h1, h0), struct_eq(h1, hcat))),
                         "merge with history enabled: history = previous followed once by the source's (never emptied/truncated/extended twice)",
                         info={'key': 'merge-history'})
            for ev in e.events:
                if ev[0] == 'optimize' and flag:
                    vm.check(struct_eq(VecV(ev[2]), hcat), "optimize is given previous history + source history (once)", info={'key': 'merge-history'})
            # (how many times optimize runs is an implementation matter, not part of the property: not checked)
    return q


# ------------------------------------------------------------------ native replay (scripted trait implementations)
from replaylib import REPLAY_PRELUDE


def _replay_merge(cex, v, vm):
    n = vm.notes
    ncls, nd, ns = n['ncls'], n['nd'], n['ns']
    dcls = [cex_get(cex, 'dest_class%d' % i) for i in range(nd)]
    scls = [cex_get(cex, 'src_class%d' % i) for i in range(ns)]
    req = [cex_get(cex, 'req_class%d' % i) for i in range(ncls)]
    flag = 'true' if n['flag'] else 'false'
    fails = n.get('fails', [])
    fail_at = (n.get('ncallbacks', 0) - 1) if fails else -1
    any_present = any(r in dcls or r in scls for r in req)

    def arr(xs):
        return "[%s]" % ", ".join("%du64" % c for c in xs) if xs else "[] as [u64; 0]"
    body = REPLAY_PRELUDE + '''
#[test]
fn replay() {
    let nd = Notif::default();
    let ns = Notif::default();
    let mut dest = build(1, &%(dcls)s, &nd);
    %(older)s
    let src = build(2, &%(scls)s, &ns);
    let classes: Vec<u64> = %(req)s.to_vec();
    let before = snapshot(&dest, &classes);
    let hist_before = dest.get_merge_history().clone();
    nd.n.store(0, Ordering::SeqCst);
    CALLS.store(0, Ordering::SeqCst);
    FAIL_AT.store(%(fail_at)d, Ordering::SeqCst);
    let res = dest.merge(&src, &classes, %(flag)s);
    let after = snapshot(&dest, &classes);
    let sends = nd.n.load(Ordering::SeqCst);
    if res.is_err() {
        assert_eq!(before, after, "failed merge must leave the track unchanged");
        assert_eq!(sends, 0, "failed merge must not notify");
    } else {
        assert_eq!(sends, 1, "successful merge notifies exactly once");
        let mut cat = hist_before.clone();
        cat.extend(src.get_merge_history().iter().cloned());
        if !%(flag)s {
            assert_eq!(dest.get_merge_history(), &hist_before, "history disabled: unchanged");
        } else if %(any)s {
            assert_eq!(dest.get_merge_history(), &cat, "history enabled: previous ++ source once");
        } else {
            assert!(dest.get_merge_history() == &hist_before || dest.get_merge_history() == &cat, "history intact");
        }
    }
}
''' % dict(dcls=arr(dcls), scls=arr(scls), req=arr(req), flag=flag, fail_at=fail_at,
           any='true' if any_present else 'false',
           older="" if n['dh'] == 1 else "{ let older = build(3, &[] as &[u64; 0], &Notif::default()); dest.merge(&older, &[], true).unwrap(); }")
    return body


def _replay_add(cex, v, vm):
    n = vm.notes
    fails = n.get('fails', [])
    e = vm.notes.get('env')
    fail_at = (e.ncalls - 1) if (fails and e) else -1
    return REPLAY_PRELUDE + '''
#[test]
fn replay() {
    let nd = Notif::default();
    let mut t = build(1, &[%(k0)du64], &nd);
    let classes = [%(k0)du64, %(cls)du64];
    let before = snapshot(&t, &classes);
    nd.n.store(0, Ordering::SeqCst);
    CALLS.store(0, Ordering::SeqCst);
    FAIL_AT.store(%(fail_at)d, Ordering::SeqCst);
    let res = t.add_observation(%(cls)d, %(attrs)s, %(feat)s, %(upd)s);
    let after = snapshot(&t, &classes);
    let sends = nd.n.load(Ordering::SeqCst);
    if res.is_err() {
        assert_eq!(before, after, "failed add_observation must leave the track unchanged");
        assert_eq!(sends, 0, "failed add_observation must not notify");
    } else {
        assert_eq!(sends, 1, "successful add_observation notifies exactly once");
    }
}
''' % dict(k0=cex_get(cex, 'stored_class'), cls=cex_get(cex, 'new_class'), fail_at=fail_at,
           attrs="Some(5.0)" if n['attrs_given'] else "None", feat="Some(vec![])" if n['feat_given'] else "None",
           upd="Some(Upd)" if n['with_update'] else "None")


T = "similari::track::Track::"
MIR = [
    MQ("c11_add_observation_update", "quick", _mk_add_observation(True), "add_observation with an attribute update: atomic, one notification",
       "class present/absent, attrs/feature given or not, every fault position of apply/optimize", [T + "add_observation", T + "update_attributes"],
       spec_calls=track_callbacks, replay=_replay_add),
    MQ("c11_add_observation_plain", "quick", _mk_add_observation(False), "add_observation without update: atomic, one notification",
       "class present/absent, attrs/feature given or not, every fault position of optimize", [T + "add_observation"],
       spec_calls=track_callbacks, replay=_replay_add),
    MQ("c11_merge_1x1x1", "quick", _mk_merge(1, 1, 1), "merge: atomic, one notification, history = old ++ source once / unchanged",
       "1 requested class, dest 1 / source 1 classes (symbolic keys), flag, history length 1..2, every fault position", [T + "merge"],
       spec_calls=track_callbacks, replay=_replay_merge),
    MQ("c11_merge_2x1x1", "quick", _mk_merge(2, 1, 1), "merge: atomic, one notification, history = old ++ source once / unchanged",
       "2 requested classes (duplicates allowed), dest 1 / source 1 classes (symbolic keys), flag, history length 1..2, every fault position", [T + "merge"],
       spec_calls=track_callbacks, replay=_replay_merge),
    MQ("c11_merge_2x2x2", "quick", _mk_merge(2, 2, 2), "merge: atomic, one notification, history = old ++ source once / unchanged",
       "2 requested classes, dest 2 / source 2 classes (symbolic keys), flag, history length 1..2, every fault position", [T + "merge"],
       spec_calls=track_callbacks, replay=_replay_merge, max_paths=60000, timeout=900),
    MQ("c11_merge_3x2x2", "quick", _mk_merge(3, 2, 2), "merge: atomic, one notification, history = old ++ source once / unchanged",
       "3 requested classes, dest 2 / source 2 classes (symbolic keys), flag, history length 1..2, every fault position", [T + "merge"],
       spec_calls=track_callbacks, replay=_replay_merge, max_paths=400000, timeout=3000),
    MQ("c11_merge_3x3x3", "thorough", _mk_merge(3, 3, 3), "merge: atomic, one notification, history = old ++ source once / unchanged",
       "3 requested classes, dest 3 / source 3 classes (symbolic keys), flag, history length 1..2, every fault position", [T + "merge"],
       spec_calls=track_callbacks, replay=_replay_merge, max_paths=2000000, timeout=3400),
    MQ("c11_merge_4x2x2", "thorough", _mk_merge(4, 2, 2), "merge: atomic, one notification, history = old ++ source once / unchanged",
       "4 requested classes, dest 2 / source 2 classes (symbolic keys), flag, history length 1..2, every fault position", [T + "merge"],
       spec_calls=track_callbacks, replay=_replay_merge, max_paths=2000000, timeout=3400),
]


# store level ("store add, merge_external and merge_owned" of the property): the same obligations that C09 registers
import C09 as _c09
MIR += [q for q in _c09.MIR if q.name.startswith(('c09_add_missing_', 'c09_add_existing_', 'c09_merge_external_', 'c09_merge_owned_')) and q.name.endswith(('_1', '_2', '_1_2', '_2_2'))]
