"""C17 - voting engines: vote counting, weights, top-N order, one winner per track (engine M)."""
import z3
from mir_engine import MQ
from mirlib import *

EXPLANATION = ("Bounded symbolic execution of the MIR of TopNVoting::winners and BestFitVoting::winners (closures, itertools "
               "pipelines, grouping, sorting executed from MIR / contract models) on a symbolic result stream: query and track ids "
               "chosen by z3 among small symbolic id sets, distances free f32, N / min_votes / max_distance symbolic. The oracle "
               "is an independent z3 formula (counts, weights = sum of (largest distance seen - d) in f64, order, one winner per "
               "track). HashMap iteration order is a fresh nondeterministic permutation per traversal, so the verdict covers "
               "every iteration order; because the oracle is a function of the stream as a multiset (up to f32/f64 summation "
               "order and ties), agreement with it for every stream gives order independence. SortVoting: see C02; VisualVoting: C12.")
ASSUMPTIONS = ["free streams of <= 2 results (quick) / 3 (thorough), fixed-structure streams of 3 (quick) / 4 (thorough) results over <= 2 queries x <= 2 tracks; ids pairwise distinct",
               "distances: None or a value of the exact grid {0,.25,.5,1,2,3,4,8} selected by a symbolic index (all float arithmetic folded exactly per value)", "max_distance from {0,.25,.375,.5,.75,1,1.5,2,2.5,3,3.5,4,6,8,16}: every order relation with the distance grid (equal to / between grid points)", "ties in weight accepted in either order",
               "HashMap iteration order: every permutation (nondeterministic); into_group_map keeps stream order inside a group (itertools contract)",
               "sort_by is a stable sort (std contract)"]
OUTSIDE = ["longer streams / more ids", "float summation-order effects between permutations of a stream (weights are compared in stream order)"]

F64 = z3.Float64()
DGRID = [0.0, 0.25, 0.5, 1.0, 2.0, 3.0, 4.0, 8.0]
MAXD = [0.0, 0.25, 0.375, 0.5, 0.75, 1.0, 1.5, 2.0, 2.5, 3.0, 3.5, 4.0, 6.0, 8.0, 16.0]


def _stream(vm, nq, nt, nres, fixed=None):
    """fixed: optional list of (query index, track index) per entry - the structure of the stream is then concrete (ids and
    distances stay symbolic, every distance present)"""
    qids = [vm.fresh(64, 'query%d' % i) for i in range(nq)]
    tids = [vm.fresh(64, 'track%d' % i) for i in range(nt)]
    allids = qids + tids
    for i in range(len(allids)):
        for j in range(i):
            vm.assume(allids[i].e != allids[j].e)
    stream = []
    for k in range(nres):
        f = vm.fresh(64, 'from%d' % k)
        t = vm.fresh(64, 'to%d' % k)
        if fixed is not None:
            vm.assume(z3.And(f.e == qids[fixed[k][0]].e, t.e == tids[fixed[k][1]].e))
            some = True
        else:
            vm.assume(z3.Or([f.e == c.e for c in qids]))
            vm.assume(z3.Or([t.e == x.e for x in tids]))
            some = vm.choose_n(2, "distance present") == 0
        d = grid_f32(vm, 'd%d' % k, DGRID)
        stream.append((f, t, d if some else None))
    return qids, tids, stream


def _items(P, stream):
    return VecV(tuple(mk(P, 'ObservationMetricOk', **{'from': f, 'to': t, 'attribute_metric': NONE, 'feature_distance': SOME(d) if d is not None else NONE})
                      for f, t, d in stream))


class Oracle:
    """independent reference. Membership of a stream entry in a (query, track) group and whether its distance counts
    are decided with vm.branch (a solver query under the path condition; forks only if the code did not distinguish
    the cases), so the float sums are plain exact-grid additions."""

    def __init__(self, vm, qids, tids, stream, max_distance, min_votes):
        self.vm = vm
        self.stream = stream
        self.maxd = f32(-1.0)
        for _, _, d in stream:
            if d is not None:
                self.maxd = f_ite(f_lt(self.maxd, d), d, self.maxd)
        self.groups = {}   # (qi, ti) -> list of counted distances in stream order
        for (f, t, d) in stream:
            if d is None or not vm.branch(f_le(d, max_distance)):
                continue
            qi = [i for i, x in enumerate(qids) if vm.branch(f.e == x.e)]
            ti = [i for i, x in enumerate(tids) if vm.branch(t.e == x.e)]
            assert len(qi) == 1 and len(ti) == 1
            self.groups.setdefault((qi[0], ti[0]), []).append(d)
        self.qual = {}
        for g, ds in self.groups.items():
            self.qual[g] = vm.branch(z3.ULE(min_votes.e, len(ds)))
        self.qids, self.tids = qids, tids

    def qualifies(self, qi, ti):
        return self.qual.get((qi, ti), False)

    def weight(self, qi, ti):
        acc = z3.FPVal(0.0, F64)
        for d in self.groups[(qi, ti)]:
            acc = f_add(acc, f_to64(f_sub(self.maxd, d)))
        return acc

    def index_of(self, ids, key):
        hit = [i for i, x in enumerate(ids) if self.vm.branch(key.e == x.e)]
        return hit[0] if hit else None


def _elt(P, e):
    return (fld(P, e, 'TopNVotingElt', 'query_track'), fld(P, e, 'TopNVotingElt', 'winner_track'), fld(P, e, 'TopNVotingElt', 'weight'))


def _mk_topn(nq, nt, nres, fixed=None):
    def q(vm, P):
        fn = P.impl_methods[('TopNVoting', 'Voting', 'winners')][0][0]
        qids, tids, stream = _stream(vm, nq, nt, nres, fixed)
        topn = vm.fresh(64, 'topn')
        vm.assume(z3.ULE(topn.e, 3))
        minv = vm.fresh(64, 'min_votes')
        vm.assume(z3.ULE(minv.e, 3))
        # every order relation with the distance grid is represented (equal to / between grid points); exact values so that
        # a changed weight formula involving max_distance is decided as well
        maxdist = grid_f32(vm, 'max_distance', MAXD)
        voting = Cell(mk(P, 'TopNVoting', topn=topn, max_distance=maxdist, min_votes=minv, _phony=()), 'voting')
        r = vm.exec_fn(fn, [Ref(voting), _items(P, stream)], {'T': 'Vec<ObservationMetricOk<OA>>'})
        O = Oracle(vm, qids, tids, stream, maxdist, minv)
        vm.notes.update(engine='topn', nres=nres)
        res = {}
        for key, vec in r.items:
            qi = O.index_of(qids, key)
            vm.check(BOOL(qi is not None and qi not in res), "result keys are distinct queries of the stream")
            res[qi] = [_elt(P, e) for e in vec.items]
        for qi in range(nq):
            qual = [ti for ti in range(nt) if O.qualifies(qi, ti)]
            vm.check(BOOL((qi in res) == (len(qual) >= 1)), "a query has an entry exactly when some track has >= min_votes (and >= 1) distances within max_distance")
            if qi not in res:
                continue
            elts = res[qi]
            n = len(elts)
            vm.check(z3.ULE(z3.BitVecVal(n, 64), topn.e), "at most N winners per query")
            vm.check(z3.Or(z3.BitVecVal(n, 64) == topn.e, BOOL(n == len(qual))), "N winners, or all qualifying tracks if fewer")
            listed = []
            for (qq, ww, wt) in elts:
                vm.check(qq.e == qids[qi].e, "element belongs to its query")
                ti = O.index_of(tids, ww)
                vm.check(BOOL(ti is not None and ti in qual), "only tracks with enough counted distances win")
                vm.check(BOOL(ti not in listed), "no track listed twice for a query")
                listed.append(ti)
                vm.check(f_eq(wt, O.weight(qi, ti)), "weight = sum over counted distances of (largest distance seen - d)")
            for a, b in zip(elts, elts[1:]):
                vm.check(f_ge(a[2], b[2]), "winners ordered by decreasing weight")
            if n:
                for ti in qual:
                    if ti not in listed:
                        vm.check(f_le(O.weight(qi, ti), elts[-1][2]), "every qualifying track left out weighs no more than the last listed one")
    return q


def _mk_bestfit(nq, nt, nres, fixed=None):
    def q(vm, P):
        fn = P.impl_methods[('BestFitVoting', 'Voting', 'winners')][0][0]
        qids, tids, stream = _stream(vm, nq, nt, nres, fixed)
        minv = vm.fresh(64, 'min_votes')
        vm.assume(z3.ULE(minv.e, 3))
        # every order relation with the distance grid is represented (equal to / between grid points); exact values so that
        # a changed weight formula involving max_distance is decided as well
        maxdist = grid_f32(vm, 'max_distance', MAXD)
        voting = Cell(mk(P, 'BestFitVoting', max_distance=maxdist, min_votes=minv, _phony=()), 'voting')
        r = vm.exec_fn(fn, [Ref(voting), _items(P, stream)], {'T': 'Vec<ObservationMetricOk<OA>>'})
        O = Oracle(vm, qids, tids, stream, maxdist, minv)
        vm.notes.update(engine='bestfit', nres=nres)
        res = {}
        for key, vec in r.items:
            qi = O.index_of(qids, key)
            vm.check(BOOL(qi is not None and qi not in res), "result keys are distinct queries of the stream")
            res[qi] = [_elt(P, e) for e in vec.items]
        awarded = {}     # track index -> (query index, weight)
        for qi in range(nq):
            claims = [ti for ti in range(nt) if O.qualifies(qi, ti)]
            vm.check(BOOL((qi in res) == (len(claims) >= 1)), "a query has an entry exactly when it has a qualifying claim")
            if qi not in res:
                continue
            elts = res[qi]
            vm.check(BOOL(len(elts) == len(claims)), "one element per qualifying (query, track) claim")
            for (qq, ww, wt) in elts:
                vm.check(qq.e == qids[qi].e, "element belongs to its query")
                ti = O.index_of(tids, ww)
                if ti is None:
                    vm.check(ww.e == qids[qi].e, "a claim that lost falls back to the query itself")
                    vm.check(z3.Or([f_eq(wt, O.weight(qi, t)) for t in claims] + [z3.BoolVal(False)]), "element weight = weight of a claim of that query")
                else:
                    vm.check(BOOL(ti in claims), "an awarded track is a qualifying claim")
                    vm.check(f_eq(wt, O.weight(qi, ti)), "an awarded track carries its claim's weight")
                    vm.check(BOOL(ti not in awarded), "no track is awarded twice")
                    awarded[ti] = (qi, wt)
        for qi in range(nq):
            for ti in range(nt):
                if not O.qualifies(qi, ti):
                    continue
                vm.check(BOOL(ti in awarded), "a claimed track goes to one of its claimants")
                if ti in awarded and awarded[ti][0] != qi:
                    vm.check(f_ge(awarded[ti][1], O.weight(qi, ti)), "a track goes to the claimant with the greatest weight")
    return q


def _replay(cex, v, vm):
    n = vm.notes
    items = []
    for k in range(n['nres']):
        try:
            d = "Some(%rf32)" % grid_value(cex, vm, 'd%d' % k)
        except KeyError:
            d = "None"
        items.append("ObservationMetricOk::new(%du64, %du64, None, %s)" % (cex_get(cex, 'from%d' % k), cex_get(cex, 'to%d' % k), d))
    common = dict(items=", ".join(items), maxd='%rf32' % grid_value(cex, vm, 'max_distance'), minv=cex_get(cex, 'min_votes'))
    if n['engine'] == 'topn':
        common['ctor'] = "TopNVoting::new(%d, %s, %d)" % (cex_get(cex, 'topn'), common['maxd'], common['minv'])
        common['topn'] = cex_get(cex, 'topn')
        common['use'] = "use similari::voting::topn::TopNVoting;"
    else:
        common['ctor'] = "BestFitVoting::new(%s, %d)" % (common['maxd'], common['minv'])
        common['topn'] = 1000
        common['use'] = "use similari::voting::best::BestFitVoting;"
    common['bestfit'] = 'true' if n['engine'] == 'bestfit' else 'false'
    return '''
use similari::track::ObservationMetricOk;
use similari::voting::Voting;
%(use)s
use std::collections::HashMap;

#[test]
fn replay() {
    let stream: Vec<ObservationMetricOk<()>> = vec![%(items)s];
    let v = %(ctor)s;
    let res = v.winners(stream.clone());
    let max_distance: f32 = %(maxd)s;
    let min_votes: usize = %(minv)d;
    let topn: usize = %(topn)d;
    let bestfit = %(bestfit)s;
    // reference
    let mut maxd = -1.0f32;
    for d in &stream { if let Some(e) = d.feature_distance { if maxd < e { maxd = e; } } }
    let mut groups: Vec<((u64, u64), Vec<f32>)> = vec![];
    for d in &stream { if let Some(e) = d.feature_distance { if e <= max_distance {
        if let Some(g) = groups.iter_mut().find(|g| g.0 == (d.from, d.to)) { g.1.push(e); } else { groups.push(((d.from, d.to), vec![e])); } } } }
    let claims: Vec<(u64, u64, f64)> = groups.iter().filter(|g| g.1.len() >= min_votes).map(|g| (g.0 .0, g.0 .1, g.1.iter().map(|d| (maxd - d) as f64).sum())).collect();
    let queries: Vec<u64> = { let mut q: Vec<u64> = claims.iter().map(|c| c.0).collect(); q.sort(); q.dedup(); q };
    assert_eq!(res.len(), queries.len(), "one entry per query with a qualifying claim");
    if !bestfit {
        for q in &queries {
            let mine: Vec<&(u64, u64, f64)> = claims.iter().filter(|c| c.0 == *q).collect();
            let got = &res[q];
            assert_eq!(got.len(), mine.len().min(topn), "N winners or all qualifying");
            for w in got.windows(2) { assert!(w[0].weight >= w[1].weight, "decreasing weight"); }
            for e in got { let c = mine.iter().find(|c| c.1 == e.winner_track).expect("winner qualifies"); assert_eq!(c.2, e.weight, "weight"); }
            if let Some(last) = got.last() { for c in &mine { if !got.iter().any(|e| e.winner_track == c.1) { assert!(c.2 <= last.weight, "left-out track weighs no more"); } } }
        }
    } else {
        let mut awarded: HashMap<u64, (u64, f64)> = HashMap::new();
        for (q, elts) in &res {
            assert_eq!(elts.len(), claims.iter().filter(|c| c.0 == *q).count(), "one element per claim");
            for e in elts { if e.winner_track != *q { assert!(awarded.insert(e.winner_track, (*q, e.weight)).is_none(), "track awarded twice"); } }
        }
        for c in &claims {
            match awarded.get(&c.1) {
                Some((q, w)) => { if *q != c.0 { assert!(*w >= c.2, "track must go to the heaviest claimant"); } else { assert_eq!(*w, c.2); } }
                None => panic!("a claimed track was awarded to nobody"),
            }
        }
    }
}
''' % common


TN = "similari::track::voting::topn::TopNVoting::winners"
BF = "similari::track::voting::best::BestFitVoting::winners"
MIR = []
for (nq, nt, nr, tier) in [(1, 1, 1, 'quick'), (1, 2, 2, 'quick'), (2, 2, 2, 'quick'), (2, 2, 3, 'thorough')]:   # larger free streams (r4, 2x3, 3x2) did not finish within 55 min: replaced by the fixed-structure queries below
    MIR.append(MQ("c17_topn_q%d_t%d_r%d" % (nq, nt, nr), tier, _mk_topn(nq, nt, nr),
                  "TopNVoting::winners = oracle (counts, weights, <= N per query by decreasing weight), for every HashMap iteration order",
                  "%d queries x %d tracks, stream of %d results (ids chosen by z3), distances on the exact grid or None, N,min_votes <= 3, max_distance free" % (nq, nt, nr),
                  [TN], replay=_replay, opts={'map_order': 'nondet'}, max_paths=400000, timeout=3300, z3_timeout_ms=60000))
    MIR.append(MQ("c17_bestfit_q%d_t%d_r%d" % (nq, nt, nr), tier, _mk_bestfit(nq, nt, nr),
                  "BestFitVoting::winners = oracle (each track to its heaviest claimant, others fall back to themselves), for every HashMap iteration order",
                  "%d queries x %d tracks, stream of %d results (ids chosen by z3), distances on the exact grid or None, min_votes <= 3, max_distance free" % (nq, nt, nr),
                  [BF], replay=_replay, opts={'map_order': 'nondet'}, max_paths=400000, timeout=3300, z3_timeout_ms=60000))
# fixed stream structures that small free streams do not reach in the quick tier: a query with two claims competing with a
# second query for one of them; one pair's distances interleaved with another pair's
for nm, mkq, fn_, (nq, nt, fixed) in [("c17_bestfit_contest", _mk_bestfit, BF, (2, 2, [(0, 0), (0, 1), (1, 1)])),
                                      ("c17_bestfit_contest4", _mk_bestfit, BF, (2, 2, [(0, 0), (1, 1), (0, 1), (1, 1)])),
                                      ("c17_bestfit_three", _mk_bestfit, BF, (3, 2, [(0, 0), (1, 0), (2, 1)])),
                                      ("c17_topn_interleaved", _mk_topn, TN, (1, 2, [(0, 0), (0, 1), (0, 0)])),
                                      ("c17_topn_interleaved4", _mk_topn, TN, (2, 2, [(0, 0), (1, 1), (0, 0), (0, 1)]))]:
    MIR.append(MQ(nm, 'thorough' if nm.endswith('4') else 'quick', mkq(nq, nt, len(fixed), fixed), "same oracle on a fixed stream structure %r (ids and distances symbolic)" % (fixed,),
                  "%d queries x %d tracks, %d results, every distance present" % (nq, nt, len(fixed)), [fn_], replay=_replay,
                  opts={'map_order': 'nondet'}, max_paths=400000, timeout=1500, z3_timeout_ms=60000))

# Hungarian voting (SortVoting): "for every query that appears in the stream, either one track or the query itself, and no
# track twice" - the same assignment obligations that C02 registers
import C02 as _c02
MIR += [q for q in _c02.MIR if q.name.startswith('c02_assign_') and q.name in ('c02_assign_c1_t1_r1', 'c02_assign_c1_t2_r2', 'c02_assign_c2_t1_r2', 'c02_assign_c2_t2_r2')]
