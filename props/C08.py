from kani_engine import KH

EXPLANATION = ("Bounded solver-based checking (Kani/CBMC) of the real axis-aligned geometry on the exact quarter-integer grid "
               "(all sums/products exact, oracle in integer arithmetic): BoundingBox::intersection = exact overlap area, "
               "symmetric, zero exactly when disjoint; BoundingBox IoU = I/(A1+A2-I), in [0,1], symmetric, 1 on identical "
               "boxes; Universal2DBox::too_far never rejects overlapping axis-aligned boxes, is symmetric and false for a box "
               "with itself. Unwinding assertions on; cover witness; native replay of counterexamples.")
ASSUMPTIONS = ["coordinates k/4 in [-16,16], sizes k/4 in (0,16] (intersection); [-4,4] / (0,4] for IoU and too_far",
               "too_far: only pairs whose aspect = w/h is exact in f32 (w = aspect*h bit-exactly)",
               "BoundingBox::calculate_metric_object returns Some(0.0) for disjoint boxes (pinned by the repo's own test "
               "bbox::tests::test_iou); 'absent exactly when disjoint' is claimed for Universal2DBox (engine M part)"]
OUTSIDE = ["rotated boxes in general position: sin/cos have no bit-precise semantics in CBMC or z3, so invariance under "
           "rigid motion and the clip area for arbitrary angles are not claimed",
           "non-grid coordinates"]
KANI_MODULES = ["c08_geometry", "c19_bbox"]
B = "similari::utils::bbox::"
KANI = [
    KH("c08_geometry::c08_bbox_intersection_grid", "quick", 1500,
       "BoundingBox::intersection = exact overlap area; symmetric; 0 <=> no overlap",
       "left/top k/4 in [-16,16], width/height k/4 in (0,16]", [B + "BoundingBox::intersection"]),
    KH("c08_geometry::c08_bbox_iou_small", "quick", 900,
       "BoundingBox IoU = I/(A1+A2-I) bit-exactly, in [0,1], symmetric, 1 for identical boxes, 0 <=> disjoint, None for a missing side",
       "left/top k/4 in [-1.5,1.5], width/height k/4 in (0,1.5]", [B + "BoundingBox::calculate_metric_object"]),
    KH("c08_geometry::c08_bbox_iou_grid", "thorough", 2400,
       "BoundingBox IoU = I/(A1+A2-I) bit-exactly, in [0,1], symmetric, 1 for identical boxes, 0 <=> disjoint, None for a missing side",
       "left/top k/4 in [-4,4], width/height k/4 in (0,4]", [B + "BoundingBox::calculate_metric_object"]),
    KH("c08_geometry::c08_too_far_sound_grid", "quick", 1800,
       "too_far never rejects overlapping axis-aligned boxes; symmetric; false for a box with itself",
       "left/top k/4 in [-4,4], width/height k/2 in (0,4], exact aspects", [B + "Universal2DBox::too_far", B + "Universal2DBox::get_radius"]),
    KH("c19_bbox::c19_vertices_far_small", "quick", 900,
       "polygon vertices of tiny boxes far from the origin are exact in f64 (the intersection of such boxes is computed from them)",
       "xc = 8192 + k/4, yc = -4096 + k/4, height m/2048 (m 1..8), aspect 1..4", [B + "Polygon::from(&Universal2DBox)"]),
]

# ===================================================================== engine M: structure of the rotated-box pipeline
import z3
from mir_engine import MQ
from mirlib import *

EXPLANATION += (" Engine M (bounded symbolic execution of the MIR with z3): Universal2DBox::intersection is 0 exactly for pairs the "
                "pre-filter rejects and otherwise the area of the clip of the two polygons generated from the boxes' CURRENT "
                "centre / angle / aspect / height (angle None treated as 0) - a stale vertex cache carried by an argument is "
                "never trusted, the arguments are not modified; the IoU wrappers of Universal2DBox and "
                "VisualObservationAttributes return None exactly when the intersection is 0 (or a box is missing) and "
                "intersection / (area1 + area2 - intersection) otherwise. Polygon generation, clipping and polygon area are "
                "uninterpreted here (vertex formula: C19; clip on rotated boxes: outside).")
ASSUMPTIONS += ["M: Polygon::from(&box), sutherland_hodgman_clip and unsigned_area are uninterpreted functions of their arguments; too_far an arbitrary Boolean; angles None or from {0,.5,1,2.5,-.75,7}; intersection values from the exact grid {0,.5,1,3,8}, box sizes from {1,2,4} x {.5,1,2}"]


def _geo_calls(P):
    def box_key(vm, b):
        while isinstance(b, Ref):
            b = vm.deref(b)
        f = lambda n: fld(P, b, 'Universal2DBox', n)
        ang = f('angle')
        return (repr(fp_plain(f('xc'))), repr(fp_plain(f('yc'))), repr(fp_plain(ang.fields[0])) if ang.variant == 1 else None, repr(f('aspect')), repr(f('height')))

    def poly_from(vm, cal, args):
        k = box_key(vm, args[0])
        vm.notes.setdefault('poly_from', []).append(k)
        return Opaque('Polygon', ('poly', k))

    def clip(vm, cal, args):
        a, b = args
        while isinstance(a, Ref):
            a = vm.deref(a)
        while isinstance(b, Ref):
            b = vm.deref(b)
        vm.notes.setdefault('clips', []).append((a.tag, b.tag))
        return Opaque('Polygon', ('clip', a.tag, b.tag))

    def area(vm, cal, args):
        a = args[0]
        while isinstance(a, Ref):
            a = vm.deref(a)
        vm.notes.setdefault('areas', []).append(a.tag)
        return vm.notes['clip_area']

    def too_far(vm, cal, args):
        return vm.notes['too_far']
    return {('Polygon', 'From', 'from'): poly_from, (None, None, 'sutherland_hodgman_clip'): clip, ('Polygon', 'Area', 'unsigned_area'): area,
            ('Universal2DBox', None, 'too_far'): too_far}


def _sym_ubox(vm, P, tag):
    has_angle = vm.choose_n(2, "%s angle given" % tag) == 0
    # angles from an exact grid (equal and different angles, negative, beyond pi): anything a changed implementation computes
    # from them with + - * / floor abs is folded exactly; sin / cos stay uninterpreted
    ang = grid_f32(vm, tag + '_angle', [0.0, 0.5, 1.0, 2.5, -0.75, 7.0])
    xc, yc = vm.fresh('f32', tag + '_xc'), vm.fresh('f32', tag + '_yc')
    vm.assume(z3.And(fp_in(xc, -1.0e4, 1.0e4), fp_in(yc, -1.0e4, 1.0e4)))
    asp = grid_f32(vm, tag + '_aspect', [0.5, 1.0, 2.0])
    h = grid_f32(vm, tag + '_height', [1.0, 2.0, 4.0])
    stale = vm.choose_n(2, "%s carries a vertex cache" % tag) == 0
    cache = SOME(Opaque('Polygon', ('stale', tag))) if stale else NONE
    return Adt('Universal2DBox', 0, (xc, yc, SOME(ang) if has_angle else NONE, asp, h, f32(1.0), cache)), dict(has_angle=has_angle, ang=ang, xc=xc, yc=yc, asp=asp, h=h, stale=stale)


def q_ubox_intersection(vm, P):
    fn = P.impl_methods[('Universal2DBox', None, 'intersection')][0][0]
    l, li = _sym_ubox(vm, P, 'l')
    r, ri = _sym_ubox(vm, P, 'r')
    far = vm.fresh('bool', 'too_far')
    ca = f_to(grid_f32(vm, 'clip_area', [0.0, 0.5, 1.0, 3.0, 8.0]), F64)
    vm.notes.update(too_far=far, clip_area=ca)
    lc, rc = Cell(l, 'l'), Cell(r, 'r')
    res = vm.exec_fn(fn, [Ref(lc), Ref(rc)], {})
    vm.check(BOOL(lc.v is l and rc.v is r), "the arguments are not modified")
    if vm.branch(far):
        vm.check(f_eq(res, z3.FPVal(0.0, F64)), "pairs rejected by the pre-filter have intersection 0")
        return
    def key(i):
        return (repr(fp_plain(i['xc'])), repr(fp_plain(i['yc'])), repr(fp_plain(i['ang'])) if i['has_angle'] else repr(z3.FPVal(0.0, F32)), repr(i['asp']), repr(i['h']))
    clips = vm.notes.get('clips', [])
    vm.check(BOOL(len(clips) == 1), "one clip of the two polygons")
    if len(clips) == 1:
        a, b = clips[0]
        vm.check(BOOL(a == ('poly', key(li)) and b == ('poly', key(ri))),
                 "the clipped polygons are generated from the boxes' current centre / angle (None = 0) / aspect / height, never from a cached copy")
        vm.check(BOOL(vm.notes.get('areas', []) == [('clip', a, b)]), "the result is the area of that clip")
    vm.check(z3.fpToIEEEBV(fp_plain(res)) == z3.fpToIEEEBV(fp_plain(ca)), "intersection = area of the clip polygon")


def _mk_iou_wrapper(kind):
    def q(vm, P):
        inter = f_to(grid_f32(vm, 'intersection', [0.0, 0.5, 1.0, 3.0, 8.0]), F64)

        def isect(vm_, cal, args):
            vm_.notes['isect_calls'] = vm_.notes.get('isect_calls', 0) + 1
            return inter
        vm.spec_calls[('Universal2DBox', None, 'intersection')] = isect
        boxes = []
        for tag in ('l', 'r'):
            asp = grid_f32(vm, tag + '_aspect', [0.5, 1.0, 2.0])
            h = grid_f32(vm, tag + '_height', [1.0, 2.0, 4.0])
            boxes.append((Adt('Universal2DBox', 0, (f32(1.0), f32(2.0), NONE, asp, h, f32(1.0), NONE)), asp, h))
        present = [vm.choose_n(2, "left present") == 0, vm.choose_n(2, "right present") == 0]
        if kind == 'ubox':
            fn = P.impl_methods[('Universal2DBox', 'ObservationAttributes', 'calculate_metric_object')][0][0]
            vals = [SOME(Ref(Cell(b[0], 'b'))) if p else NONE for b, p in zip(boxes, present)]
            has_box = [True, True]
        else:
            fn = P.impl_methods[('VisualObservationAttributes', 'ObservationAttributes', 'calculate_metric_object')][0][0]
            has_box = [vm.choose_n(2, "left box kept") == 0, vm.choose_n(2, "right box kept") == 0]
            vals = [SOME(Ref(Cell(mk(P, 'VisualObservationAttributes', bbox=SOME(b[0]) if hb else NONE, visual_quality=f32(0.5), own_area_percentage=NONE), 'v'))) if p else NONE
                    for b, p, hb in zip(boxes, present, has_box)]
        r = vm.exec_fn(fn, [Ref(Cell(vals[0], 'lo')), Ref(Cell(vals[1], 'ro'))], {})
        if not (all(present) and all(has_box)):
            vm.check(BOOL(r.variant == 0), "no IoU when a box is missing")
            return
        zero = f_eq(inter, z3.FPVal(0.0, F64))
        vm.check(z3.If(zero, BOOL(r.variant == 0), BOOL(r.variant == 1)), "IoU is absent exactly when the boxes do not overlap")
        if r.variant == 1:
            areas = [f_mul(f_mul(b[2], b[2]), b[1]) for b in boxes]
            union = f_sub(f_to(f_add(areas[0], areas[1]), F64), inter)
            want = f_to(f_div(inter, union), F32)
            vm.check(z3.fpToIEEEBV(fp_plain(r.fields[0])) == z3.fpToIEEEBV(fp_plain(want)), "IoU = intersection / (area1 + area2 - intersection)")
    return q


GEO_REPLAY = r'''
use similari::track::ObservationAttributes;
use similari::trackers::visual_sort::observation_attributes::VisualObservationAttributes;
use similari::utils::bbox::{BoundingBox, Universal2DBox};

fn overlap(a: (f32, f32, f32, f32), b: (f32, f32, f32, f32)) -> f64 {
    let w = (a.0 + a.2).min(b.0 + b.2) - a.0.max(b.0);
    let h = (a.1 + a.3).min(b.1 + b.3) - a.1.max(b.1);
    if w > 0.0 && h > 0.0 { (w * h) as f64 } else { 0.0 }
}

#[test]
fn replay() {
    // axis-aligned boxes (angle None, Some(0), boxes whose vertex cache was generated BEFORE they were moved / turned)
    let rects = [(0.0f32, 0.0f32, 10.0f32, 10.0f32), (5.0, 5.0, 10.0, 10.0), (2.0, 2.0, 4.0, 4.0), (100.0, 0.0, 5.0, 5.0), (90.0, 90.0, 5.0, 5.0), (0.0, 0.0, 100.0, 100.0), (9.0, 0.0, 40.0, 2.0)];
    for a in &rects { for b in &rects { for mode in 0..4 {
        let mut ua: Universal2DBox = BoundingBox::new(a.0, a.1, a.2, a.3).into();
        let mut ub: Universal2DBox = BoundingBox::new(b.0, b.1, b.2, b.3).into();
        match mode {
            1 => { ua = ua.rotate(0.0); ub = ub.rotate(0.0); }
            2 => { // cache generated at another place, then the box is moved to where it belongs
                ua = Universal2DBox::new(ua.xc + 500.0, ua.yc, Some(0.0), ua.aspect, ua.height); ua.gen_vertices(); ua.xc -= 500.0; }
            3 => { // cache generated at another angle, then the box is turned back
                ub = ub.rotate(1.0); ub.gen_vertices(); ub.rotate_mut(0.0); }
            _ => {}
        }
        let exact = overlap(*a, *b);
        let got = Universal2DBox::intersection(&ua, &ub);
        assert!((got - exact).abs() <= 1e-3 * (1.0 + exact), "intersection of {:?} and {:?} (mode {}): {} vs {}", a, b, mode, got, exact);
        let iou = Universal2DBox::calculate_metric_object(&Some(&ua), &Some(&ub));
        let iou_r = Universal2DBox::calculate_metric_object(&Some(&ub), &Some(&ua));
        if exact == 0.0 { assert!(iou.is_none() && iou_r.is_none(), "IoU absent exactly when the boxes do not overlap: {:?} {:?} mode {}", a, b, mode); } else {
            let want = exact / ((a.2 * a.3 + b.2 * b.3) as f64 - exact);
            assert!((iou.unwrap() as f64 - want).abs() < 1e-3 && (iou_r.unwrap() as f64 - want).abs() < 1e-3, "IoU of {:?} {:?} mode {}", a, b, mode);
        }
        assert_eq!(Universal2DBox::too_far(&ua, &ub), Universal2DBox::too_far(&ub, &ua), "too_far symmetric");
        if exact > 0.0 { assert!(!Universal2DBox::too_far(&ua, &ub), "too_far must not reject overlapping boxes"); }
        let (va, vb) = (VisualObservationAttributes::new(0.5, ua.clone()), VisualObservationAttributes::new(0.5, ub.clone()));
        assert_eq!(VisualObservationAttributes::calculate_metric_object(&Some(&va), &Some(&vb)).is_none(), exact == 0.0);
    } } }
    // tiny boxes far from the origin: vertices need f64 (centre 8192.25 +- multiples of 2^-12 is not representable in f32)
    {
        let u = 1.0f32 / 2048.0;
        let a = Universal2DBox::new(8192.25, -4096.5, None, 1.0, 3.0 * u);
        let b = Universal2DBox::new(8192.25 + 2.0 * u, -4096.5, None, 1.0, 3.0 * u);   // shifted by 2u = 2^-10 (one f32 ulp here)
        let want = (1.0f64 / 2048.0) * (3.0f64 / 2048.0);
        let got = Universal2DBox::intersection(&a, &b);
        assert!((got - want).abs() <= 1e-12, "tiny boxes far from the origin: intersection {} vs {}", got, want);
        let whole = Universal2DBox::intersection(&a, &a);
        assert!((whole - 9.0 / (2048.0f64 * 2048.0)).abs() <= 1e-12, "a tiny box far from the origin intersected with itself: {}", whole);
    }
    // vertex cache: regenerated from the current fields, never handed out stale
    for (dx, turn) in [(0.0f32, 0.9f32), (5.0, 0.0), (3.0, 1.3)] {
        let mut b = Universal2DBox::new(1.0, 2.0, Some(0.4), 2.0, 3.0);
        b.gen_vertices();
        b.xc += dx;
        b.rotate_mut(0.4 + turn);
        let fresh = Universal2DBox::new(1.0 + dx, 2.0, Some(0.4 + turn), 2.0, 3.0);
        assert_eq!(b.get_vertices(), fresh.get_vertices(), "get_vertices describes the box as it is now (moved by {}, turned by {})", dx, turn);
        b.gen_vertices();
        assert_eq!(b.get_cached_vertices().as_ref().unwrap(), &fresh.get_vertices(), "gen_vertices replaces a stale cache (moved by {}, turned by {})", dx, turn);
        let other = Universal2DBox::new(2.0, 2.0, Some(0.1), 1.0, 2.0);
        let a1 = similari::utils::clipping::sutherland_hodgman_clip(&b.get_vertices(), &other.get_vertices());
        let a2 = b.clone().sutherland_hodgman_clip(other.clone());
        assert_eq!(a1, a2, "the clip method uses the current polygons");
    }
    // both boxes turned together about the origin: area and IoU are unchanged (rigid-motion invariance), also for EQUAL angles
    for a in &rects { for b in &rects { for theta in [0.3f32, 0.6, 1.0, std::f32::consts::FRAC_PI_4, 2.5, -0.7] {
        let turn = |r: &(f32, f32, f32, f32)| {
            let (cx, cy) = (r.0 + r.2 / 2.0, r.1 + r.3 / 2.0);
            Universal2DBox::new(cx * theta.cos() - cy * theta.sin(), cx * theta.sin() + cy * theta.cos(), Some(theta), r.2 / r.3, r.3)
        };
        let (ua, ub) = (turn(a), turn(b));
        let exact = overlap(*a, *b);
        let got = Universal2DBox::intersection(&ua, &ub);
        assert!((got - exact).abs() <= 2e-2 * (1.0 + exact), "intersection of {:?} and {:?} both turned by {}: {} vs {}", a, b, theta, got, exact);
        let iou = Universal2DBox::calculate_metric_object(&Some(&ua), &Some(&ub));
        if exact == 0.0 { assert!(iou.is_none() || iou.unwrap() < 1e-3, "disjoint boxes turned together stay disjoint: {:?} {:?} {}", a, b, theta); } else {
            let want = exact / ((a.2 * a.3 + b.2 * b.3) as f64 - exact);
            assert!((iou.unwrap() as f64 - want).abs() < 2e-2, "IoU of {:?} {:?} both turned by {}: {:?} vs {}", a, b, theta, iou, want);
        }
    } } }
}
'''


def _replay_geo(cex, v, vm):
    return GEO_REPLAY


U = "similari::utils::bbox::Universal2DBox::"
MIR = [
    MQ("c08_ubox_intersection", "quick", q_ubox_intersection, "Universal2DBox::intersection = 0 when too far, else area of the clip of the polygons of the CURRENT boxes; arguments untouched; stale caches never trusted",
       "free centres / angles, sizes from exact grids, angle and vertex cache present or absent on either box", [U + "intersection", U + "gen_vertices", U + "rotate_mut", "Clone for Universal2DBox"],
       spec_calls=_geo_calls, replay=_replay_geo),
    MQ("c08_iou_wrapper_ubox", "quick", _mk_iou_wrapper('ubox'), "Universal2DBox IoU: None iff intersection 0 or a box missing, else I/(A1+A2-I)", "intersection and sizes from exact grids",
       ["similari::utils::bbox::Universal2DBox::calculate_metric_object"], replay=_replay_geo),
    MQ("c08_iou_wrapper_visual", "quick", _mk_iou_wrapper('visual'), "VisualObservationAttributes IoU: None iff intersection 0 or a box missing, else I/(A1+A2-I)", "same",
       ["similari::trackers::visual_sort::observation_attributes::VisualObservationAttributes::calculate_metric_object"], replay=_replay_geo),
]


# ---- vertex generation: from the CURRENT fields, whatever the cache holds (engine M; sin / cos uninterpreted but functional)
def q_polygon_from(vm, P):
    fn = [f for (key, lst) in P.impl_methods.items() for (f, i) in lst if key[0] == 'Polygon' and key[1] == 'From' and key[2] == 'from' and 'Universal2DBox' in (i.get('trait_full') or '')][0]
    b, bi = _sym_ubox(vm, P, 'b')
    r = vm.exec_fn(fn, [Ref(Cell(b, 'b'))], {})
    vm.notes.update(kind='polygon_from')
    # geo::Polygon::new(LineString(vec![..4 coords..]), vec![]) - the model keeps the exterior as given
    coords = vm.notes.get('polygon_new')
    vm.check(BOOL(coords is not None and len(coords) == 4), "the polygon is built from four vertices (never copied from a cache)")
    if not coords or len(coords) != 4:
        return
    ang = f_to(bi['ang'], F64) if bi['has_angle'] else z3.FPVal(0.0, F64)
    from models import _uf
    c, s = _uf('cos', F64)(fp_plain(ang)), _uf('sin', F64)(fp_plain(ang))
    h, a = f_to(bi['h'], F64), f_to(bi['asp'], F64)
    hw = f_div(f_mul(h, a), z3.FPVal(2.0, F64))
    hh = f_div(h, z3.FPVal(2.0, F64))
    nhw = f_un('neg', hw)
    r1x = f_sub(f_mul(nhw, c), f_mul(hh, s))
    r1y = f_add(f_mul(nhw, s), f_mul(hh, c))
    r2x = f_sub(f_mul(hw, c), f_mul(hh, s))
    r2y = f_add(f_mul(hw, s), f_mul(hh, c))
    x, y = f_to(bi['xc'], F64), f_to(bi['yc'], F64)
    want = [(f_add(x, r1x), f_add(y, r1y)), (f_add(x, r2x), f_add(y, r2y)), (f_sub(x, r1x), f_sub(y, r1y)), (f_sub(x, r2x), f_sub(y, r2y))]
    for k, (co, (wx, wy)) in enumerate(zip(coords, want)):
        gx, gy = co.fields[0], co.fields[1]
        vm.check(z3.And(z3.fpToIEEEBV(fp_plain(gx)) == z3.fpToIEEEBV(fp_plain(wx)), z3.fpToIEEEBV(fp_plain(gy)) == z3.fpToIEEEBV(fp_plain(wy))),
                 "vertex %d = centre +- the half-size vector rotated by the box angle (computed in f64 from the current fields)" % k)


def q_gen_vertices(vm, P):
    fn = P.impl_methods[('Universal2DBox', None, 'gen_vertices')][0][0]
    b, bi = _sym_ubox(vm, P, 'b')
    cell = Cell(b, 'b')
    vm.exec_fn(fn, [Ref(cell)], {})
    cache = fld(P, cell.v, 'Universal2DBox', '_vertex_cache')
    made = vm.notes.get('poly_from', [])
    if bi['has_angle']:
        vm.check(BOOL(cache.variant == 1 and isinstance(cache.fields[0], Opaque) and cache.fields[0].tag[0] == 'poly' and len(made) == 1 and cache.fields[0].tag[1] == made[0]),
                 "gen_vertices stores the polygon of the box as it is NOW (a cache left from before a change is replaced)")
        want = (repr(fp_plain(bi['xc'])), repr(fp_plain(bi['yc'])), repr(fp_plain(bi['ang'])), repr(bi['asp']), repr(bi['h']))
        vm.check(BOOL(bool(made) and made[0] == want), "... generated from the current centre / angle / aspect / height")
    for n in ('xc', 'yc', 'angle', 'aspect', 'height', 'confidence'):
        i = P.decls.field_index('Universal2DBox', n)
        vm.check(BOOL(cell.v.fields[i] is b.fields[i]), "gen_vertices changes nothing but the cache")


def _poly_calls(P):
    base = _geo_calls(P)
    base = {k: v for k, v in base.items() if k != ('Polygon', 'From', 'from')}

    def polygon_new(vm, cal, args):
        ext = args[0]
        while isinstance(ext, Ref):
            ext = vm.deref(ext)
        pts = ext.fields[0] if isinstance(ext, Adt) else ext
        while isinstance(pts, Ref):
            pts = vm.deref(pts)
        vm.notes['polygon_new'] = list(pts.items)
        return Opaque('Polygon', ('new', id(pts)))
    base[('Polygon', None, 'new')] = polygon_new
    return base


MIR += [
    MQ("c08_polygon_from", "quick", q_polygon_from, "Polygon::from(&box): four vertices = centre +- half-size vector rotated by the angle (None = 0), computed in f64 from the current fields; a stale cache is never returned",
       "free centre, angle None or from {0,.5,1,2.5,-.75,7}, sizes from exact grids, vertex cache present or absent; sin / cos uninterpreted but functional",
       ["similari::utils::bbox::From<&Universal2DBox> for Polygon<f64>"], spec_calls=_poly_calls, replay=_replay_geo),
    MQ("c08_gen_vertices", "quick", q_gen_vertices, "gen_vertices regenerates the cache from the current fields (replacing a stale one) and changes nothing else",
       "same box family, cache present or absent", [U + "gen_vertices"], spec_calls=_geo_calls, replay=_replay_geo),
]
