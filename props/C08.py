from kani_engine import KH

EXPLANATION = ("Bounded solver-based checking (Kani/CBMC) of the real axis-aligned geometry on the exact quarter-integer grid "
               "(all sums/products exact, oracle in integer arithmetic): BoundingBox::intersection = exact overlap area, "
               "symmetric, zero exactly when disjoint; BoundingBox IoU = I/(A1+A2-I), in [0,1], symmetric, 1 on identical "
               "boxes; Universal2DBox::too_far never rejects overlapping axis-aligned boxes, is symmetric and false for a box "
               "with itself. Unwinding assertions on; cover witness; native replay of counterexamples.")
ASSUMPTIONS = ["coordinates k/4 in [-16,16], sizes k/4 in (0,16] (intersection); [-4,4] / (0,4] for IoU and too_far",
               "too_far: only pairs whose aspect = w/h is exact in f32 (w = aspect*h bit-exactly)",
               "BoundingBox::calculate_metric_object returns Some(0.0) for disjoint boxes (pinned by the repo's own test "
               "bbox::tests::test_iou); 'absent exactly when disjoint' is claimed for Universal2DBox (engine M part)"]
OUTSIDE = ["rotated boxes in general position: sin/cos have no bit-precise semantics in CBMC or z3, so invariance under "
           "rigid motion and the clip area for arbitrary angles are not claimed",
           "non-grid coordinates"]
KANI_MODULES = ["c08_geometry"]
B = "similari::utils::bbox::"
KANI = [
    KH("c08_geometry::c08_bbox_intersection_grid", "quick", 1500,
       "BoundingBox::intersection = exact overlap area; symmetric; 0 <=> no overlap",
       "left/top k/4 in [-16,16], width/height k/4 in (0,16]", [B + "BoundingBox::intersection"]),
    KH("c08_geometry::c08_bbox_iou_small", "quick", 900,
       "BoundingBox IoU = I/(A1+A2-I) bit-exactly, in [0,1], symmetric, 1 for identical boxes, 0 <=> disjoint, None for a missing side",
       "left/top k/4 in [-1.5,1.5], width/height k/4 in (0,1.5]", [B + "BoundingBox::calculate_metric_object"]),
    KH("c08_geometry::c08_bbox_iou_grid", "thorough", 2400,
       "BoundingBox IoU = I/(A1+A2-I) bit-exactly, in [0,1], symmetric, 1 for identical boxes, 0 <=> disjoint, None for a missing side",
       "left/top k/4 in [-4,4], width/height k/4 in (0,4]", [B + "BoundingBox::calculate_metric_object"]),
    KH("c08_geometry::c08_too_far_sound_grid", "quick", 1800,
       "too_far never rejects overlapping axis-aligned boxes; symmetric; false for a box with itself",
       "left/top k/4 in [-4,4], width/height k/2 in (0,4], exact aspects", [B + "Universal2DBox::too_far", B + "Universal2DBox::get_radius"]),
]
