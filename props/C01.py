"""C01 - tracker output contract (engine M), component level: the pieces the record of a detection is made from."""
import z3
from mir_engine import MQ
from mirlib import *
import C03 as _c03
import C13 as _c13
import C02 as _c02
import C12 as _c12
import C04 as _c04

EXPLANATION = ("Bounded symbolic execution of the MIR with z3, component level: (a) the track -> record conversions of both "
               "trackers copy id, custom object id, scene, epoch of the last update, length and the LAST observed / predicted "
               "box (voting type: that of the last attachment, Positional when none); (b) merging a detection's attributes "
               "into its track takes the detection's epoch and custom object id - also when it has none - so the record echoes "
               "the detection, not an older one; the creating update stamps scene / epoch / custom id; (c) the id source of "
               "Sort and VisualSort is a strictly increasing counter (an id is never issued twice by one instance); (d) both "
               "positional and appearance voting give every detection of the stream exactly one answer - a track or itself - "
               "and no track to two detections. One record per detection in submission order follows from (d) and the result "
               "loop of predict, which is not executed as a whole (outside).")
ASSUMPTIONS = ["the bounds of the cross-listed obligations (C13 record conversions: 1 and 3 history entries; C02 / C12 voting: <= 2 detections x <= 2 tracks)",
               "track id counter < 2^64 - 1 (the increment panics on overflow in dev builds and wraps in release builds: noted, outside)"]
OUTSIDE = ["the predict loops of the four trackers as a whole (store threads, random candidate ids)", "batch variants' shared counter under concurrent voting threads (no engine of this family runs threads)",
           "collisions of the random 64-bit candidate ids"]


def _mk_attr_merge(kind):
    ty = 'SortAttributes' if kind == 'sort' else 'VisualAttributes'
    mkattrs = _c03.sort_attrs if kind == 'sort' else _c03.visual_attrs

    def q(vm, P):
        fn = P.impl_methods[(ty, 'TrackAttributes', 'merge')][0][0]
        opts = Cell(sort_options(P, vm, [], usize(5)), 'opts')
        ci = P.decls.field_index(ty, 'custom_object_id')

        def with_cid(a, tag):
            has = vm.choose_n(2, "%s custom id given" % tag) == 0
            cid = vm.fresh(64, tag + '_custom_id', signed=True)
            return Adt(a.ty, 0, tuple((SOME(cid) if has else NONE) if i == ci else f for i, f in enumerate(a.fields))), (cid if has else None)
        trk, tcid = with_cid(mkattrs(P, vm, Ref(opts), vm.fresh(64, 'scene_t'), vm.fresh(64, 'epoch_t'), boxes=2, tag=1), 'track')
        det, dcid = with_cid(mkattrs(P, vm, Ref(opts), vm.fresh(64, 'scene_d'), vm.fresh(64, 'epoch_d'), boxes=1, tag=2), 'det')
        tc, dc = Cell(trk, 'track'), Cell(det, 'det')
        vm.notes.update(kind=kind, t_has=tcid is not None, d_has=dcid is not None)
        r = vm.exec_fn(fn, [Ref(tc), Ref(dc)], {})
        vm.check(BOOL(r.variant == 0), "attribute merge succeeds")
        a = tc.v
        vm.check(fld(P, a, ty, 'last_updated_epoch').e == fld(P, det, ty, 'last_updated_epoch').e, "the track takes the detection's epoch")
        co = fld(P, a, ty, 'custom_object_id')
        if dcid is None:
            vm.check(BOOL(co.variant == 0), "a detection without custom object id leaves none on the track (the record echoes the detection)")
        else:
            vm.check(BOOL(co.variant == 1), "the track takes the detection's custom object id")
            if co.variant == 1:
                vm.check(co.fields[0].e == dcid.e, "the track takes the detection's custom object id")
        for name in ('scene_id', 'track_length', 'predicted_boxes', 'observed_boxes'):
            i = P.decls.field_index(ty, name)
            vm.check(BOOL(a.fields[i] is trk.fields[i]), "attribute merge leaves %s alone" % name)
        vm.check(BOOL(dc.v is det), "the detection's attributes are not modified")
    return q


def _mk_gen_id(kind):
    ty = 'Sort' if kind == 'sort' else 'VisualSort'

    def q(vm, P):
        fn = P.impl_methods[(ty, None, 'gen_track_id')][0][0]
        names = P.decls.structs[ty]
        tid = vm.fresh(64, 'track_id_counter')
        vm.assume(tid.e != 2 ** 64 - 1)
        t = Cell(Adt(ty, 0, tuple(tid if n == 'track_id' else Opaque(n, 'x') for n in names)), 'tracker')
        before = t.v
        a = vm.exec_fn(fn, [Ref(t)], {})
        b = vm.exec_fn(fn, [Ref(t)], {}) if vm.branch(tid.e != 2 ** 64 - 2) else None
        cnt = fld(P, t.v, ty, 'track_id')
        vm.check(z3.UGT(a.e, tid.e), "a new id is greater than every id issued before (all of which are <= the counter)")
        if b is not None:
            vm.check(z3.UGT(b.e, a.e), "ids strictly increase")
            vm.check(z3.UGE(cnt.e, b.e), "the counter covers every id issued")
        ti = names.index('track_id')
        vm.check(BOOL(all(x is y for i, (x, y) in enumerate(zip(before.fields, t.v.fields)) if i != ti)), "generating an id changes only the counter")
    return q


MERGE_REPLAY = r'''
use similari::track::TrackAttributes;
use similari::trackers::sort::simple_api::Sort;
use similari::trackers::sort::{PositionalMetricType, SortAttributes, SortAttributesOptions};
use similari::trackers::visual_sort::track_attributes::VisualAttributes;
use similari::utils::bbox::BoundingBox;
use std::sync::Arc;
#[test]
fn replay() {
    let opts = Arc::new(SortAttributesOptions::default());
    for t_cid in [None, Some(42i64)] { for d_cid in [None, Some(7i64)] {
        let mut t = SortAttributes::new(opts.clone());
        t.custom_object_id = t_cid; t.last_updated_epoch = 3; t.scene_id = 5; t.track_length = 9;
        let mut d = SortAttributes::new(opts.clone());
        d.custom_object_id = d_cid; d.last_updated_epoch = 4; d.scene_id = 5;
        t.merge(&d).unwrap();
        assert_eq!((t.custom_object_id, t.last_updated_epoch, t.scene_id, t.track_length), (d_cid, 4, 5, 9), "SortAttributes::merge echoes the detection");
        let mut t = VisualAttributes::new(opts.clone());
        t.custom_object_id = t_cid; t.last_updated_epoch = 3; t.scene_id = 5; t.track_length = 9;
        let mut d = VisualAttributes::new(opts.clone());
        d.custom_object_id = d_cid; d.last_updated_epoch = 4; d.scene_id = 5;
        t.merge(&d).unwrap();
        assert_eq!((t.custom_object_id, t.last_updated_epoch, t.scene_id, t.track_length), (d_cid, 4, 5, 9), "VisualAttributes::merge echoes the detection");
    } }
    // through the tracker: records echo each detection's own custom id, ids of new tracks strictly increase
    let mut s = Sort::new(1, 2, 5, PositionalMetricType::IoU(0.3), 0.0, None, 1.0 / 20.0, 1.0 / 160.0);
    let mut last_new = 0u64;
    for (k, cid) in [Some(42i64), None, Some(7), None].iter().enumerate() {
        let r = s.predict(&[(BoundingBox::new(0.0, 0.0, 10.0, 20.0).into(), *cid), (BoundingBox::new(1000.0 * (k as f32 + 1.0), 0.0, 10.0, 20.0).into(), Some(k as i64))]);
        assert_eq!(r.len(), 2);
        assert_eq!(r[0].custom_object_id, *cid, "the record echoes the detection's custom object id (frame {})", k);
        assert_eq!(r[1].custom_object_id, Some(k as i64));
        assert_eq!(r[0].length, k + 1);
        assert!(r[1].id > last_new && r[1].id != r[0].id, "a new track gets an id never issued before");
        last_new = r[1].id;
    }
}
'''


def _replay_merge(cex, v, vm):
    return MERGE_REPLAY


MIR = [
    MQ("c01_attr_merge_sort", "quick", _mk_attr_merge('sort'), "SortAttributes::merge: the track takes the detection's epoch and custom object id (also None)", "symbolic ids / epochs, custom id present or absent on either side",
       ["similari::trackers::sort::SortAttributes::merge"], replay=_replay_merge),
    MQ("c01_attr_merge_visual", "quick", _mk_attr_merge('visual'), "VisualAttributes::merge: same", "same",
       ["similari::trackers::visual_sort::track_attributes::VisualAttributes::merge"], replay=_replay_merge),
    MQ("c01_gen_track_id_sort", "quick", _mk_gen_id('sort'), "Sort::gen_track_id is a strictly increasing counter", "any counter value < 2^64 - 1",
       ["similari::trackers::sort::simple_api::Sort::gen_track_id"], replay=_replay_merge),
    MQ("c01_gen_track_id_visual", "quick", _mk_gen_id('visual'), "VisualSort::gen_track_id is a strictly increasing counter", "any counter value < 2^64 - 1",
       ["similari::trackers::visual_sort::simple_api::VisualSort::gen_track_id"], replay=_replay_merge),
]
MIR += [q for q in _c13.MIR if q.name.startswith('c13_record_')]
MIR += [q for q in _c04.MIR if q.name.startswith('c04_update_')]
MIR += [q for q in _c02.MIR if q.name in ('c02_assign_c2_t2_r2',)]
MIR += [q for q in _c12.MIR if q.name in ('c12_voting_q2_t1_r2', 'c12_voting_q1_t2_r2', 'c17_bestfit_three', 'c17_bestfit_contest')]


# one whole predict call from an arbitrary valid tracker state (inductive step), see props/stepsort.py
import stepsort as _step
MIR += [q for q in _step.MIR]
EXPLANATION += " A whole Sort::predict_with_scene call is also executed from MIR on a symbolic tracker state (props/stepsort.py): real TrackStore code over the shard-map store model with the real worker loop, real builders / Track::add_observation / merge / SortMetric / SortAttributes / SortVoting code, kuhn_munkres by contract, geometry numbers and Kalman prediction uninterpreted - one record per detection in submission order echoing box, custom id, scene and the scene's new epoch; continuations only inside the scene, through the gate, for unexpired tracks, forming a maximum-weight one-to-one assignment; new ids = counter + k; lengths = detections attached; tracks that were not continued unchanged; only this scene's epoch advances. One step from an arbitrary valid state is the inductive step of the history statements."
ASSUMPTIONS += ['predict step: <= 2 detections, <= 2 stored tracks (scene, last epoch, length, ids, custom ids symbolic; invariant: issued ids <= counter, last epoch <= scene epoch), 1 shard (thorough 2), IoU mode with threshold from {.125,.25,.5}, IoU values from {.125,.25,.5,.75} or no overlap, confidences {.25,1}, min confidence .5, history length 2, auto-waste counter != 0 (no collection in this call); candidate ids random 64-bit values assumed distinct from all ids in use and non-zero; a FRESH Kalman filter initiated and updated with the same box returns that box (innovation exactly 0); workers run when the caller blocks; HashMap iteration in insertion order']


# one whole VisualSort predict call from an arbitrary valid tracker state, see props/stepvisual.py
import stepvisual as _stepv
MIR += [q for q in _stepv.MIR if q.name in ('step_visual_d1_t0', 'step_visual_d1_t1_lite', 'step_visual_d0_t1')]
EXPLANATION += ' A whole VisualSort::predict_with_scene call is also executed from MIR on a symbolic tracker state (props/stepvisual.py: store model with the real worker loop, real builders / Track::add_observation / merge / VisualMetric::{metric, optimize} / VisualVoting / BestFitVoting / SortVoting code; geometry numbers, feature distances, feature packing and Kalman prediction uninterpreted): the decision expected from the symbolic inputs by the rules of the property is compared with the records.'
ASSUMPTIONS += ['VisualSort predict step: <= 1 detection x <= 1 stored track in the quick tier (thorough 2x1, 1x2), 1-2 stored observations with / without features, previous voting type any; IoU + Euclidean mode; thresholds, confidences, qualities, IoU values and feature distances from small exact grids (quick: a reduced option grid); own-area thresholds 0 (shares not computed); candidate ids random, assumed distinct; fresh Kalman filter round trip exact; workers run when the caller blocks; HashMap iteration in insertion order']

import C07 as _c07
MIR += [q for q in _c07.MIR if q.name in ('c07_box_initiate_terms',)]   # the state a new track starts from holds the detection's own box (raw angle)
