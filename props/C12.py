"""C12 - VisualSORT: appearance votes first, positional fallback, truthful voting type (engine M)."""
import itertools
import z3
from mir_engine import MQ
from mirlib import *
import C17 as _c17

EXPLANATION = ("Bounded symbolic execution of the MIR of VisualMetric::metric (+ feature_can_be_used, visual_metric, "
               "positional_metric) and of VisualVoting::winners (which runs BestFitVoting::winners, the tee / filter / map "
               "pipelines and SortVoting::winners from MIR; pathfinding::kuhn_munkres by its contract) with z3 deciding every "
               "branch. Metric: all thresholds, qualities, shares, counts and the raw feature distance are free values; the "
               "distance functions and IoU/Kalman numbers are uninterpreted (C16/C08/C07). Voting: the result stream is "
               "symbolic (ids chosen by z3, appearance distances and positional weights from exact grids, min votes and "
               "thresholds symbolic); the oracle is written from the property: appearance claims = >= min_votes distances "
               "within the limit; a claimed track goes to a maximum-weight claimant and is labelled Visual; a loser is never "
               "attached to the contested track and takes no part in positional voting; detections without claims are "
               "assigned by a maximum-weight one-to-one positional assignment among the tracks not taken by appearance and "
               "labelled Positional; everything else starts a new track. The voting type travels update -> merge -> record.")
ASSUMPTIONS = ["metric: one candidate observation x one track observation; box area from {1,4,16}; every option of VisualMetricOptions symbolic; feature distance and every threshold any non-NaN f32; IoU from {0,.125,.25,.5,.75,1}, confidences from {1/16,1/4,1/2,1} / {1/32,1/4,3/4}, Mahalanobis distance from {0,4,11,11.125,20,200} (factors of products / quotients come from exact grids so that changed implementations are decided as well)",
               "voting: <= 2 detections x <= 2 tracks, streams of <= 2 results; ids pairwise distinct and > 0",
               "appearance distances: None or a value of {0,.25,.5,1,2,4}; positional weights: None or a value of {0,.125,.25,.5,.75}; positional threshold from {.125,.25,.5}; max feature distance from {0,.125,.25,.375,.5,.75,1,1.5,2,3,4,16} (every order relation with the distance grid); min votes <= 3",
               "kuhn_munkres returns a maximum-weight assignment (contract); HashMap/HashSet iteration order nondeterministic; into_group_map / tee / sort_by by their documented contracts",
               "ties in weight are accepted either way"]
OUTSIDE = ["whole histories with galleries (the gallery content is C13; the distance numbers C16)", "more than 2 x 2 contests", "vote streams of 3 or 4 results and predict steps with 2 detections or 2 stored tracks (development-only deep tier: they do not finish within the tier budget)"]

DGRID = [0.0, 0.25, 0.5, 1.0, 2.0, 4.0]
WGRID = [0.0, 0.125, 0.25, 0.5, 0.75]
TGRID = [0.125, 0.25, 0.5]
AREAS = [(1.0, 1.0), (1.0, 2.0), (1.0, 4.0)]
F32_MULT = 1000000.0


# ------------------------------------------------------------------ metric gates
def _metric_calls(P):
    def too_far(vm, cal, args):
        return vm.notes['too_far']

    def cmo(vm, cal, args):
        return vm.notes['iou']

    def kf_distance(vm, cal, args):
        return vm.notes['maha']

    def kf_new(vm, cal, args):
        return Opaque('Universal2DBoxKalmanFilter', 'f')

    def dist(vm, cal, args):
        vm.notes['dist_calls'] = vm.notes.get('dist_calls', []) + [cal.method]
        return vm.notes['fdist']
    return {('Universal2DBox', None, 'too_far'): too_far, ('Universal2DBox', 'ObservationAttributes', 'calculate_metric_object'): cmo,
            ('Universal2DBoxKalmanFilter', None, 'distance'): kf_distance, ('Universal2DBoxKalmanFilter', None, 'new'): kf_new,
            (None, None, 'euclidean'): dist, (None, None, 'cosine'): dist}


def _nn(vm, name, lo=None, hi=None):
    x = vm.fresh('f32', name)
    vm.assume(z3.Not(z3.fpIsNaN(x)))
    if lo is not None:
        vm.assume(fp_in(x, lo, hi))
    return x


def _mk_metric(vkind, pkind):
    def q(vm, P):
        from C03 import visual_attrs
        fn = P.impl_methods[('VisualMetric', 'ObservationMetric', 'metric')][0][0]
        vthr = _nn(vm, 'visual_threshold')
        o = dict(visual_max_observations=vm.fresh(64, 'max_obs'), visual_min_votes=vm.fresh(64, 'min_votes'),
                 visual_kind=variant(P, 'VisualSortMetricType', 'Euclidean' if vkind == 'euclid' else 'Cosine', vthr),
                 positional_kind=variant(P, 'PositionalMetricType', 'IoU', _nn(vm, 'iou_thr', 0.0, 1.0)) if pkind == 'iou' else variant(P, 'PositionalMetricType', 'Mahalanobis'),
                 visual_minimal_track_length=vm.fresh(64, 'min_track_length'), visual_minimal_area=_nn(vm, 'min_area'),
                 visual_minimal_quality_use=_nn(vm, 'q_use'), visual_minimal_quality_collect=_nn(vm, 'q_collect'),
                 visual_minimal_own_area_percentage_use=_nn(vm, 'own_use'), visual_minimal_own_area_percentage_collect=_nn(vm, 'own_collect'),
                 positional_min_confidence=grid_f32(vm, 'min_conf', [0.03125, 0.25, 0.75]))
        metric = Cell(mk(P, 'VisualMetric', opts=Ref(Cell(mk(P, 'VisualMetricOptions', **o), 'mopts'))), 'metric')
        # environment answers
        far = vm.fresh('bool', 'too_far')
        has_iou = vm.choose_n(2, "boxes overlap") == 0
        iou = grid_f32(vm, 'iou', [0.0, 0.125, 0.25, 0.5, 0.75, 1.0])
        # Mahalanobis mode divides two floats: distance and confidences come from exact grids there (folded per value)
        maha = grid_f32(vm, 'maha', [0.0, 4.0, 11.0, 11.125, 20.0, 200.0]) if pkind == 'maha' else _nn(vm, 'maha', 0.0, 1.0e6)
        fdist = _nn(vm, 'feature_distance')
        vm.notes.update(too_far=far, iou=SOME(iou) if has_iou else NONE, maha=maha, fdist=fdist)
        # candidate observation
        conf = grid_f32(vm, 'conf', [0.0625, 0.25, 0.5, 1.0])
        ai = vm.choose_n(len(AREAS), "box area")
        cbox = Adt('Universal2DBox', 0, (f32(1.0), f32(0.0), NONE, f32(AREAS[ai][0]), f32(AREAS[ai][1]), conf, NONE))
        area = f32(AREAS[ai][0] * AREAS[ai][1] * AREAS[ai][1])
        qc = _nn(vm, 'quality')
        has_own = vm.choose_n(2, "own-area share given") == 0
        own = _nn(vm, 'own_share', 0.0, 1.0)
        c_has_f = vm.choose_n(2, "candidate feature present") == 0
        cand = Cell(Adt('Observation', 0, (SOME(mk(P, 'VisualObservationAttributes', bbox=SOME(cbox), visual_quality=qc, own_area_percentage=SOME(own) if has_own else NONE)),
                                           SOME(VecV((Opaque('f32x8', 'cf'),))) if c_has_f else NONE)), 'cand')
        # track observation: box present only on the newest stored observation
        t_has_box = vm.choose_n(2, "track observation has a box") == 0
        t_has_f = vm.choose_n(2, "track feature present") == 0
        tbox = Adt('Universal2DBox', 0, (f32(2.0), f32(0.0), NONE, f32(1.0), f32(1.0), f32(1.0), NONE))
        trk = Cell(Adt('Observation', 0, (SOME(mk(P, 'VisualObservationAttributes', bbox=SOME(tbox) if t_has_box else NONE, visual_quality=_nn(vm, 'tq'), own_area_percentage=NONE)),
                                          SOME(VecV((Opaque('f32x8', 'tf'),))) if t_has_f else NONE)), 'trk')
        opts = Cell(sort_options(P, vm, [], usize(5)), 'opts')
        collected = vm.fresh(64, 'collected')
        tlen = vm.fresh(64, 'track_length')
        ta = visual_attrs(P, vm, Ref(opts), usize(0), usize(1))
        fi = P.decls.field_index
        ta = Adt(ta.ty, 0, tuple(SOME(Opaque('KalmanState', 'st')) if i == fi('VisualAttributes', 'state') else
                                 collected if i == fi('VisualAttributes', 'visual_features_collected_count') else
                                 tlen if i == fi('VisualAttributes', 'track_length') else f for i, f in enumerate(ta.fields)))
        mq = Cell(mk(P, 'MetricQuery', feature_class=usize(0), candidate_attrs=Ref(Cell(ta)), candidate_observation=Ref(cand),
                     track_attrs=Ref(Cell(ta)), track_observation=Ref(trk)), 'mq')
        vm.notes.update(vkind=vkind, pkind=pkind, has_own=has_own, c_has_f=c_has_f, t_has_f=t_has_f, t_has_box=t_has_box, area=AREAS[ai], has_iou=has_iou)
        r = vm.exec_fn(fn, [Ref(metric), Ref(mq)], {})
        vm.check(BOOL(r.variant == 1), "the metric always reports a (positional, visual) pair")
        pos, vis = r.fields[0]
        # ---- appearance part
        usable = z3.And(f_ge(area, o['visual_minimal_area']), f_ge(qc, o['visual_minimal_quality_use']),
                        f_ge(own, o['visual_minimal_own_area_percentage_use']) if has_own else z3.BoolVal(True))
        long_enough = z3.UGE(collected.e, o['visual_minimal_track_length'].e)
        ok = f_le(fdist, vthr) if vkind == 'euclid' else f_ge(fdist, vthr)
        claim = z3.And(BOOL(c_has_f and t_has_f), usable, long_enough, ok)
        vm.check(z3.If(claim, BOOL(vis.variant == 1), BOOL(vis.variant == 0)),
                 "an appearance value is reported exactly when the feature is usable (area, quality, own-area share at or above the 'use' thresholds), "
                 "the track has collected the minimal number of features and the distance passes the visual threshold")
        if vis.variant == 1:
            w = fdist if vkind == 'euclid' else z3.fpSub(RNE, f32(1.0), fdist)
            vm.check(z3.fpEQ(vis.fields[0], w), "appearance weight = distance (Euclidean) / 1 - similarity (cosine)")
            calls = vm.notes.get('dist_calls', [])
            vm.check(BOOL(calls == ['euclidean' if vkind == 'euclid' else 'cosine']), "the configured distance function is used, once")
        # ---- positional part
        c = f_ite(f_lt(conf, o['positional_min_confidence']), o['positional_min_confidence'], conf)
        if not t_has_box:
            vm.check(BOOL(pos.variant == 0), "no positional value against an observation without a box")
        else:
            if pkind == 'iou':
                thr = o['positional_kind'].fields[0]
                prod = f_mul(iou, c)
                want = z3.And(z3.Not(far), BOOL(has_iou), f_ge(prod, thr))
                vm.check(z3.If(want, BOOL(pos.variant == 1), BOOL(pos.variant == 0)), "positional value exactly when reachable and IoU x max(conf, min_conf) >= threshold")
                if pos.variant == 1:
                    vm.check(f_eq(pos.fields[0], prod), "positional weight = IoU x max(conf, min_conf)")
            else:
                vm.check(z3.If(far, BOOL(pos.variant == 0), BOOL(pos.variant == 1)), "Mahalanobis: a value exactly when reachable")
                if pos.variant == 1:
                    cost = f_ite(f_gt(maha, f32(11.070)), f32(0.0), f_sub(f32(100.0), maha))
                    vm.check(f_eq(pos.fields[0], f_div(cost, c)), "Mahalanobis weight = inverted chi-square-gated cost / max(conf, min_conf)")
    return q


# ------------------------------------------------------------------ voting
def _vstream(vm, nq, nt, nres):
    qids = [vm.fresh(64, 'query%d' % i) for i in range(nq)]
    tids = [vm.fresh(64, 'track%d' % i) for i in range(nt)]
    allids = qids + tids
    for i in range(len(allids)):
        vm.assume(allids[i].e != 0)
        for j in range(i):
            vm.assume(allids[i].e != allids[j].e)
    stream = []
    for k in range(nres):
        f = vm.fresh(64, 'from%d' % k)
        t = vm.fresh(64, 'to%d' % k)
        vm.assume(z3.Or([f.e == c.e for c in qids]))
        vm.assume(z3.Or([t.e == x.e for x in tids]))
        has_d = vm.choose_n(2, "appearance distance present") == 0
        has_w = vm.choose_n(2, "positional weight present") == 0
        d = grid_f32(vm, 'd%d' % k, DGRID)
        w = grid_f32(vm, 'w%d' % k, WGRID)
        stream.append((f, t, w if has_w else None, d if has_d else None))
        vm.notes.setdefault('present', []).append((has_w, has_d))
    return qids, tids, stream


def check_visual_assignment(vm, P, O, qids, tids, stream, res, pthr, labels_for_self=True):
    """the C12 oracle on a decoded answer `res` (query index -> (('track', j) | ('self',) | ('other',), 'Visual' | 'Positional')):
    appearance claims first (greatest weight wins, losers excluded), positional maximum-weight fallback among the rest"""
    nq, nt = len(qids), len(tids)
    in_stream = [any(vm.branch(f.e == qids[qi].e) for f, _, _, _ in stream) for qi in range(nq)]
    claims = {qi: [ti for ti in range(nt) if O.qualifies(qi, ti)] for qi in range(nq)}
    visual_q = [qi for qi in range(nq) if claims[qi]]
    taken = {}     # track index -> query index, tracks attached by appearance
    for qi in visual_q:
        vm.check(BOOL(qi in res), "a detection with an appearance claim gets an answer")
        if qi not in res:
            continue
        tgt, vt = res[qi]
        if labels_for_self or tgt[0] != 'self':
            vm.check(BOOL(vt == 'Visual'), "an answer decided by appearance is labelled Visual")
        vm.check(BOOL(tgt[0] in ('track', 'self')), "a detection maps to a track or to itself (new track)")
        if tgt[0] == 'track':
            ti = tgt[1]
            vm.check(BOOL(ti in claims[qi]), "a detection is attached by appearance only to a track it has enough close features for")
            vm.check(BOOL(ti not in taken), "no track is attached to two detections")
            taken[ti] = qi
            for other in visual_q:
                if other != qi and ti in claims[other]:
                    vm.check(f_ge(O.weight(qi, ti), O.weight(other, ti)), "a contested track goes to the claimant with the greatest vote weight")
        # the straightforward case: the detection's heaviest claim is not contested by a heavier claimant -> it must get that track
        best = [ti for ti in claims[qi] if all(vm.branch(f_ge(O.weight(qi, ti), O.weight(qi, tj))) for tj in claims[qi])]
        if len(best) == 1:
            ti = best[0]
            strictly_top = all(vm.branch(f_gt(O.weight(qi, ti), O.weight(qi, tj))) for tj in claims[qi] if tj != ti)
            uncontested = all(not (ti in claims[o2]) or vm.branch(f_gt(O.weight(qi, ti), O.weight(o2, ti))) for o2 in visual_q if o2 != qi)
            if strictly_top and uncontested:
                vm.check(BOOL(tgt == ('track', ti)), "a detection whose heaviest claim wins its track is attached to that track")
    # ---- positional stage: detections without claims, tracks not taken by appearance
    pos_q = [qi for qi in range(nq) if in_stream[qi] and not claims[qi]]
    free_t = [ti for ti in range(nt) if ti not in taken]

    def conv(w):
        return vm.cast(f_mul(w, f32(F32_MULT)), 'i64', 'FloatToInt').e
    thr_i = conv(pthr)
    W = {}
    eligible = {}
    for qi in pos_q:
        for ti in free_t:
            W[(qi, ti)] = z3.BitVecVal(0, 64)
            eligible[(qi, ti)] = False
    for f, t, w, d in stream:
        qi, ti = O.index_of(qids, f), O.index_of(tids, t)
        if qi in pos_q and ti in free_t and w is not None:
            W[(qi, ti)] = conv(w)
            eligible[(qi, ti)] = True
    participating = [qi for qi in pos_q if any(eligible[(qi, ti)] for ti in free_t)]
    assign = {}
    for qi in pos_q:
        if qi in participating:
            vm.check(BOOL(qi in res), "a detection with a positional candidate gets an answer")
        if qi not in res:
            continue
        tgt, vt = res[qi]
        if labels_for_self or tgt[0] != 'self':
            vm.check(BOOL(vt == 'Positional'), "an answer not decided by appearance is labelled Positional")
        vm.check(BOOL(tgt[0] in ('track', 'self')), "a detection maps to a track or to itself (new track)")
        if tgt[0] == 'track':
            ti = tgt[1]
            vm.check(BOOL(ti in free_t), "a track taken by appearance is not given away positionally")
            vm.check(BOOL(ti not in assign.values()), "no track is attached to two detections")
            if ti in free_t:
                vm.check(BOOL(eligible[(qi, ti)]), "positional attachment only along a gated pair")
                vm.check(W[(qi, ti)] >= thr_i, "positional attachment only at or above the threshold")
                assign[qi] = ti
    # maximum total weight among one-to-one assignments of the participating detections (unmatched = threshold)
    def total(a):
        s = z3.BitVecVal(0, 128)
        for qi in participating:
            ti = a.get(qi)
            s = s + z3.SignExt(64, thr_i if ti is None else W[(qi, ti)])
        return s
    mine = total({qi: assign.get(qi) for qi in participating})
    for combo in itertools.product([None] + free_t, repeat=len(participating)):
        used = [x for x in combo if x is not None]
        if len(used) != len(set(used)):
            continue
        alt = dict(zip(participating, combo))
        if any(ti is not None and not eligible[(qi, ti)] for qi, ti in alt.items()):
            continue
        vm.check(mine >= total(alt), "positional continuations have maximum total weight (unmatched counts as the threshold)")
    for qi in range(nq):
        if not in_stream[qi]:
            vm.check(BOOL(qi not in res), "no answer for a detection that is not in the stream")


def _mk_voting(nq, nt, nres):
    def q(vm, P):
        fn = P.impl_methods[('VisualVoting', 'Voting', 'winners')][0][0]
        qids, tids, stream = _vstream(vm, nq, nt, nres)
        pthr = grid_f32(vm, 'positional_threshold', TGRID)
        maxd = grid_f32(vm, 'max_feature_distance', [0.0, 0.125, 0.25, 0.375, 0.5, 0.75, 1.0, 1.5, 2.0, 3.0, 4.0, 16.0])
        minv = vm.fresh(64, 'min_votes')
        vm.assume(z3.ULE(minv.e, 3))
        items = VecV(tuple(mk(P, 'ObservationMetricOk', **{'from': f, 'to': t, 'attribute_metric': SOME(w) if w is not None else NONE,
                                                          'feature_distance': SOME(d) if d is not None else NONE}) for f, t, w, d in stream))
        voting = Cell(mk(P, 'VisualVoting', positional_threshold=pthr, max_allowed_feature_distance=maxd, min_winner_feature_votes=minv), 'voting')
        r = vm.exec_fn(fn, [Ref(voting), items], {'T': 'Vec<ObservationMetricOk<VisualObservationAttributes>>'})
        vm.notes.update(nq=nq, nt=nt, nres=nres)
        O = _c17.Oracle(vm, qids, tids, [(f, t, d) for f, t, w, d in stream], maxd, minv)
        # ---- decode the result: query index -> (kind, target) with target = ('track', j) / ('self',) / ('other', term)
        res = {}
        for key, vec in r.items:
            qi = O.index_of(qids, key)
            vm.check(BOOL(qi is not None and qi not in res), "result keys are distinct detections of the stream")
            vm.check(BOOL(len(vec.items) == 1), "exactly one answer per detection")
            tgt, vt = vec.items[0]
            ti = O.index_of(tids, tgt)
            res[qi] = (('track', ti) if ti is not None else ('self',) if vm.branch(tgt.e == qids[qi].e) else ('other',),
                       'Visual' if is_variant(P, vt, 'VotingType', 'Visual') else 'Positional')
        check_visual_assignment(vm, P, O, qids, tids, stream, res, pthr)
    return q


# ------------------------------------------------------------------ voting type travels: update -> merge
def q_voting_type(vm, P):
    from C03 import visual_attrs
    upd_fn = P.impl_methods[('VisualAttributesUpdate', 'TrackAttributesUpdate', 'apply')][0][0]
    merge_fn = P.impl_methods[('VisualAttributes', 'TrackAttributes', 'merge')][0][0]
    opts = Cell(sort_options(P, vm, [], usize(5)), 'opts')
    k = vm.choose_n(2, "voting type")
    vt = variant(P, 'VotingType', 'Visual' if k == 0 else 'Positional')
    cand = Cell(visual_attrs(P, vm, Ref(opts), vm.fresh(64, 'scene'), vm.fresh(64, 'epoch_c'), tag=1), 'cand')
    upd = Cell(variant(P, 'VisualAttributesUpdate', 'VotingType', vt), 'upd')
    before = cand.v
    r = vm.exec_fn(upd_fn, [Ref(upd), Ref(cand)], {})
    vm.check(BOOL(r.variant == 0), "the update succeeds")
    v = fld(P, cand.v, 'VisualAttributes', 'voting_type')
    vm.check(BOOL(v.variant == 1 and is_variant(P, v.fields[0], 'VotingType', 'Visual' if k == 0 else 'Positional')), "the update records the voting type")
    vi = P.decls.field_index('VisualAttributes', 'voting_type')
    vm.check(BOOL(all(a is b for i, (a, b) in enumerate(zip(before.fields, cand.v.fields)) if i != vi)), "the voting-type update changes nothing else")
    prev = vm.choose_n(3, "previous voting type of the track")
    trk0 = visual_attrs(P, vm, Ref(opts), vm.fresh(64, 'scene_t'), vm.fresh(64, 'epoch_t'), tag=2)
    trk0 = Adt(trk0.ty, 0, tuple((NONE if prev == 0 else SOME(variant(P, 'VotingType', 'Visual' if prev == 1 else 'Positional'))) if i == vi else f for i, f in enumerate(trk0.fields)))
    trk = Cell(trk0, 'trk')
    r = vm.exec_fn(merge_fn, [Ref(trk), Ref(cand)], {})
    vm.check(BOOL(r.variant == 0), "attribute merge succeeds")
    v = fld(P, trk.v, 'VisualAttributes', 'voting_type')
    vm.check(BOOL(v.variant == 1 and is_variant(P, v.fields[0], 'VotingType', 'Visual' if k == 0 else 'Positional')), "the track reports the voting type of its latest attachment")
    vm.check(fld(P, trk.v, 'VisualAttributes', 'last_updated_epoch').e == fld(P, cand.v, 'VisualAttributes', 'last_updated_epoch').e, "merge takes the detection's epoch")


# ------------------------------------------------------------------ native replays
METRIC_REPLAY = r'''
use similari::track::utils::FromVec;
use similari::track::{Feature, MetricQuery, Observation, ObservationAttributes, ObservationMetric};
use similari::trackers::kalman_prediction::TrackAttributesKalmanPrediction;
use similari::trackers::sort::{PositionalMetricType, SortAttributesOptions};
use similari::trackers::spatio_temporal_constraints::SpatioTemporalConstraints;
use similari::trackers::visual_sort::metric::builder::VisualMetricBuilder;
use similari::trackers::visual_sort::metric::VisualSortMetricType;
use similari::trackers::visual_sort::observation_attributes::VisualObservationAttributes;
use similari::trackers::visual_sort::track_attributes::VisualAttributes;
use similari::utils::bbox::Universal2DBox;
use similari::utils::kalman::kalman_2d_box::Universal2DBoxKalmanFilter;
use similari::distance::{cosine, euclidean};
use std::sync::Arc;

#[test]
fn replay() {
    // native sweep of the gate inputs around the thresholds (the counterexample's abstract distances cannot be dictated to
    // the real distance functions): every combination is compared with the rule of the property
    let (q_use, min_area, own_use, min_conf): (f32, f32, f32, f32) = (0.5, 4.0, 0.5, 0.25);
    let opts = Arc::new(SortAttributesOptions::new(None, 5, 1, SpatioTemporalConstraints::default(), 1.0 / 20.0, 1.0 / 160.0));
    for cosine_kind in [false, true] { for maha in [false, true] { for min_len in 1..=3usize {
        let vthr: f32 = if cosine_kind { 0.5 } else { 1.5 };
        let metric = VisualMetricBuilder::default()
            .visual_metric(if cosine_kind { VisualSortMetricType::cosine(vthr) } else { VisualSortMetricType::euclidean(vthr) })
            .positional_metric(if maha { PositionalMetricType::Mahalanobis } else { PositionalMetricType::IoU(0.3) })
            .visual_minimal_track_length(min_len).visual_minimal_area(min_area).visual_minimal_quality_use(q_use)
            .visual_minimal_own_area_percentage_use(own_use).positional_min_confidence(min_conf).build();
        for collected in 0..=3usize { for track_length in [0usize, 5] { for quality in [0.25f32, 0.5] {
        for (w, h) in [(1.0f32, 1.0f32), (2.0, 2.0)] { for own in [None, Some(0.25f32), Some(0.5)] {
        for c_feat in [None, Some(vec![1.0f32, 0.0]), Some(vec![0.0f32, 1.0])] { for t_feat in [None, Some(vec![1.0f32, 0.0])] {
        for t_box in [false, true] { for conf in [0.125f32, 0.5] { for dx in [0.5f32, 100.0] {
            let mut cbox = Universal2DBox::ltwh(dx, 0.0, w, h);
            cbox.confidence = conf;
            let tbox = Universal2DBox::ltwh(0.0, 0.0, w, h);
            let ca = match own { Some(p) => VisualObservationAttributes::with_own_area_percentage(quality, cbox.clone(), p), None => VisualObservationAttributes::new(quality, cbox.clone()) };
            let mut tattr = VisualObservationAttributes::new(0.9, tbox.clone());
            if !t_box { tattr.drop_bbox(); }
            let co = Observation::new(Some(ca), c_feat.clone().map(Feature::from_vec));
            let to = Observation::new(Some(tattr), t_feat.clone().map(Feature::from_vec));
            let mut ta = VisualAttributes::new(opts.clone());
            ta.make_prediction(&tbox);
            ta.visual_features_collected_count = collected;
            ta.track_length = track_length;
            let mq = MetricQuery { feature_class: 0, candidate_attrs: &ta, candidate_observation: &co, track_attrs: &ta, track_observation: &to };
            let (pos, vis) = metric.metric(&mq).expect("the metric always reports a pair");
            // ---- appearance
            let usable = cbox.area() >= min_area && quality >= q_use && own.map(|p| p >= own_use).unwrap_or(true);
            let expect_vis = match (&c_feat, &t_feat) {
                (Some(c), Some(t)) if usable && collected >= min_len => {
                    let (fc, ft) = (Feature::from_vec(c.clone()), Feature::from_vec(t.clone()));
                    let d = if cosine_kind { cosine(&fc, &ft) } else { euclidean(&fc, &ft) };
                    let ok = if cosine_kind { d >= vthr } else { d <= vthr };
                    if ok { Some(if cosine_kind { 1.0 - d } else { d }) } else { None }
                }
                _ => None,
            };
            assert_eq!(vis, expect_vis, "appearance value: cosine {} min_len {} collected {} track_length {} quality {} area {} own {:?}", cosine_kind, min_len, collected, track_length, quality, cbox.area(), own);
            // ---- positional
            let c = if conf < min_conf { min_conf } else { conf };
            let expect_pos = if !t_box || Universal2DBox::too_far(&cbox, &tbox) { None } else if maha {
                let f = Universal2DBoxKalmanFilter::new(ta.get_position_weight(), ta.get_velocity_weight());
                let d = f.distance(ta.get_state().unwrap(), &cbox);
                Some((if d > 11.070 { 0.0 } else { 100.0 - d }) / c)
            } else {
                Universal2DBox::calculate_metric_object(&Some(&cbox), &Some(&tbox)).map(|e| e * c).filter(|e| *e >= 0.3)
            };
            assert_eq!(pos, expect_pos, "positional value: maha {} conf {} dx {}", maha, conf, dx);
        } } } } } } } } } }
    } } }
}
'''


def _replay_metric(cex, v, vm):
    return METRIC_REPLAY


VOTING_REPLAY = r'''
use similari::track::ObservationMetricOk;
use similari::trackers::sort::VotingType;
use similari::trackers::visual_sort::observation_attributes::VisualObservationAttributes;
use similari::trackers::visual_sort::voting::VisualVoting;
use similari::voting::Voting;
use std::collections::{HashMap, HashSet};

type E = ObservationMetricOk<VisualObservationAttributes>;

fn check(stream: &Vec<E>, pthr: f32, maxd: f32, minv: usize) {
    let res = VisualVoting::new(pthr, maxd, minv).winners(stream.clone());
    let queries: Vec<u64> = { let mut c: Vec<u64> = stream.iter().map(|d| d.from).collect(); c.sort(); c.dedup(); c };
    let tracks: Vec<u64> = { let mut c: Vec<u64> = stream.iter().map(|d| d.to).collect(); c.sort(); c.dedup(); c };
    // appearance claims: >= minv (and >= 1) distances within maxd; weight = sum(largest distance seen - d)
    let largest = stream.iter().filter_map(|d| d.feature_distance).fold(-1.0f32, f32::max);
    let mut claims: HashMap<(u64, u64), f64> = HashMap::new();
    for q in &queries { for t in &tracks {
        let ds: Vec<f32> = stream.iter().filter(|d| d.from == *q && d.to == *t).filter_map(|d| d.feature_distance).filter(|d| *d <= maxd).collect();
        if !ds.is_empty() && ds.len() >= minv { claims.insert((*q, *t), ds.iter().map(|d| (largest - d) as f64).sum()); }
    } }
    let has_claim = |q: u64| claims.keys().any(|k| k.0 == q);
    let mut taken: HashSet<u64> = HashSet::new();
    for q in &queries {
        if !has_claim(*q) { continue; }
        let a = res.get(q).expect("a detection with an appearance claim gets an answer");
        assert_eq!(a.len(), 1);
        assert!(matches!(a[0].1, VotingType::Visual), "decided by appearance -> labelled Visual");
        if a[0].0 != *q {
            let w = *claims.get(&(*q, a[0].0)).expect("attached by appearance only to a claimed track");
            assert!(taken.insert(a[0].0), "no track attached to two detections");
            for ((q2, t2), w2) in &claims { if *t2 == a[0].0 && q2 != q { assert!(w >= *w2, "a contested track goes to the claimant with the greatest vote weight"); } }
        }
        // the straightforward case: strictly heaviest own claim, strictly heavier than every rival -> must be attached there
        let mine: Vec<(u64, f64)> = claims.iter().filter(|(k, _)| k.0 == *q).map(|(k, w)| (k.1, *w)).collect();
        let top = mine.iter().cloned().fold((0u64, f64::MIN), |b, x| if x.1 > b.1 { x } else { b });
        if mine.iter().all(|x| x.0 == top.0 || x.1 < top.1) && claims.iter().all(|(k, w)| k.0 == *q || k.1 != top.0 || *w < top.1) {
            assert_eq!(a[0].0, top.0, "a detection whose heaviest claim wins its track is attached to that track");
        }
    }
    // positional stage
    let conv = |w: f32| (w * 1_000_000.0) as i64;
    let thr = conv(pthr);
    let pos_q: Vec<u64> = queries.iter().cloned().filter(|q| !has_claim(*q)).collect();
    let free_t: Vec<u64> = tracks.iter().cloned().filter(|t| !taken.contains(t)).collect();
    let weight = |q: u64, t: u64| -> Option<i64> { let mut r = None; for d in stream { if d.from == q && d.to == t { if let Some(w) = d.attribute_metric { r = Some(conv(w)); } } } r };
    let participating: Vec<u64> = pos_q.iter().cloned().filter(|q| free_t.iter().any(|t| weight(*q, *t).is_some())).collect();
    let mut total = 0i64;
    let mut used: HashSet<u64> = HashSet::new();
    for q in &pos_q {
        let a = match res.get(q) { Some(a) => a, None => { assert!(!participating.contains(q), "a detection with a positional candidate gets an answer"); continue; } };
        assert_eq!(a.len(), 1);
        assert!(matches!(a[0].1, VotingType::Positional), "not decided by appearance -> labelled Positional");
        if a[0].0 != *q {
            assert!(free_t.contains(&a[0].0), "a track taken by appearance is not given away positionally");
            assert!(used.insert(a[0].0), "no track attached to two detections");
            let w = weight(*q, a[0].0).expect("positional attachment only along a gated pair");
            assert!(w >= thr, "positional attachment only at or above the threshold");
            if participating.contains(q) { total += w; }
        } else if participating.contains(q) { total += thr; }
    }
    fn best(i: usize, qs: &Vec<u64>, ts: &Vec<u64>, used: &mut Vec<bool>, thr: i64, w: &dyn Fn(u64, u64) -> Option<i64>) -> i64 {
        if i == qs.len() { return 0; }
        let mut b = thr + best(i + 1, qs, ts, used, thr, w);
        for j in 0..ts.len() { if !used[j] { if let Some(x) = w(qs[i], ts[j]) { used[j] = true; let v = x + best(i + 1, qs, ts, used, thr, w); used[j] = false; if v > b { b = v; } } } }
        b
    }
    assert_eq!(total, best(0, &participating, &free_t, &mut vec![false; free_t.len()], thr, &weight), "positional continuations have maximum total weight");
    for k in res.keys() { assert!(queries.contains(k), "answers only for detections of the stream"); }
}

#[test]
fn replay() {
    let stream: Vec<E> = vec![%(items)s];
    // the stream in every order (HashMap iteration order varies from run to run as well)
    let n = stream.len();
    let mut idx: Vec<usize> = (0..n).collect();
    fn perms(k: usize, idx: &mut Vec<usize>, out: &mut Vec<Vec<usize>>) { if k == idx.len() { out.push(idx.clone()); return; } for i in k..idx.len() { idx.swap(k, i); perms(k + 1, idx, out); idx.swap(k, i); } }
    let mut all = vec![];
    perms(0, &mut idx, &mut all);
    for _round in 0..8 { for p in &all {
        let s: Vec<E> = p.iter().map(|i| stream[*i].clone()).collect();
        check(&s, %(pthr)s, %(maxd)s, %(minv)d);
    } }
}
'''


def _replay_voting(cex, v, vm):
    n = vm.notes
    items = []
    for k in range(n['nres']):
        def gv(name):
            try:
                return "Some(%rf32)" % grid_value(cex, vm, name)
            except KeyError:
                return "None"
        # presence of the options is a path decision: an absent value has no selector in the counterexample only if never created;
        # selectors are always created, so presence is read from the notes
        has_w, has_d = n['present'][k]
        items.append("ObservationMetricOk::new(%du64, %du64, %s, %s)" % (cex_get(cex, 'from%d' % k), cex_get(cex, 'to%d' % k),
                                                                     gv('w%d' % k) if has_w else "None", gv('d%d' % k) if has_d else "None"))
    return (VOTING_REPLAY.replace("%(items)s", ", ".join(items)).replace("%(pthr)s", "%rf32" % grid_value(cex, vm, 'positional_threshold'))
            .replace("%(maxd)s", "%rf32" % grid_value(cex, vm, 'max_feature_distance')).replace("%(minv)d", str(cex_get(cex, 'min_votes'))))


VMM = "similari::trackers::visual_sort::metric::VisualMetric::"
VV = "similari::trackers::visual_sort::voting::VisualVoting::winners"
MIR = []
for vk in ('euclid', 'cosine'):
    for pk in ('iou', 'maha'):
        MIR.append(MQ("c12_metric_%s_%s" % (vk, pk), 'quick', _mk_metric(vk, pk),
                      "VisualMetric::metric: appearance value exactly under the use thresholds / minimal collected features / visual threshold; positional value as in SORT",
                      "every option, quality, share, count and distance symbolic; %s visual metric, %s positional metric" % (vk, pk),
                      [VMM + "metric", VMM + "feature_can_be_used", VMM + "visual_metric", VMM + "positional_metric"], spec_calls=_metric_calls, replay=_replay_metric))
for (nq, nt, nr, tier) in [(1, 1, 1, 'quick'), (1, 2, 2, 'quick'), (2, 1, 2, 'quick'), (2, 2, 2, 'quick'), (2, 2, 3, 'deep'), (2, 2, 4, 'deep')]:   # deep: not finished within 3000 s (run 2), kept for development runs only
    MIR.append(MQ("c12_voting_q%d_t%d_r%d" % (nq, nt, nr), tier, _mk_voting(nq, nt, nr),
                  "VisualVoting::winners: appearance claims first (greatest weight wins, labelled Visual, losers excluded), positional maximum-weight fallback among the remaining tracks (labelled Positional)",
                  "%d detections x %d tracks, stream of %d results" % (nq, nt, nr),
                  [VV, "similari::track::voting::best::BestFitVoting::winners", "similari::trackers::sort::voting::SortVoting::winners"],
                  opts={'map_order': 'nondet'}, max_paths=400000, timeout=3000, z3_timeout_ms=60000, replay=_replay_voting))
MIR.append(MQ("c12_voting_type_travels", 'quick', q_voting_type, "voting type: update records it, attribute merge carries it to the track (the record conversion is C13/C01)",
              "both voting types, any previous value", ["similari::trackers::visual_sort::track_attributes::VisualAttributesUpdate::apply",
                                                        "similari::trackers::visual_sort::track_attributes::VisualAttributes::merge"], replay=_replay_metric))

# the appearance stage is BestFitVoting: its vote counting / weight definition (sum over counted distances of largest distance
# seen - d) is what "greatest vote weight" means here; the same obligations that C17 registers for that engine
MIR += [q for q in _c17.MIR if q.name.startswith('c17_bestfit')]


# one whole VisualSort predict call from an arbitrary valid tracker state, see props/stepvisual.py
import stepvisual as _stepv
MIR += [q for q in _stepv.MIR]
EXPLANATION += ' A whole VisualSort::predict_with_scene call is also executed from MIR on a symbolic tracker state (props/stepvisual.py: store model with the real worker loop, real builders / Track::add_observation / merge / VisualMetric::{metric, optimize} / VisualVoting / BestFitVoting / SortVoting code; geometry numbers, feature distances, feature packing and Kalman prediction uninterpreted): the decision expected from the symbolic inputs by the rules of the property is compared with the records.'
ASSUMPTIONS += ['VisualSort predict step: <= 1 detection x <= 1 stored track (quick: reduced option grid, thorough: full grid), 1-2 stored observations with / without features, previous voting type any; IoU + Euclidean mode; thresholds, confidences, qualities, IoU values and feature distances from small exact grids (quick: a reduced option grid); own-area thresholds 0 (shares not computed); candidate ids random, assumed distinct; fresh Kalman filter round trip exact; workers run when the caller blocks; HashMap iteration in insertion order']
import C13 as _c13
MIR += [q for q in _c13.MIR if q.name in ('c13_gallery_k2_max2', 'c13_gallery_k1_max1')]   # the collected-feature count the appearance gate reads
