"""C03 - track lifecycle (engine M): epoch arithmetic, expiry, idle lookup, TrackerAPI collection logic.
One-step / inductive form; whole histories through predict() are outside the claim."""
import z3
from mir_engine import MQ
from mirlib import *

EXPLANATION = ("Bounded symbolic execution of the real MIR (rustc -Zunpretty=mir of the current tree) with z3: EpochDb "
               "default methods over a symbolic scene->epoch map, compatible()/IdleLookup of both attribute types with "
               "symbolic attributes, and the TrackerAPI default methods executed for an abstract Self whose two stores "
               "are abstract id->track maps (TrackStore operations replaced by their C09 contract). Each query's oracle "
               "is checked by z3 on every explored path (path condition AND NOT oracle = unsat).")
ASSUMPTIONS = ["epochs and max_idle_epochs < 2^62 (above that `last_updated + max_idle` overflows: panic in dev, wrap in release)",
               "scene->epoch map with <= 3 entries (distinct keys); stores with <= 3 live and <= 2 collected tracks, distinct ids",
               "TrackStore::{find_usable,fetch_tracks,add_track,shard_stats,clear} replaced by their contract (decided under C09)",
               "Universal2DBox::dist_in_2r replaced by an arbitrary non-negative f32 (its formula is decided under C20)",
               "track status is a function of the track (fixed during one TrackerAPI call)"]
OUTSIDE = ["whole histories of predict calls (conservation across calls is composed from these one-step facts)",
           "real store threads"]

ENV_SORT = {'Self': 'SortAttributesOptions'}


def _opts_cell(P, vm, n, max_idle=None):
    ents = sym_epoch_entries(vm, n)
    mi = max_idle if max_idle is not None else vm.fresh(64, 'max_idle')
    vm.assume(z3.ULT(mi.e, U62))
    return Cell(sort_options(P, vm, ents, mi), 'opts'), ents, mi


def _epoch_map(cell):
    return cell.v.fields[0].fields[0]


def _map_term(m, scene):
    cur = z3.BitVecVal(0, 64)
    for k, e in reversed(m.items):
        cur = z3.If(k.e == scene.e, e.e, cur)
    return cur


def _mk_epoch_query(method, n):
    def q(vm, P):
        fn = P.trait_defaults[('EpochDb', method)]
        cell, ents, mi = _opts_cell(P, vm, n)
        scene = vm.fresh(64, 'scene')
        probe = vm.fresh(64, 'probe')
        old = epoch_lookup(ents, scene)
        if method == 'next_epoch':
            r = vm.exec_fn(fn, [Ref(cell), scene], ENV_SORT)
            vm.check(BOOL(r.ty == 'Option' and r.variant == 1), "next_epoch returns Some")
            vm.check(r.fields[0].e == old + 1, "next_epoch returns previous epoch + 1")
            delta = z3.BitVecVal(1, 64)
        elif method == 'skip_epochs_for_scene':
            n_skip = vm.fresh(64, 'n')
            vm.assume(z3.ULT(n_skip.e, U62))
            vm.exec_fn(fn, [Ref(cell), scene, n_skip], ENV_SORT)
            delta = n_skip.e
        else:
            r = vm.exec_fn(fn, [Ref(cell), scene], ENV_SORT)
            vm.check(BOOL(r.ty == 'Option' and r.variant == 1), "current_epoch returns Some")
            vm.check(r.fields[0].e == old, "current epoch = stored epoch, 0 for an unknown scene")
            delta = z3.BitVecVal(0, 64)
        new = _epoch_map(cell)
        after = _map_term(new, probe)
        before = epoch_lookup(ents, probe)
        vm.check(z3.If(probe.e == scene.e, after == before + delta, after == before),
                 "%s: scene advanced by the right amount, every other scene untouched" % method)
        # keys stay distinct
        for i, (k, _) in enumerate(new.items):
            for (k2, _) in new.items[:i]:
                vm.check(k.e != k2.e, "epoch map keys stay distinct")
    return q


def q_baked(vm, P):
    fn = P.trait_defaults[('EpochDb', 'baked')]
    cell, ents, mi = _opts_cell(P, vm, 2)
    scene = vm.fresh(64, 'scene')
    last = vm.fresh(64, 'last_updated')
    vm.assume(z3.ULT(last.e, U62))
    r = vm.exec_fn(fn, [Ref(cell), scene, last], ENV_SORT)
    cur = epoch_lookup(ents, scene)
    vm.check(BOOL(r.ty == 'Result' and r.variant == 0), "baked returns Ok")
    st = r.fields[0]
    wasted = z3.ULT(last.e + mi.e, cur)
    vm.check(z3.If(wasted, BOOL(is_variant(P, st, 'TrackStatus', 'Wasted')), BOOL(is_variant(P, st, 'TrackStatus', 'Pending'))),
             "Wasted exactly when last_updated + max_idle < current epoch of the scene, else Pending")


def q_baked_no_db(vm, P):
    fn = P.trait_defaults[('EpochDb', 'baked')]
    mi = vm.fresh(64, 'max_idle')
    cell = Cell(sort_options(P, vm, None, mi), 'opts')
    r = vm.exec_fn(fn, [Ref(cell), vm.fresh(64, 'scene'), vm.fresh(64, 'last')], ENV_SORT)
    vm.check(BOOL(r.variant == 0 and is_variant(P, r.fields[0], 'TrackStatus', 'Ready')), "without an epoch db tracks are Ready")


# ---------------------------------------------------------------- compatible(): expired tracks are never continued
def _dist_override(P):
    def dist(vm, cal, args):
        d = vm.fresh('f32', 'dist_in_2r')
        vm.assume(z3.And(z3.Not(z3.fpIsNaN(d)), z3.fpGEQ(d, f32(0.0))))
        vm.notes['dist'] = d
        return d
    return {('Universal2DBox', None, 'dist_in_2r'): dist}


def sort_attrs(P, vm, opts_ref, scene, last, boxes=1, tag=0):
    pb = VecV(tuple(opaque_box(vm, tag * 10 + i) for i in range(boxes)), 'VecDeque')
    return mk(P, 'SortAttributes', predicted_boxes=pb, observed_boxes=pb, last_updated_epoch=last,
              track_length=usize(boxes), scene_id=scene, custom_object_id=NONE, state=NONE, opts=opts_ref)


def visual_attrs(P, vm, opts_ref, scene, last, boxes=1, tag=0):
    pb = VecV(tuple(opaque_box(vm, tag * 10 + i) for i in range(boxes)), 'VecDeque')
    feats = VecV(tuple(NONE for _ in range(boxes)), 'VecDeque')
    return mk(P, 'VisualAttributes', predicted_boxes=pb, observed_boxes=pb, observed_features=feats,
              last_updated_epoch=last, track_length=usize(boxes), visual_features_collected_count=usize(0),
              scene_id=scene, custom_object_id=NONE, voting_type=NONE, state=NONE, opts=opts_ref)


def _mk_compat_expired(kind):
    ty = 'SortAttributes' if kind == 'sort' else 'VisualAttributes'
    mkattrs = sort_attrs if kind == 'sort' else visual_attrs

    def q(vm, P):
        fn, info = P.impl_methods[(ty, 'TrackAttributes', 'compatible')][0]
        cell, ents, mi = _opts_cell(P, vm, 2)
        opts_ref = Ref(cell)
        scene_t, scene_c = vm.fresh(64, 'scene_t'), vm.fresh(64, 'scene_c')
        last_t, last_c = vm.fresh(64, 'last_t'), vm.fresh(64, 'last_c')
        vm.assume(z3.And(z3.ULT(last_t.e, U62), z3.ULT(last_c.e, U62)))
        # the candidate was created in the current epoch of its scene
        vm.assume(last_c.e == epoch_lookup(ents, scene_c))
        t = Cell(mkattrs(P, vm, opts_ref, scene_t, last_t, tag=1), 'track')
        c = Cell(mkattrs(P, vm, opts_ref, scene_c, last_c, tag=2), 'cand')
        order = vm.choose_n(2, "argument order")
        a, b = (t, c) if order == 0 else (c, t)
        r = vm.exec_fn(fn, [Ref(a), Ref(b)], {})
        expired = z3.ULT(last_t.e + mi.e, epoch_lookup(ents, scene_t))
        vm.check(z3.Implies(r, scene_t.e == scene_c.e), "compatible implies same scene")
        vm.check(z3.Implies(z3.And(expired, scene_t.e == scene_c.e), z3.Not(r)),
                 "an expired (Wasted) track is incompatible with a candidate of the current epoch")
        gap = z3.If(z3.UGE(last_t.e, last_c.e), last_t.e - last_c.e, last_c.e - last_t.e)
        vm.check(z3.Implies(r, z3.ULE(gap, mi.e)), "compatible implies epoch gap <= max_idle_epochs")
        # with the empty constraint table compatibility is exactly same scene and gap <= max idle
        vm.check(r == z3.And(scene_t.e == scene_c.e, z3.ULE(gap, mi.e)), "compatible = same scene and gap <= max idle (no constraints)")
    return q


def _mk_idle_lookup(kind):
    ty = 'SortLookup' if kind == 'sort' else 'VisualSortLookup'
    mkattrs = sort_attrs if kind == 'sort' else visual_attrs

    def q(vm, P):
        fn, info = P.impl_methods[(ty, 'LookupRequest', 'lookup')][0]
        cell, ents, mi = _opts_cell(P, vm, 2)
        scene_t, scene_q = vm.fresh(64, 'scene_t'), vm.fresh(64, 'scene_q')
        last_t = vm.fresh(64, 'last_t')
        attrs = Cell(mkattrs(P, vm, Ref(cell), scene_t, last_t), 'attrs')
        req = Cell(variant(P, ty, 'IdleLookup', scene_q), 'req')
        obs = Cell(MapV(()), 'obs')
        hist = Cell(VecV(()), 'hist')
        r = vm.exec_fn(fn, [Ref(req), Ref(attrs), Ref(obs), Ref(hist)], {})
        vm.check(r == z3.And(scene_q.e == scene_t.e, last_t.e != epoch_lookup(ents, scene_t)),
                 "idle lookup = same scene and not updated in the scene's current epoch")
    return q


# ---------------------------------------------------------------- TrackerAPI default methods over abstract stores
STATUS = ['Ready', 'Pending', 'Wasted', 'Err']


def _abs_store(vm, n, tag, wasted_only=False):
    ids = []
    items = []
    for i in range(n):
        tid = vm.fresh(64, '%s_id%d' % (tag, i))
        st = 2 if wasted_only else vm.choose_n(4, "status")
        items.append((tid, Adt('AbsTrack', 0, (tid, st, tag + str(i)))))
        ids.append(tid)
    return MapV(tuple(items)), ids


def _api_calls(P):
    D = P.decls

    def store_of(vm, ref):
        s = vm.deref(ref)
        while isinstance(s, Ref):
            ref = s
            s = vm.deref(ref)
        if not isinstance(s, MapV):
            raise Unmodelled("abstract store expected, got %r" % (s,))
        return ref, s

    def main_store(vm, cal, args):
        return Ref(vm.notes['main'])

    def wasted_store(vm, cal, args):
        return Ref(vm.notes['wasted'])

    def find_usable(vm, cal, args):
        _, s = store_of(vm, args[0])
        out = []
        for tid, t in s.items:
            st = t.fields[1]
            out.append((tid, ERR(Opaque('anyhow::Error', 'baked')) if st == 3 else OK(variant(P, 'TrackStatus', STATUS[st]))))
        return VecV(out)

    def fetch_tracks(vm, cal, args):
        from models import map_find, seq_of
        r, s = store_of(vm, args[0])
        out = []
        for tid in seq_of(vm, args[1]):
            s = vm.deref(r)
            i = map_find(vm, s, tid)
            if i is not None:
                out.append(s.items[i][1])
                vm.store(r, MapV(s.items[:i] + s.items[i + 1:]))
        return VecV(out)

    def add_track(vm, cal, args):
        from models import map_find
        r, s = store_of(vm, args[0])
        t = args[1]
        i = map_find(vm, s, t.fields[0])
        if i is not None:
            return ERR(Adt('anyhow::Error', 0, (variant(P, 'Errors', 'DuplicateTrackId', t.fields[0]),)))
        vm.store(r, MapV(s.items + ((t.fields[0], t),)))
        return OK(t.fields[0])

    def shard_stats(vm, cal, args):
        _, s = store_of(vm, args[0])
        return VecV((usize(len(s.items)),))

    def clear(vm, cal, args):
        r, s = store_of(vm, args[0])
        vm.store(r, MapV(()))
        return ()

    def auto_waste_obj(vm, cal, args):
        return Ref(vm.notes['aw'])

    def get_opts(vm, cal, args):
        return Ref(vm.notes['opts'])
    return {('Self', 'TrackerAPI', 'get_main_store_mut'): main_store, ('Self', 'TrackerAPI', 'get_main_store'): main_store,
            ('Self', 'TrackerAPI', 'get_wasted_store_mut'): wasted_store, ('Self', 'TrackerAPI', 'get_wasted_store'): wasted_store,
            ('Self', 'TrackerAPI', 'get_auto_waste_obj_mut'): auto_waste_obj, ('Self', 'TrackerAPI', 'get_opts'): get_opts,
            ('TrackStore', None, 'find_usable'): find_usable, ('TrackStore', None, 'fetch_tracks'): fetch_tracks,
            ('TrackStore', None, 'add_track'): add_track, ('TrackStore', None, 'shard_stats'): shard_stats,
            ('TrackStore', None, 'clear'): clear}


API_ENV = {'Self': 'Self', 'E': 'SortAttributesOptions'}


def _setup_api(vm, P, n_main, n_wasted):
    main, ids_m = _abs_store(vm, n_main, 'm')
    wasted, ids_w = _abs_store(vm, n_wasted, 'w', wasted_only=True)
    allids = ids_m + ids_w
    for i in range(len(allids)):
        for j in range(i):
            vm.assume(allids[i].e != allids[j].e)
    vm.notes['main'] = Cell(main, 'main')
    vm.notes['wasted'] = Cell(wasted, 'wasted')
    return main, wasted, Cell(Opaque('Self', 'tracker'), 'self')


def _names(store):
    return [t.fields[2] for _, t in store.items]


def _mk_api_query(method, n_main, n_wasted):
    def q(vm, P):
        fn = P.trait_defaults[('TrackerAPI', method)]
        main0, wasted0, selfc = _setup_api(vm, P, n_main, n_wasted)
        exp_wasted = [t.fields[2] for _, t in main0.items if t.fields[1] == 2]
        exp_live = [t.fields[2] for _, t in main0.items if t.fields[1] != 2]
        # the whole abstract tracker state is symbolic: auto-waste periodicity/counter and the options with the epoch db
        vm.notes['aw'] = Cell(mk(P, 'AutoWaste', periodicity=vm.fresh(64, 'p0'), counter=vm.fresh(64, 'c0')), 'aw')
        if method != 'skip_epochs_for_scene':
            vm.notes['opts'] = Cell(sort_options(P, vm, sym_epoch_entries(vm, 1), usize(1)), 'opts')
        if method == 'set_auto_waste':
            p = vm.fresh(64, 'p')
            vm.exec_fn(fn, [Ref(selfc), p], API_ENV)
            aw = vm.notes['aw'].v
            vm.check(z3.And(fld(P, aw, 'AutoWaste', 'periodicity').e == p.e, fld(P, aw, 'AutoWaste', 'counter').e == 0),
                     "set_auto_waste sets the periodicity and resets the counter")
            return
        if method == 'skip_epochs_for_scene':
            ents = sym_epoch_entries(vm, 2)
            vm.notes['opts'] = Cell(sort_options(P, vm, ents, usize(1)), 'opts')
            scene, n = vm.fresh(64, 'scene'), vm.fresh(64, 'n')
            vm.assume(z3.ULT(n.e, U62))
            probe = vm.fresh(64, 'probe')
            vm.exec_fn(fn, [Ref(selfc), scene, n], API_ENV)
            after = _map_term(_epoch_map(vm.notes['opts']), probe)
            before = epoch_lookup(ents, probe)
            vm.check(z3.If(probe.e == scene.e, after == before + n.e, after == before), "skip advances only that scene by n")
        else:
            r = vm.exec_fn(fn, [Ref(selfc)], API_ENV)
        main1, wasted1 = vm.notes['main'].v, vm.notes['wasted'].v
        if method in ('auto_waste', 'skip_epochs_for_scene'):
            vm.check(BOOL(sorted(_names(main1)) == sorted(exp_live)), "collection leaves exactly the non-Wasted tracks live")
            vm.check(BOOL(sorted(_names(wasted1)) == sorted(_names(wasted0) + exp_wasted)),
                     "collection moves exactly the Wasted tracks to the wasted store (each once, none lost)")
        elif method == 'wasted':
            got = [t.fields[2] for t in r.items]
            vm.check(BOOL(sorted(got) == sorted(_names(wasted0) + exp_wasted)), "wasted() hands out exactly the expired tracks, each once")
            vm.check(BOOL(sorted(_names(main1)) == sorted(exp_live)), "wasted() leaves the unexpired tracks live")
            vm.check(BOOL(_names(wasted1) == []), "tracks handed out are no longer held")
        elif method == 'clear_wasted':
            vm.check(BOOL(_names(wasted1) == [] and _names(main1) == _names(main0)), "clear_wasted empties only the wasted store")
        elif method == 'active_shard_stats':
            vm.check(BOOL(len(r.items) == 1) , "one shard")
            vm.check(r.items[0].e == len(main0.items), "active_shard_stats = number of tracks in the live store")
        elif method == 'wasted_shard_stats':
            vm.check(r.items[0].e == len(wasted0.items), "wasted_shard_stats = number of tracks in the store of collected tracks",
                     info={'n_main': n_main, 'n_wasted': n_wasted})
    return q


REPLAY_SHARD_STATS = r'''
use similari::trackers::sort::simple_api::Sort;
use similari::trackers::sort::PositionalMetricType;
use similari::trackers::tracker_api::TrackerAPI;
use similari::utils::bbox::BoundingBox;

#[test]
fn replay() {
    // one track, expired by skipping epochs, collected by auto_waste(): it sits in the wasted store
    let mut t = Sort::new(1, 1, 1, PositionalMetricType::IoU(0.3), 0.0, None, 1.0 / 20.0, 1.0 / 160.0);
    t.predict(&[(BoundingBox::new(0.0, 0.0, 10.0, 10.0).into(), None)]);
    t.skip_epochs(5);
    t.auto_waste();
    let active: usize = t.active_shard_stats().iter().sum();
    let wasted: usize = t.wasted_shard_stats().iter().sum();
    assert_eq!(active, 0, "live store holds nothing");
    assert_eq!(wasted, 1, "wasted_shard_stats must count the collected track");
}
'''


def _replay_shard_stats(cex, v, vm):
    return "mod stats {\n" + REPLAY_SHARD_STATS + "\n}\nmod lifecycle {\n" + REPLAY_LIFECYCLE + "\n}\n"


# Native lifecycle sweep: the TrackerAPI queries run on an ABSTRACT tracker (two abstract stores, symbolic statuses), so
# their counterexamples carry no concrete history. The replay therefore drives the real Sort tracker through
# deterministic pseudo-random operation sequences (predict with detections at well separated positions / empty predict /
# skip_epochs / wasted / statistics / idle_tracks) for several auto-waste periodicities, idle limits and shard counts
# and compares every answer with the epoch rule of the property (a model of ~40 lines). It fails exactly when the real
# tracker violates C03 on one of these histories.
REPLAY_LIFECYCLE = r'''
use similari::trackers::sort::simple_api::Sort;
use similari::trackers::sort::PositionalMetricType;
use similari::trackers::tracker_api::TrackerAPI;
use similari::utils::bbox::BoundingBox;
use std::collections::HashSet;

#[derive(Clone, Debug)]
struct MT { id: u64, pos: u32, last: usize, len: usize }

fn lifecycle(periodicity: Option<usize>, max_idle: usize, shards: usize, seed: u64, steps: usize) {
    let mut t = Sort::new(shards, 3, max_idle, PositionalMetricType::IoU(0.3), 0.0, None, 1.0 / 20.0, 1.0 / 160.0);
    if let Some(p) = periodicity { t.set_auto_waste(p); }
    let mut model: Vec<MT> = vec![];
    let mut issued: HashSet<u64> = HashSet::new();
    let mut epoch = 0usize;
    let mut rng = seed.wrapping_mul(6364136223846793005).wrapping_add(1442695040888963407);
    let ctx = format!("periodicity {:?} max_idle {} shards {} seed {}", periodicity, max_idle, shards, seed);
    for step in 0..steps {
        rng = rng.wrapping_mul(6364136223846793005).wrapping_add(1442695040888963407);
        let op = (rng >> 33) % 8;
        let arg = (rng >> 40) % 8;
        match op {
            0 | 1 | 2 | 3 => {
                // predict with the detections selected by the bit mask `arg` (positions 0,1,2; 1000 units apart)
                epoch += 1;
                let positions: Vec<u32> = (0..3u32).filter(|p| op != 3 && (arg >> p) & 1 == 1).collect();
                let dets: Vec<_> = positions.iter().map(|p| (BoundingBox::new(1000.0 * *p as f32, 0.0, 10.0, 20.0).into(), Some(*p as i64))).collect();
                let recs = t.predict(&dets);
                assert_eq!(recs.len(), dets.len(), "one record per detection ({} step {})", ctx, step);
                for (p, r) in positions.iter().zip(recs.iter()) {
                    assert_eq!(r.epoch, epoch, "record carries the current epoch ({} step {})", ctx, step);
                    let cont = model.iter_mut().find(|m| m.pos == *p && epoch - m.last <= max_idle);
                    match cont {
                        Some(m) => {
                            assert_eq!(r.id, m.id, "an unexpired track at the same place must be continued ({} step {})", ctx, step);
                            m.last = epoch; m.len += 1;
                            assert_eq!(r.length, m.len, "track length = number of attached detections ({} step {})", ctx, step);
                        }
                        None => {
                            assert!(issued.insert(r.id), "an expired track must not be continued / ids are never reused: id {} ({} step {})", r.id, ctx, step);
                            assert_eq!(r.length, 1, "a new track has length 1 ({} step {})", ctx, step);
                            model.push(MT { id: r.id, pos: *p, last: epoch, len: 1 });
                        }
                    }
                }
            }
            4 => { let n = 1 + (arg % 3) as usize; t.skip_epochs(n); epoch += n; }
            5 => {
                let got = t.wasted();
                let mut got_ids: Vec<u64> = got.iter().map(|x| x.get_track_id()).collect();
                got_ids.sort();
                let mut exp: Vec<u64> = model.iter().filter(|m| m.last + max_idle < epoch).map(|m| m.id).collect();
                exp.sort();
                assert_eq!(got_ids, exp, "wasted() hands out exactly the tracks expired by the epoch rule, each once ({} step {})", ctx, step);
                for x in &got {
                    let m = model.iter().find(|m| m.id == x.get_track_id()).unwrap();
                    assert_eq!(x.get_attributes().track_length, m.len, "handed-out track length ({} step {})", ctx, step);
                }
                model.retain(|m| !(m.last + max_idle < epoch));
            }
            6 => {
                let mut idle: Vec<u64> = t.idle_tracks().iter().map(|r| r.id).collect();
                idle.sort();
                let mut exp: Vec<u64> = model.iter().filter(|m| m.last + max_idle >= epoch && m.last != epoch).map(|m| m.id).collect();
                exp.sort();
                // expired tracks not yet collected may or may not be listed by the store scan; the unexpired idle ones must be
                for e in &exp { assert!(idle.contains(e), "idle_tracks lists every unexpired track not updated in the current epoch ({} step {})", ctx, step); }
                for i in &idle { assert!(model.iter().any(|m| m.id == *i && m.last != epoch), "idle_tracks lists only tracks not updated in the current epoch ({} step {})", ctx, step); }
            }
            _ => {}
        }
        let active: usize = t.active_shard_stats().iter().sum();
        let wasted: usize = t.wasted_shard_stats().iter().sum();
        assert_eq!(active + wasted, model.len(), "active + wasted statistics account for every track not yet handed out ({} step {})", ctx, step);
        let live_min = model.iter().filter(|m| m.last + max_idle >= epoch).count();
        assert!(active >= live_min, "every unexpired track is in the live store ({} step {})", ctx, step);
    }
}

#[test]
fn replay() {
    for seed in 0..6u64 {
        for max_idle in [0usize, 1, 2] {
            for shards in [1usize, 2] {
                for periodicity in [Some(0usize), Some(1), Some(2)] { lifecycle(periodicity, max_idle, shards, seed, 120); }
            }
            lifecycle(None, max_idle, 2, seed, 420);
        }
    }
}
'''


def _replay_lifecycle(cex, v, vm):
    return REPLAY_LIFECYCLE


EPOCH_REPLAY = r'''
use similari::track::{ObservationsDb, LookupRequest, TrackStatus};
use similari::trackers::epoch_db::EpochDb;
use similari::trackers::sort::{SortAttributes, SortAttributesOptions, SortLookup};
use similari::trackers::spatio_temporal_constraints::SpatioTemporalConstraints;
use similari::trackers::visual_sort::track_attributes::{VisualAttributes, VisualSortLookup};
use similari::utils::bbox::Universal2DBox;
use std::collections::HashMap;
use std::sync::{Arc, RwLock};

fn opts(entries: &[(u64, usize)], max_idle: usize) -> SortAttributesOptions {
    SortAttributesOptions::new(Some(RwLock::new(HashMap::from_iter(entries.iter().cloned()))), max_idle, 1, SpatioTemporalConstraints::default(), 0.05, 0.00625)
}
fn cur(entries: &[(u64, usize)], s: u64) -> usize { entries.iter().find(|e| e.0 == s).map(|e| e.1).unwrap_or(0) }
fn code(s: TrackStatus) -> u8 { match s { TrackStatus::Ready => 0, TrackStatus::Pending => 1, TrackStatus::Wasted => 2 } }

#[test]
fn replay() {
    let entries: Vec<(u64, usize)> = vec![%(entries)s];
    let max_idle: usize = %(max_idle)d;
    let scenes: Vec<u64> = vec![%(scenes)s];
    let n: usize = %(n)d;
    let lasts: Vec<usize> = vec![%(lasts)s];
    for s in &scenes {
        // next_epoch: +1 for that scene (1 for a new scene), others untouched
        let o = opts(&entries, max_idle);
        assert_eq!(o.next_epoch(*s), Some(cur(&entries, *s) + 1));
        for p in &scenes { assert_eq!(o.current_epoch_with_scene(*p), Some(cur(&entries, *p) + if p == s { 1 } else { 0 }), "next_epoch touches only its scene"); }
        // skip: +n
        let o = opts(&entries, max_idle);
        o.skip_epochs_for_scene(*s, n);
        for p in &scenes { assert_eq!(o.current_epoch_with_scene(*p), Some(cur(&entries, *p) + if p == s { n } else { 0 }), "skip_epochs touches only its scene"); }
        // current epoch: stored value, 0 if unknown, nothing changes
        let o = opts(&entries, max_idle);
        assert_eq!(o.current_epoch_with_scene(*s), Some(cur(&entries, *s)));
        assert_eq!(o.current_epoch_with_scene(*s), Some(cur(&entries, *s)));
        // baked: Wasted exactly when last + max_idle < current epoch
        for last in &lasts {
            let st = o.baked(*s, *last).unwrap();
            assert_eq!(code(st), if *last + max_idle < cur(&entries, *s) { 2 } else { 1 }, "baked(scene {}, last {})", s, last);
            // idle lookup: same scene and not updated in the scene's current epoch
            let oa = Arc::new(opts(&entries, max_idle));
            let mut a = SortAttributes::new(oa.clone());
            a.scene_id = *s; a.last_updated_epoch = *last;
            let mut va = VisualAttributes::new(oa.clone());
            va.scene_id = *s; va.last_updated_epoch = *last;
            let _ = Universal2DBox::new(0.0, 0.0, None, 1.0, 1.0);
            for q in &scenes {
                let expect = q == s && *last != cur(&entries, *s);
                assert_eq!(SortLookup::IdleLookup(*q).lookup(&a, &ObservationsDb::default(), &[]), expect, "SortLookup::IdleLookup");
                assert_eq!(VisualSortLookup::IdleLookup(*q).lookup(&va, &ObservationsDb::default(), &[]), expect, "VisualSortLookup::IdleLookup");
            }
        }
    }
    let no_db = SortAttributesOptions::new(None, max_idle, 1, SpatioTemporalConstraints::default(), 0.05, 0.00625);
    assert_eq!(code(no_db.baked(scenes[0], lasts[0]).unwrap()), 0, "without an epoch db tracks are Ready");
}
'''


def _replay_epoch(cex, v, vm):
    inp = {k.split('!')[0]: val for k, val in cex["inputs"].items() if isinstance(val, int)}
    M62 = 2 ** 62
    entries, scenes = [], []
    i = 0
    while 'scene%d' % i in inp:
        if inp['scene%d' % i] not in [e[0] for e in entries]:
            entries.append((inp['scene%d' % i], inp.get('epoch%d' % i, 0) % M62))
        i += 1
    for k in ('scene', 'probe', 'scene_t', 'scene_q'):
        if k in inp:
            scenes.append(inp[k])
    scenes += [e[0] for e in entries] + [12345]
    scenes = list(dict.fromkeys(scenes))
    lasts = [inp[k] % M62 for k in ('last_updated', 'last', 'last_t') if k in inp] + [e[1] for e in entries] + [0, 1]
    lasts = list(dict.fromkeys(lasts))
    return (EPOCH_REPLAY.replace("%(entries)s", ", ".join("(%du64, %dusize)" % e for e in entries))
            .replace("%(max_idle)d", str(inp.get('max_idle', 1) % M62)).replace("%(scenes)s", ", ".join("%du64" % x for x in scenes))
            .replace("%(n)d", str(inp.get('n', 3) % M62)).replace("%(lasts)s", ", ".join("%dusize" % x for x in lasts)))


def _replay_compat_c03(kind):
    import C20
    def render(cex, v, vm):
        g = lambda n: cex_get(cex, n)
        try:
            order = g('max_idle')
        except KeyError:
            order = 1
        return C20.COMPAT_REPLAY % dict(table="", max_idle=order, scene_a=g('scene_t'), scene_b=g('scene_c'), last_a=g('last_t'), last_b=g('last_c'),
                                        xa="0.0f32", xb="1.0f32", ty='SortAttributes' if kind == 'sort' else 'VisualAttributes')
    return render


E = "similari::trackers::epoch_db::EpochDb::"
T = "similari::trackers::tracker_api::TrackerAPI::"
MIR = [
    MQ("c03_next_epoch", "quick", _mk_epoch_query('next_epoch', 2), "next_epoch: +1 for the scene (1 for a new scene), other scenes untouched",
       "symbolic map with 2 entries (thorough: 3), symbolic scene", [E + "next_epoch"], replay=_replay_epoch),
    MQ("c03_next_epoch_3", "thorough", _mk_epoch_query('next_epoch', 3), "next_epoch with 3 map entries", "3 entries", [E + "next_epoch"], replay=_replay_epoch),
    MQ("c03_skip_epochs", "quick", _mk_epoch_query('skip_epochs_for_scene', 2), "skip_epochs_for_scene: +n for the scene, others untouched",
       "2 entries, n < 2^62", [E + "skip_epochs_for_scene"], replay=_replay_epoch),
    MQ("c03_current_epoch", "quick", _mk_epoch_query('current_epoch_with_scene', 2), "current epoch = stored value, 0 if unknown; map unchanged",
       "2 entries", [E + "current_epoch_with_scene"], replay=_replay_epoch),
    MQ("c03_baked", "quick", q_baked, "baked: Wasted iff last_updated + max_idle < current epoch, else Pending", "2 entries, values < 2^62", [E + "baked"], replay=_replay_epoch),
    MQ("c03_baked_no_db", "quick", q_baked_no_db, "baked without epoch db: Ready", "all inputs", [E + "baked"], replay=_replay_epoch),
    MQ("c03_compatible_expired_sort", "quick", _mk_compat_expired('sort'),
       "SortAttributes::compatible: expired tracks never compatible with a current-epoch candidate; = same scene and gap <= max idle",
       "symbolic scenes/epochs/max_idle, both argument orders, empty constraint table", ["similari::trackers::sort::SortAttributes::compatible"],
       spec_calls=_dist_override, replay=_replay_compat_c03('sort')),
    MQ("c03_compatible_expired_visual", "quick", _mk_compat_expired('visual'),
       "VisualAttributes::compatible: same", "same", ["similari::trackers::visual_sort::track_attributes::VisualAttributes::compatible"],
       spec_calls=_dist_override, replay=_replay_compat_c03('visual')),
    MQ("c03_idle_lookup_sort", "quick", _mk_idle_lookup('sort'), "SortLookup::IdleLookup = same scene and last_updated != current epoch",
       "symbolic", ["similari::trackers::sort::SortLookup::lookup"], replay=_replay_epoch),
    MQ("c03_idle_lookup_visual", "quick", _mk_idle_lookup('visual'), "VisualSortLookup::IdleLookup = same", "symbolic",
       ["similari::trackers::visual_sort::track_attributes::VisualSortLookup::lookup"], replay=_replay_epoch),
]
for (m, tier, nm, nw) in [('auto_waste', 'quick', 2, 1), ('auto_waste', 'thorough', 3, 2), ('wasted', 'quick', 2, 1), ('wasted', 'thorough', 3, 2),
                          ('clear_wasted', 'quick', 2, 1), ('active_shard_stats', 'quick', 2, 1), ('wasted_shard_stats', 'quick', 2, 1),
                          ('wasted_shard_stats', 'thorough', 3, 2), ('set_auto_waste', 'quick', 0, 0), ('skip_epochs_for_scene', 'quick', 2, 1)]:
    MIR.append(MQ("c03_api_%s_%d_%d" % (m, nm, nw), tier, _mk_api_query(m, nm, nw),
                  "TrackerAPI::%s over abstract stores" % m, "%d live tracks (status symbolic: Ready/Pending/Wasted/Err), %d collected" % (nm, nw),
                  [T + m] + ([T + "auto_waste", T + "get_main_store_wasted"] if m in ('wasted', 'skip_epochs_for_scene', 'auto_waste') else []),
                  spec_calls=_api_calls, replay=_replay_shard_stats if m == 'wasted_shard_stats' else _replay_lifecycle,
                  key="wasted_shard_stats-reads-main-store" if m == 'wasted_shard_stats' else None))


# one whole predict call from an arbitrary valid tracker state (inductive step), see props/stepsort.py
import stepsort as _step
MIR += [q for q in _step.MIR if q.name in ('step_sort_d1_t1_s1', 'step_sort_d1_t2_s1')]
EXPLANATION += " A whole Sort::predict_with_scene call is also executed from MIR on a symbolic tracker state (props/stepsort.py): real TrackStore code over the shard-map store model with the real worker loop, real builders / Track::add_observation / merge / SortMetric / SortAttributes / SortVoting code, kuhn_munkres by contract, geometry numbers and Kalman prediction uninterpreted - one record per detection in submission order echoing box, custom id, scene and the scene's new epoch; continuations only inside the scene, through the gate, for unexpired tracks, forming a maximum-weight one-to-one assignment; new ids = counter + k; lengths = detections attached; tracks that were not continued unchanged; only this scene's epoch advances. One step from an arbitrary valid state is the inductive step of the history statements."
ASSUMPTIONS += ['predict step: <= 2 detections, <= 2 stored tracks (scene, last epoch, length, ids, custom ids symbolic; invariant: issued ids <= counter, last epoch <= scene epoch), 1 shard (thorough 2), IoU mode with threshold from {.125,.25,.5}, IoU values from {.125,.25,.5,.75} or no overlap, confidences {.25,1}, min confidence .5, history length 2, auto-waste counter != 0 (no collection in this call); candidate ids random 64-bit values assumed distinct from all ids in use and non-zero; a FRESH Kalman filter initiated and updated with the same box returns that box (innovation exactly 0); workers run when the caller blocks; HashMap iteration in insertion order']


# one whole VisualSort predict call from an arbitrary valid tracker state, see props/stepvisual.py
import stepvisual as _stepv
MIR += [q for q in _stepv.MIR if q.name in ('step_visual_d0_t1', 'step_sort_d0_t1_s1')]
EXPLANATION += ' A whole VisualSort::predict_with_scene call is also executed from MIR on a symbolic tracker state (props/stepvisual.py: store model with the real worker loop, real builders / Track::add_observation / merge / VisualMetric::{metric, optimize} / VisualVoting / BestFitVoting / SortVoting code; geometry numbers, feature distances, feature packing and Kalman prediction uninterpreted): the decision expected from the symbolic inputs by the rules of the property is compared with the records.'
ASSUMPTIONS += ['VisualSort predict step: <= 1 detection x <= 1 stored track in the quick tier (thorough 2x1, 1x2), 1-2 stored observations with / without features, previous voting type any; IoU + Euclidean mode; thresholds, confidences, qualities, IoU values and feature distances from small exact grids (quick: a reduced option grid); own-area thresholds 0 (shares not computed); candidate ids random, assumed distinct; fresh Kalman filter round trip exact; workers run when the caller blocks; HashMap iteration in insertion order']
MIR += [q for q in _step.MIR if q.name == 'step_sort_d0_t1_s1']
