from kani_engine import KH

EXPLANATION = ("Bounded solver-based checking (Kani/CBMC) of the real feature code: Feature::from_vec / Vec::from_vec round "
               "trip for every length 0..=17 (all residues modulo the lane width, up to three blocks) over ALL f32 bit "
               "patterns; euclidean / cosine on one and two packed blocks over the exact integer grid (every sum, "
               "difference and product exact, so the scalar textbook formula is a bit-exact oracle; sqrt and the final "
               "division are the same IEEE operations on identical operands). Unwinding assertions on; end-of-harness "
               "cover as reachability witness; counterexamples replayed natively (real SIMD intrinsics, dev + release).")
ASSUMPTIONS = ["lengths 0..=17 for packing (lengths 18..130 run the same loop: no new residue, outside the claim)",
               "distance functions: symbolic lanes are integers in [-4,4] ([-3,3] and scale 1..4 for the parallel case), "
               "2-4 symbolic lanes per block, the remaining lanes concrete non-zero integers; 1 or 2 blocks",
               "STUBS (-Z stubbing): core::arch::x86_64::{_mm_add_ps,_mm_sub_ps,_mm_mul_ps} are replaced by lanewise "
               "IEEE add/sub/mul on [f32;4] - exactly their documented semantics - because Kani 0.68 attaches a spurious "
               "'arithmetic overflow' check to float simd_add/sub/mul that fails for every input and cuts the path",
               "length 0: both the empty feature and one all-zero block are accepted as 'padded to a multiple of eight'"]
OUTSIDE = ["vector lengths 18..=130", "non-grid magnitudes (float association error of the lane reduction)",
           "triangle inequality beyond two symbolic lanes per vector"]
KANI_MODULES = ["c16_features"]
D = "similari::distance::"
U = "similari::track::utils::"
ST = ""
KANI = []
for n in range(18):
    KANI.append(KH("c16_features::c16_roundtrip_%02d" % n, "quick", 400,
                   "Vec::from_vec(Feature::from_vec(v)) = v padded with +0.0 to a multiple of 8, length %d" % n,
                   "all f32 bit patterns (NaN payloads included), length %d, unwind 26" % n,
                   [U + "FromVec<&Vec<f32>, Feature>::from_vec", U + "FromVec<Vec<f32>, Feature>::from_vec", U + "FromVec<&Feature, Vec<f32>>::from_vec"]))
KANI += [
    KH("c16_features::c16_euclid_1block", "quick", 1500,
       "euclidean = sqrt(sum (a_i-b_i)^2) bit-exactly; symmetric; 0 on identical vectors; >= 0",
       "one block, 3+3 symbolic integer lanes in [-4,4]", [D + "euclidean"], args=ST),
    KH("c16_features::c16_cosine_1block_small", "quick", 1200,
       "cosine = dot/sqrt(|a|^2|b|^2) bit-exactly; symmetric; in [-1,1]",
       "one block, 2+2 symbolic integer lanes in [-4,4]", [D + "cosine"], args=ST),
    KH("c16_features::c16_cosine_1block", "thorough", 3000,
       "cosine = dot/sqrt(|a|^2|b|^2) bit-exactly; symmetric; in [-1,1]",
       "one block, 3+3 symbolic integer lanes in [-4,4]", [D + "cosine"], args=ST),
    KH("c16_features::c16_cosine_parallel", "quick", 1200,
       "cosine(v, k v) = 1 and cosine(v, -k v) = -1 exactly (scale invariance, parallel/opposite)",
       "one block, 3 symbolic integer lanes in [-3,3], k in 1..4", [D + "cosine"], args=ST),
    KH("c16_features::c16_cosine_prefix", "quick", 1800,
       "features of different block counts: cosine over the common packed prefix, both argument orders",
       "2 blocks vs 1 block, 1+1+1 symbolic integer lanes in [-4,4]", [D + "cosine"], args=ST),
    KH("c16_features::c16_euclid_3blocks", "quick", 1200,
       "three packed blocks (odd block count > 1): every block contributes exactly once; symmetric",
       "3 blocks vs 3 blocks, 1 symbolic integer lane per block", [D + "euclidean"], args=ST),
    KH("c16_features::c16_cosine_small_magnitude", "quick", 900,
       "small-magnitude vectors (lanes scaled by 2^-10, exact): parallel = 1, opposite = -1, invariant under scaling by 2^10",
       "one block, 2 symbolic integer lanes in [-3,3] x 2^-10, k in 1..3", [D + "cosine"], args=ST),
    KH("c16_features::c16_euclid_prefix", "thorough", 2400,
       "features of different block counts: euclidean over the common packed prefix; two blocks: sum over both",
       "2 blocks vs 1 and 2 blocks, 2 symbolic integer lanes per block", [D + "euclidean"], args=ST),
    KH("c16_features::c16_euclid_triangle", "thorough", 1800,
       "triangle inequality d(a,c) <= (d(a,b)+d(b,c))(1+4eps)",
       "one block, 2 symbolic integer lanes per vector, three vectors", [D + "euclidean"], args=ST),
]
