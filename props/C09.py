"""C09 - the track store is a faithful id->track map and reports merge failures (engine M).
The real MIR of TrackStore's methods and of the worker loop `handle_store_ops` is executed; worker threads are
modelled by running the worker on its command queue when the caller blocks on a result."""
import z3
from mir_engine import MQ
from mirlib import *
from envlib import *
from storelib import *
import replaylib as c11

EXPLANATION = ("Bounded symbolic execution of the generic MIR of TrackStore::{get_store, get_executor, add_track, fetch_tracks, "
               "shard_stats, clear, new_track, add, lookup, find_usable, merge_external(_noblock), merge_owned}, of "
               "FutureMergeResponse::get and of the worker loop handle_store_ops. Shards are finite maps with symbolic ids "
               "(placement by id % shards decided by z3), channels are FIFO queues, TA/M/OA/N stay opaque (environment "
               "callbacks, arbitrary Ok/Err). Oracles compare with the id->track map semantics on every path.")
ASSUMPTIONS = ["ids are free 64-bit values for 1 and 2 shards; for 3 shards ids < 4096 (64-bit remainder by 3 does not terminate in z3)", "1..2 shards (thorough: 3), <= 2 stored tracks (+1 operand), pairwise distinct stored ids, store representation "
               "invariant (track t lives in shard t % shards)",
               "each queued command is handled atomically by its shard's worker (shard mutex); workers run when the caller blocks on a result",
               "callbacks are arbitrary but functional in what they can read; Clone returns an equal value",
               "crossbeam channels = FIFO queues; a blocked receive with nothing pending fails"]
OUTSIDE = ["real threads and preemption inside a command", "sequences of more than one store operation (each operation is checked from an arbitrary valid state)"]


def _status_calls(P):
    """environment: baked()/lookup() are arbitrary functions of the track's attributes"""
    base = track_callbacks(P)['*']

    def star(vm, cal, args):
        if cal.trait == 'TrackAttributes' and cal.method == 'baked':
            a = vm.deref(args[0])
            st = vm.notes.setdefault('status', {})
            key = repr(a)
            if key not in st:
                st[key] = vm.choose_n(4, "baked status")
            k = st[key]
            if k == 3:
                return ERR(Opaque('anyhow::Error', 'baked:' + key))
            return OK(variant(P, 'TrackStatus', ['Ready', 'Pending', 'Wasted'][k]))
        if cal.trait == 'LookupRequest' and cal.method == 'lookup':
            a = vm.deref(args[1])
            pr = vm.notes.setdefault('pred', {})
            key = repr(a)
            if key not in pr:
                pr[key] = vm.choose_n(2, "lookup predicate")
            return BOOL(bool(pr[key]))
        return base(vm, cal, args)
    return {'*': star}


def _mk_store(vm, P, S, n, classes=(0,)):
    tracks, ids = [], []
    for i in range(n):
        tid, t = sym_track(P, vm, 't%d' % i, classes)
        if S not in (1, 2, 4):
            vm.assume(z3.ULT(tid.e, 4096))   # remainder by a non-power-of-two on free 64-bit ids does not terminate in z3
        ids.append(tid)
        tracks.append(t)
    distinct(vm, ids)
    st = Store(P, vm, S, tracks)
    vm.notes['sched'] = EagerSched(st)
    vm.notes['S'] = S
    return st, ids, tracks


def _fn(P, name):
    return P.impl_methods[('TrackStore', None, name)][0][0]


def _contains(shard, t):
    return any(v is t for _, v in shard.items)


def _where(st, t):
    return [i for i in range(st.n) if _contains(st.shard(i), t)]


def _invariant(vm, st, msg="representation invariant"):
    for i in range(st.n):
        for k, t in st.shard(i).items:
            vm.check(z3.URem(k.e, z3.BitVecVal(st.n, 64)) == i, msg + ": track lives in shard id % shards")
            vm.check(k.e == fld(st.P, t, 'Track', 'track_id').e, msg + ": key = track id")


def _mk_sharding(S):
    def q(vm, P):
        vm.notes['S'] = S
        st, ids, tracks = _mk_store(vm, P, S, 1)
        x = vm.fresh(64, 'id')
        r = vm.exec_fn(_fn(P, 'get_executor'), [st.ref(), x], STORE_ENV)
        vm.check(r.e == z3.URem(x.e, z3.BitVecVal(S, 64)), "get_executor = id % shards")
        g = vm.exec_fn(_fn(P, 'get_store'), [st.ref(), x], STORE_ENV)
        vm.check(BOOL(isinstance(g, Ref) and g.cell is st.shards_cell and len(g.path) == 1), "get_store returns a shard guard")
        vm.check(z3.URem(x.e, z3.BitVecVal(S, 64)) == g.path[0][1], "get_store returns shard id % shards")
    return q


def _mk_add_track(S, n):
    def q(vm, P):
        st, ids, tracks = _mk_store(vm, P, S, n)
        nid, nt = sym_track(P, vm, 'new')
        if S not in (1, 2, 4):
            vm.assume(z3.ULT(nid.e, 4096))
        before = [st.shard(i) for i in range(S)]
        r = vm.exec_fn(_fn(P, 'add_track'), [st.ref(), nt], STORE_ENV)
        dup = z3.Or([nid.e == i.e for i in ids] + [z3.BoolVal(False)])
        if r.variant == 0:
            vm.check(z3.Not(dup), "add_track succeeds only for a fresh id")
            vm.check(r.fields[0].e == nid.e, "add_track returns the id")
            w = _where(st, nt)
            vm.check(BOOL(len(w) == 1), "the added track is stored exactly once")
            for t in tracks:
                vm.check(BOOL(len(_where(st, t)) == 1), "previously stored tracks stay")
            vm.check(BOOL(sum(len(st.shard(i).items) for i in range(S)) == n + 1), "nothing else appears")
            _invariant(vm, st)
        else:
            vm.check(dup, "duplicate ids are rejected (and only those)")
            e = r.fields[0]
            vm.check(BOOL(isinstance(e, Adt) and e.ty == 'anyhow::Error' and is_variant(P, e.fields[0], 'Errors', 'DuplicateTrackId')),
                     "the error is DuplicateTrackId")
            vm.check(e.fields[0].fields[0].e == nid.e, "the error names the id")
            vm.check(z3.And([struct_eq(st.shard(i), before[i]) for i in range(S)]), "a rejected add changes nothing")
    return q


def _mk_fetch(S, n, nreq):
    def q(vm, P):
        st, ids, tracks = _mk_store(vm, P, S, n)
        req = [vm.fresh(64, 'req%d' % i) for i in range(nreq)]
        rc = Cell(VecV(tuple(req)), 'req')
        r = vm.exec_fn(_fn(P, 'fetch_tracks'), [st.ref(), Ref(rc)], STORE_ENV)
        got = list(r.items)
        for tid, t in zip(ids, tracks):
            wanted = z3.Or([tid.e == x.e for x in req] + [z3.BoolVal(False)])
            ngot = sum(1 for g in got if g is t)
            vm.check(z3.If(wanted, BOOL(ngot == 1 and len(_where(st, t)) == 0), BOOL(ngot == 0 and len(_where(st, t)) == 1)),
                     "fetch removes and returns exactly the requested existing tracks, each once")
        vm.check(BOOL(all(any(g is t for t in tracks) for g in got)), "fetch returns only stored tracks")

        def first_match(tid):
            e = z3.IntVal(nreq)
            for j in reversed(range(nreq)):
                e = z3.If(req[j].e == tid.e, z3.IntVal(j), e)
            return e
        # (the ORDER of the returned tracks is not part of the property and is not checked)
        _invariant(vm, st)
    return q


def _mk_stats_clear(S, n):
    def q(vm, P):
        st, ids, tracks = _mk_store(vm, P, S, n)
        r = vm.exec_fn(_fn(P, 'shard_stats'), [st.ref()], STORE_ENV)
        vm.check(BOOL(len(r.items) == S), "one count per shard")
        for i in range(S):
            vm.check(r.items[i].e == len(st.shard(i).items), "per-shard count = tracks held by the shard")
        vm.check(z3.Sum([z3.BV2Int(x.e) for x in r.items]) == n, "counts sum to the number of stored tracks")
        vm.exec_fn(_fn(P, 'clear'), [st.ref()], STORE_ENV)
        vm.check(BOOL(all(len(st.shard(i).items) == 0 for i in range(S))), "clear empties every shard")
    return q


def q_new_track(vm, P):
    st, ids, tracks = _mk_store(vm, P, 1, 0)
    x = vm.fresh(64, 'id')
    b = vm.exec_fn(_fn(P, 'new_track'), [st.ref(), x], STORE_ENV)
    vm.check(fld(P, b, 'TrackBuilder', 'id').e == x.e, "builder carries the id")
    vm.check(struct_eq(fld(P, b, 'TrackBuilder', 'metric'), SOME(fld(P, st.value, 'TrackStore', 'metric'))), "builder gets the store's metric")
    vm.check(struct_eq(fld(P, b, 'TrackBuilder', 'track_attrs'), SOME(fld(P, st.value, 'TrackStore', 'default_attributes'))), "builder gets the default attributes")
    vm.check(struct_eq(fld(P, b, 'TrackBuilder', 'notifier'), SOME(fld(P, st.value, 'TrackStore', 'notifier'))), "builder gets the store's notifier")


def _mk_scan(S, n, method):
    def q(vm, P):
        st, ids, tracks = _mk_store(vm, P, S, n)
        if method == 'lookup':
            r = vm.exec_fn(_fn(P, 'lookup'), [st.ref(), Opaque('Lookup', 'q')], STORE_ENV)
        else:
            r = vm.exec_fn(_fn(P, 'find_usable'), [st.ref()], STORE_ENV)
        status = vm.notes.get('status', {})
        pred = vm.notes.get('pred', {})
        got = list(r.items)
        for tid, t in zip(ids, tracks):
            key = repr(fld(P, t, 'Track', 'attributes'))
            k = status.get(key)
            hits = [g for g in got if g[0] is tid or z3.is_true(z3.simplify(g[0].e == tid.e))]
            if method == 'lookup':
                expect = bool(pred.get(key, 0))
            else:
                expect = (k is not None and k != 1)
            vm.check(BOOL(len(hits) == (1 if expect else 0)),
                     "%s returns exactly the tracks satisfying the predicate%s, each once" % (method, "" if method == 'lookup' else " (status other than Pending)"))
            for g in hits:
                res = g[1]
                if k == 3:
                    vm.check(BOOL(res.variant == 1), "a failing status is reported as an error")
                else:
                    vm.check(BOOL(res.variant == 0 and is_variant(P, res.fields[0], 'TrackStatus', ['Ready', 'Pending', 'Wasted'][k])), "reported status = the track's status")
        vm.check(BOOL(len(got) <= n), "no extra results")
        for i in range(S):
            vm.check(BOOL(st.pending(i) == 0), "every command was handled")
    return q


# ---------------------------------------------------------------- FutureMergeResponse / merge
def q_future_get(vm, P):
    fn = P.impl_methods[('FutureMergeResponse', None, 'get')][0][0]
    q = Cell(VecV((), 'queue'), 'resq')
    ok = vm.choose_n(2, "worker result")
    res = OK(()) if ok == 0 else ERR(Opaque('anyhow::Error', 'merge failed'))
    q.v = VecV((variant(P, 'Results', 'MergeResult', res),), 'queue')
    fut = Cell(mk(P, 'FutureMergeResponse', receiver=receiver(q), _sender=sender(q)), 'future')
    r = vm.exec_fn(fn, [Ref(fut)], STORE_ENV)
    vm.check(BOOL(r.variant == res.variant), "FutureMergeResponse::get returns the worker's merge result", info={'key': 'future-get-drops-merge-result'})
    if ok == 1:
        vm.check(struct_eq(r.fields[0], res.fields[0]), "the error is passed through")


def _mk_merge_external(S, n):
    def q(vm, P):
        st, ids, tracks = _mk_store(vm, P, S, n)
        sid, src = sym_track(P, vm, 'src')
        dest_id = vm.fresh(64, 'dest_id')
        classes_given = vm.choose_n(2, "classes given")
        cls = SOME(Ref(Cell(VecV((usize(0),)), 'classes'))) if classes_given else NONE
        flag = vm.choose_n(2, "history flag")
        srcc = Cell(src, 'src')
        before = [st.shard(i) for i in range(S)]
        r = vm.exec_fn(_fn(P, 'merge_external'), [st.ref(), dest_id, Ref(srcc), cls, BOOL(bool(flag))], STORE_ENV)
        e = vm.notes.get('env') or Env(vm)
        exists = z3.Or([dest_id.e == i.e for i in ids] + [z3.BoolVal(False)])
        same = dest_id.e == sid.e
        failed_cb = e.count('fail') > 0
        vm.notes.update(kind='merge_external', n=n, S=S, flag=flag, classes_given=classes_given, fails=[x[1] for x in e.events if x[0] == 'fail'], ncb=e.ncalls)
        vm.check(struct_eq(srcc.v, src), "the source is not modified")
        for tid, t in zip(ids, tracks):
            cur = [v for i in range(S) for k, v in st.shard(i).items if k is tid]
            vm.check(BOOL(len(cur) == 1), "no stored track is removed or duplicated")
            vm.check(z3.Implies(tid.e != dest_id.e, struct_eq(cur[0], t)), "merging changes only the destination")
        if r.variant == 0:
            vm.check(z3.And(exists, z3.Not(same)), "merge_external reports success only when the destination exists and differs from the source",
                     info={'key': 'merge-external-success-on-failure'})
            vm.check(BOOL(not failed_cb), "merge_external reports success only when the merge itself succeeded", info={'key': 'merge-external-success-on-failure'})
        else:
            vm.check(z3.Or(z3.Not(exists), same, BOOL(failed_cb)), "merge_external fails only for a missing destination, the same track, or a failed merge")
            vm.check(z3.And([struct_eq(st.shard(i), before[i]) for i in range(S)]), "a failed merge leaves the store unchanged")
        for i in range(S):
            vm.check(BOOL(st.pending(i) == 0), "the merge command was handled")
    return q


def _mk_merge_noblock(S, n):
    """the non-blocking path: merge_external_noblock queues the command, the caller later blocks in FutureMergeResponse::get"""
    def q(vm, P):
        st, ids, tracks = _mk_store(vm, P, S, n)
        sid, src = sym_track(P, vm, 'src')
        dest_id = vm.fresh(64, 'dest_id')
        flag = vm.choose_n(2, "history flag")
        cls = SOME(Ref(Cell(VecV((usize(0),)), 'classes')))
        before = [st.shard(i) for i in range(S)]
        r = vm.exec_fn(_fn(P, 'merge_external_noblock'), [st.ref(), dest_id, src, cls, BOOL(bool(flag))], STORE_ENV)
        vm.check(BOOL(r.variant == 0), "queueing the merge succeeds")
        fut = Cell(r.fields[0], 'future')
        get = P.impl_methods[('FutureMergeResponse', None, 'get')][0][0]
        res = vm.exec_fn(get, [Ref(fut)], STORE_ENV)
        e = vm.notes.get('env') or Env(vm)
        exists = z3.Or([dest_id.e == i.e for i in ids] + [z3.BoolVal(False)])
        same = dest_id.e == sid.e
        failed_cb = e.count('fail') > 0
        vm.notes.update(kind='merge_noblock', n=n, S=S, flag=flag)
        for tid, t in zip(ids, tracks):
            cur = [v for i in range(S) for k, v in st.shard(i).items if k is tid]
            vm.check(BOOL(len(cur) == 1), "no stored track is removed or duplicated")
            vm.check(z3.Implies(tid.e != dest_id.e, struct_eq(cur[0], t)), "merging changes only the destination")
        if res.variant == 0:
            vm.check(z3.And(exists, z3.Not(same)), "the non-blocking merge reports success only when the destination exists and differs from the source")
            vm.check(BOOL(not failed_cb), "the non-blocking merge reports success only when the merge itself succeeded")
        else:
            vm.check(z3.Or(z3.Not(exists), same, BOOL(failed_cb)), "the non-blocking merge fails only for a missing destination, the same track, or a failed merge")
            vm.check(z3.And([struct_eq(st.shard(i), before[i]) for i in range(S)]), "a failed merge leaves the store unchanged")
    return q


def _mk_merge_owned(S, n):
    def q(vm, P):
        st, ids, tracks = _mk_store(vm, P, S, n)
        dest_id, src_id = vm.fresh(64, 'dest_id'), vm.fresh(64, 'src_id')
        remove = vm.choose_n(2, "remove_src_if_ok")
        flag = vm.choose_n(2, "history flag")
        cls = SOME(Ref(Cell(VecV((usize(0),)), 'classes')))
        before = [st.shard(i) for i in range(S)]
        r = vm.exec_fn(_fn(P, 'merge_owned'), [st.ref(), dest_id, src_id, cls, BOOL(bool(remove)), BOOL(bool(flag))], STORE_ENV)
        e = vm.notes.get('env') or Env(vm)
        src_exists = z3.Or([src_id.e == i.e for i in ids] + [z3.BoolVal(False)])
        dest_exists = z3.Or([dest_id.e == i.e for i in ids] + [z3.BoolVal(False)])
        same = dest_id.e == src_id.e
        failed_cb = e.count('fail') > 0
        vm.notes.update(kind='merge_owned', n=n, S=S, flag=flag, remove=remove, fails=[x[1] for x in e.events if x[0] == 'fail'], ncb=e.ncalls)
        if r.variant == 0:
            vm.check(z3.And(src_exists, dest_exists, z3.Not(same), BOOL(not failed_cb)),
                     "merge_owned reports success only when both tracks exist, differ, and the merge succeeded", info={'key': 'merge-owned-success-on-failure'})
            for tid, t in zip(ids, tracks):
                cur = [v for i in range(S) for k, v in st.shard(i).items if k is tid]
                is_src = tid.e == src_id.e
                if remove:
                    vm.check(z3.If(is_src, BOOL(len(cur) == 0), BOOL(len(cur) == 1)), "on success the source is removed exactly when asked")
                else:
                    vm.check(BOOL(len(cur) == 1), "on success the source is kept when removal was not asked")
                if cur:
                    vm.check(z3.Implies(tid.e != dest_id.e, struct_eq(cur[0], t)), "only the destination changes")
            opt = r.fields[0]
            if remove:
                vm.check(BOOL(opt.variant == 1), "the removed source is handed back")
                vm.check(fld(P, opt.fields[0], 'Track', 'track_id').e == src_id.e, "the returned track is the source")
            else:
                vm.check(BOOL(opt.variant == 0), "nothing is handed back when the source stays")
        else:
            vm.check(z3.Or(z3.Not(src_exists), z3.Not(dest_exists), same, BOOL(failed_cb)), "merge_owned fails only for a reason")
            vm.check(z3.And([struct_eq_unordered(st.shard(i), before[i]) for i in range(S)]), "a failed owned merge leaves both tracks stored and unchanged")
        _invariant(vm, st)
    return q


def struct_eq_unordered(a, b):
    return struct_eq(a, b)   # MapV comparison in struct_eq matches entries by key


# ---------------------------------------------------------------- add(): by-id update == add_observation / builder + add_track
def _mk_add(S, existing):
    def q(vm, P):
        st, ids, tracks = _mk_store(vm, P, S, 1)
        if existing:
            tid = ids[0]
        else:
            tid = vm.fresh(64, 'new_id')
            vm.assume(tid.e != ids[0].e)
        cls = usize(0) if vm.choose_n(2, "class") == 0 else usize(7)
        attrs_given = vm.choose_n(2, "attrs given")
        feat_given = vm.choose_n(2, "feature given")
        upd_given = vm.choose_n(2, "update given")
        fa = SOME(Opaque('OA', 'new')) if attrs_given else NONE
        fe = SOME(VecV((Opaque('f32x8', 'feat'),))) if feat_given else NONE
        upd = SOME(Opaque('Update', 'u')) if upd_given else NONE
        vm.notes.update(kind='add', S=S, existing=existing, attrs_given=attrs_given, feat_given=feat_given, upd_given=upd_given, cls=cls.concrete())
        # reference execution on a copy of the state
        env_a = Env(vm)
        vm.notes['env'] = env_a
        r = vm.exec_fn(_fn(P, 'add'), [st.ref(), tid, cls, fa, fe, upd], STORE_ENV)
        got = [v for i in range(S) for k, v in st.shard(i).items if k is tid or z3.is_true(z3.simplify(k.e == tid.e))]
        env_b = env_a.fork()
        vm.notes['env'] = env_b
        if existing:
            ref_cell = Cell(tracks[0], 'reftrack')
            fn = P.impl_methods[('Track', None, 'add_observation')][0][0]
            rr = vm.exec_fn(fn, [Ref(ref_cell), cls, fa, fe, upd], STORE_ENV)
            ref_track = ref_cell.v
        else:
            # TrackBuilder::new(id).metric(..).attributes(..).notifier(..).observation(..).build() ; add_track
            b = vm.exec_fn(_fn(P, 'new_track'), [st.ref(), tid], STORE_ENV)
            bobs = P.impl_methods[('TrackBuilder', None, 'observation')][0][0]
            b = vm.exec_fn(bobs, [b, (cls, fa, fe, upd)], STORE_ENV)
            bbuild = P.impl_methods[('TrackBuilder', None, 'build')][0][0]
            rb = vm.exec_fn(bbuild, [b], STORE_ENV)
            rr = rb if rb.variant == 1 else OK(())
            ref_track = rb.fields[0] if rb.variant == 0 else None
        vm.notes['ev_add'] = env_a.kinds()
        vm.notes['ev_ref'] = env_b.kinds()
        what = "existing track: add_observation" if existing else "missing track: builder + add_track"
        vm.check(BOOL(r.variant == rr.variant), "add() succeeds/fails exactly as the reference (%s)" % what, info={'key': 'add-missing-differs-from-builder'})
        vm.check(BOOL(env_a.kinds() == env_b.kinds()), "add() makes the same callbacks and notifications as the reference (%s)" % what,
                 info={'key': 'add-missing-differs-from-builder'})
        if r.variant == 0:
            vm.check(BOOL(len(got) == 1), "after a successful add the track is stored")
            vm.check(struct_eq(got[0], ref_track), "the stored track equals the reference result (%s)" % what, info={'key': 'add-missing-differs-from-builder'})
        elif not existing:
            vm.check(BOOL(len(got) == 0), "a failed add of a missing id inserts nothing")
        else:
            vm.check(struct_eq(got[0], tracks[0]), "a failed add leaves the track unchanged")
        _invariant(vm, st)
    return q


# ---------------------------------------------------------------- native replays
STORE_PRELUDE = c11.REPLAY_PRELUDE + r'''
use similari::store::TrackStore;
static OPT_CALLS: AtomicI64 = AtomicI64::new(0);
fn mk_store(shards: usize, notif: &Notif) -> TrackStore<TA, M, f32, Notif> {
    TrackStore::new(M::default(), TA::default(), notif.clone(), shards)
}
'''


MERGE_SWEEP = r'''
fn stored(store: &TrackStore<TA, M, f32, Notif>, id: u64) -> Option<(TA, Vec<Option<Vec<Option<f32>>>>, Vec<u64>)> {
    store.get_store(id as usize).get(&id).map(|t| snapshot(t, &[0u64, 7u64]))
}

#[test]
fn replay() {
    // native sweep of the discrete choices of the query around the counterexample's ids:
    // destination / source existing, missing or the same track; both flags; every fault position of the callbacks
    let (a, b, missing): (u64, u64, u64) = (%(a)d, %(b)d, %(missing)d);
    for fail_at in -1i64..4 { for hist in [false, true] { for remove in [false, true] {
        for (dest, src) in [(a, b), (b, a), (a, missing), (missing, b), (a, a), (missing, missing)] {
            let notif = Notif::default();
            let mut store = mk_store(%(S)d, &notif);
            store.add_track(build(a, &[0u64], &notif)).unwrap();
            store.add_track(build(b, &[0u64, 7u64], &notif)).unwrap();
            let (sa, sb) = (stored(&store, a), stored(&store, b));
            let exists = |x: u64| x == a || x == b;
            %(body)s
        }
    }}}
}
'''

OWNED_BODY = r'''CALLS.store(0, Ordering::SeqCst);
            FAIL_AT.store(fail_at, Ordering::SeqCst);
            let r = store.merge_owned(dest, src, Some(&[0]), remove, hist);
            FAIL_AT.store(-1, Ordering::SeqCst);
            let failed_cb = fail_at >= 0 && CALLS.load(Ordering::SeqCst) > fail_at;
            let ctx = format!("dest {} src {} remove {} history {} fault position {}", dest, src, remove, hist, fail_at);
            let total: usize = store.shard_stats().iter().sum();
            match r {
                Ok(opt) => {
                    assert!(exists(dest) && exists(src) && dest != src && !failed_cb, "merge_owned reported success without a successful merge: {}", ctx);
                    assert_eq!(opt.is_some(), remove, "the source is handed back exactly when removal was asked: {}", ctx);
                    if let Some(t) = &opt { assert_eq!(t.get_track_id(), src, "the returned track is the source: {}", ctx); }
                    assert_eq!(stored(&store, src).is_some(), !remove, "on success the source is removed exactly when asked: {}", ctx);
                    assert_eq!(total, if remove { 1 } else { 2 }, "{}", ctx);
                    if !remove { assert_eq!(stored(&store, src), if src == a { sa.clone() } else { sb.clone() }, "the source is unchanged: {}", ctx); }
                }
                Err(_) => {
                    assert!(!exists(dest) || !exists(src) || dest == src || failed_cb, "merge_owned failed without a reason: {}", ctx);
                    assert_eq!(total, 2, "a failed owned merge leaves both tracks stored: {}", ctx);
                    assert_eq!(stored(&store, a), sa, "a failed owned merge leaves the tracks unchanged: {}", ctx);
                    assert_eq!(stored(&store, b), sb, "a failed owned merge leaves the tracks unchanged: {}", ctx);
                }
            }'''

EXTERNAL_BODY = r'''let _ = remove;
            let src_track = if src == missing { build(missing, &[0u64], &notif) } else { store.get_store(src as usize).get(&src).unwrap().clone() };
            let src_before = snapshot(&src_track, &[0u64, 7u64]);
            CALLS.store(0, Ordering::SeqCst);
            FAIL_AT.store(fail_at, Ordering::SeqCst);
            let r = store.merge_external(dest, &src_track, Some(&[0]), hist);
            FAIL_AT.store(-1, Ordering::SeqCst);
            let failed_cb = fail_at >= 0 && CALLS.load(Ordering::SeqCst) > fail_at;
            let ctx = format!("dest {} src {} history {} fault position {}", dest, src, hist, fail_at);
            let total: usize = store.shard_stats().iter().sum();
            assert_eq!(total, 2, "no stored track is removed or duplicated: {}", ctx);
            assert_eq!(snapshot(&src_track, &[0u64, 7u64]), src_before, "the source is not modified: {}", ctx);
            let other = if dest == a { b } else { a };
            assert_eq!(stored(&store, other), if other == a { sa.clone() } else { sb.clone() }, "merging changes only the destination: {}", ctx);
            match r {
                Ok(()) => assert!(exists(dest) && dest != src && !failed_cb, "merge_external reported success without a successful merge: {}", ctx),
                Err(_) => {
                    assert!(!exists(dest) || dest == src || failed_cb, "merge_external failed without a reason: {}", ctx);
                    assert_eq!(stored(&store, a), sa, "a failed merge leaves the store unchanged: {}", ctx);
                    assert_eq!(stored(&store, b), sb, "a failed merge leaves the store unchanged: {}", ctx);
                }
            }'''


NOBLOCK_BODY = r'''let _ = remove;
            let src_track = if src == missing { build(missing, &[0u64], &notif) } else { store.get_store(src as usize).get(&src).unwrap().clone() };
            CALLS.store(0, Ordering::SeqCst);
            FAIL_AT.store(fail_at, Ordering::SeqCst);
            let fut = store.merge_external_noblock(dest, src_track, Some(&[0]), hist).expect("queueing succeeds");
            let r = fut.get();
            FAIL_AT.store(-1, Ordering::SeqCst);
            let failed_cb = fail_at >= 0 && CALLS.load(Ordering::SeqCst) > fail_at;
            let ctx = format!("non-blocking: dest {} src {} history {} fault position {}", dest, src, hist, fail_at);
            assert_eq!(store.shard_stats().iter().sum::<usize>(), 2, "no stored track is removed or duplicated: {}", ctx);
            let other = if dest == a { b } else { a };
            assert_eq!(stored(&store, other), if other == a { sa.clone() } else { sb.clone() }, "merging changes only the destination: {}", ctx);
            match r {
                Ok(()) => assert!(exists(dest) && dest != src && !failed_cb, "the non-blocking merge reported success without a successful merge: {}", ctx),
                Err(_) => {
                    assert!(!exists(dest) || dest == src || failed_cb, "the non-blocking merge failed without a reason: {}", ctx);
                    assert_eq!(stored(&store, a), sa, "a failed merge leaves the store unchanged: {}", ctx);
                    assert_eq!(stored(&store, b), sb, "a failed merge leaves the store unchanged: {}", ctx);
                }
            }'''


def _replay_merge_noblock(cex, v, vm):
    a, b, missing = _sweep_ids(cex)
    return STORE_PRELUDE + MERGE_SWEEP % dict(a=a, b=b, missing=missing, S=vm.notes.get('S', 1), body=NOBLOCK_BODY)


def _sweep_ids(cex):
    ids = []
    for k, val in cex["inputs"].items():
        nm = k.split('!')[0]
        if (nm.endswith('_id') or nm in ('dest_id', 'src_id', 'new_id')) and isinstance(val, int) and val not in ids:
            ids.append(val)
    ids = ids[:2]
    k = 11
    while len(ids) < 3:
        if k not in ids:
            ids.append(k)
        k += 1
    return ids


def _replay_merge_external(cex, v, vm):
    a, b, missing = _sweep_ids(cex)
    return STORE_PRELUDE + MERGE_SWEEP % dict(a=a, b=b, missing=missing, S=vm.notes.get('S', 1), body=EXTERNAL_BODY)


def _replay_merge_owned(cex, v, vm):
    a, b, missing = _sweep_ids(cex)
    return STORE_PRELUDE + MERGE_SWEEP % dict(a=a, b=b, missing=missing, S=vm.notes.get('S', 1), body=OWNED_BODY)


MAP_SWEEP = r'''
use anyhow::{anyhow, Result};
use similari::store::TrackStore;
use similari::track::notify::NoopNotifier;
use similari::track::{
    LookupRequest, MetricOutput, MetricQuery, Observation, ObservationMetric, ObservationsDb, Track, TrackAttributes,
    TrackAttributesUpdate, TrackStatus,
};

// attributes whose status / lookup answer is scripted by `v`: v % 4 = 0 Ready, 1 Pending, 2 Wasted, 3 error
#[derive(Clone, Debug, PartialEq, Default)]
struct TA { v: u64 }
#[derive(Clone)]
struct Upd(u64);
impl TrackAttributesUpdate<TA> for Upd { fn apply(&self, a: &mut TA) -> Result<()> { a.v = self.0; Ok(()) } }
#[derive(Clone)]
struct Look(u64);
impl LookupRequest<TA, f32> for Look {
    fn lookup(&self, a: &TA, _o: &ObservationsDb<f32>, _h: &[u64]) -> bool { (self.0 >> (a.v % 8)) & 1 == 1 }
}
impl TrackAttributes<TA, f32> for TA {
    type Update = Upd;
    type Lookup = Look;
    fn compatible(&self, _o: &TA) -> bool { true }
    fn merge(&mut self, _o: &TA) -> Result<()> { Ok(()) }
    fn baked(&self, _o: &ObservationsDb<f32>) -> Result<TrackStatus> {
        match self.v % 4 { 0 => Ok(TrackStatus::Ready), 1 => Ok(TrackStatus::Pending), 2 => Ok(TrackStatus::Wasted), _ => Err(anyhow!("scripted status error")) }
    }
}
#[derive(Clone, Default)]
struct M;
impl ObservationMetric<TA, f32> for M {
    fn metric(&self, _mq: &MetricQuery<'_, TA, f32>) -> MetricOutput<f32> { None }
    fn optimize(&mut self, _c: u64, _h: &[u64], _a: &mut TA, _o: &mut Vec<Observation<f32>>, _p: usize, _m: bool) -> Result<()> { Ok(()) }
}
type T = Track<TA, M, f32, NoopNotifier>;
type S = TrackStore<TA, M, f32, NoopNotifier>;
fn mk(id: u64, v: u64) -> T {
    let mut t = T::new(id, M, TA { v }, NoopNotifier);
    t.add_observation(0, Some(id as f32), None, None).unwrap();
    t
}
fn status_code(r: &Result<TrackStatus>) -> u64 { match r { Ok(TrackStatus::Ready) => 0, Ok(TrackStatus::Pending) => 1, Ok(TrackStatus::Wasted) => 2, Err(_) => 3 } }
fn contents(s: &S, shards: usize) -> Vec<(usize, u64, u64)> {
    // (shard, id, v) of every stored track, read shard by shard
    let mut out = vec![];
    for sh in 0..shards { for (id, t) in s.get_store(sh).iter() { out.push((sh, *id, t.get_attributes().v)); } }
    out.sort();
    out
}

#[test]
fn replay() {
    let shards: usize = %(S)d;
    let ids: Vec<u64> = vec![%(ids)s];
    // ---- add_track / duplicates / placement / statistics / clear
    for n in 0..=ids.len() {
        let mut s: S = TrackStore::new(M, TA::default(), NoopNotifier, shards);
        let mut model: Vec<(u64, u64)> = vec![];
        for (k, id) in ids.iter().take(n).enumerate() {
            let r = s.add_track(mk(*id, k as u64));
            if model.iter().any(|m| m.0 == *id) {
                assert!(r.is_err(), "a duplicate id must be rejected");
            } else {
                assert_eq!(r.unwrap(), *id, "add_track returns the id");
                model.push((*id, k as u64));
            }
            let mut exp: Vec<(usize, u64, u64)> = model.iter().map(|m| ((m.0 % shards as u64) as usize, m.0, m.1)).collect();
            exp.sort();
            assert_eq!(contents(&s, shards), exp, "every added track is stored once, in shard id % shards, unchanged");
            let stats = s.shard_stats();
            assert_eq!(stats.len(), shards);
            for sh in 0..shards { assert_eq!(stats[sh], exp.iter().filter(|e| e.0 == sh).count(), "shard_stats = per-shard sizes"); }
            assert_eq!(s.get_executor(*id as usize), (*id % shards as u64) as usize, "executor = id % shards");
        }
        // ---- lookup / find_usable: exactly the tracks satisfying the predicate / not Pending, with their status
        for mask in [0u64, 1, 2, 5, 0xff] {
            let mut got: Vec<(u64, u64)> = s.lookup(Look(mask)).iter().map(|(id, st)| (*id, status_code(st))).collect();
            got.sort();
            let mut exp: Vec<(u64, u64)> = model.iter().filter(|m| (mask >> (m.1 % 8)) & 1 == 1).map(|m| (m.0, m.1 % 4)).collect();
            exp.sort();
            assert_eq!(got, exp, "lookup returns exactly the tracks satisfying the predicate, with their status");
        }
        let mut got: Vec<(u64, u64)> = s.find_usable().iter().map(|(id, st)| (*id, status_code(st))).collect();
        got.sort();
        let mut exp: Vec<(u64, u64)> = model.iter().filter(|m| m.1 % 4 != 1).map(|m| (m.0, m.1 % 4)).collect();
        exp.sort();
        assert_eq!(got, exp, "find_usable returns exactly the non-Pending tracks, with their status");
        // ---- new_track: builder carries the id and the store's defaults
        let nt = s.new_track(ids[0]).observation((0u64, Some(1.0f32), None, None)).build().unwrap();
        assert_eq!(nt.get_track_id(), ids[0]);
        assert_eq!(nt.get_attributes(), &TA::default());
        // ---- add() on an existing id = add_observation on that track, everything else untouched
        if let Some(m0) = model.first().cloned() {
            let before = contents(&s, shards);
            s.add(m0.0, 3, Some(7.0), None, Some(Upd(m0.1 + 8))).unwrap();
            let mut exp = before.clone();
            for e in exp.iter_mut() { if e.1 == m0.0 { e.2 = m0.1 + 8; } }
            assert_eq!(contents(&s, shards), exp, "add() on an existing id updates only that track");
            assert_eq!(s.get_store(m0.0 as usize).get(&m0.0).unwrap().get_observations(3).map(|o| o.len()), Some(1), "the observation was added");
            s.add(m0.0, 3, None, None, Some(Upd(m0.1))).unwrap();
        }
        // ---- fetch_tracks: removes and returns exactly the requested existing tracks (order not specified)
        let probes: Vec<u64> = ids.iter().cloned().chain([%(missing)du64]).collect();
        for x in &probes { for y in &probes {
            let mut s2: S = TrackStore::new(M, TA::default(), NoopNotifier, shards);
            for m in &model { s2.add_track(mk(m.0, m.1)).unwrap(); }
            let got: Vec<u64> = s2.fetch_tracks(&[*x, *y]).iter().map(|t| t.get_track_id()).collect();
            let mut exp: Vec<u64> = vec![];
            for q in [*x, *y] { if model.iter().any(|m| m.0 == q) && !exp.contains(&q) { exp.push(q); } }
            let (mut got, mut exp) = (got, exp);
            got.sort();
            exp.sort();
            assert_eq!(got, exp, "fetch_tracks returns exactly the requested existing tracks, each once");
            let mut left: Vec<u64> = contents(&s2, shards).iter().map(|e| e.1).collect();
            left.sort();
            let mut exp_left: Vec<u64> = model.iter().map(|m| m.0).filter(|i| !exp.contains(i)).collect();
            exp_left.sort();
            assert_eq!(left, exp_left, "fetch_tracks removes exactly the returned tracks");
            assert_eq!(s2.shard_stats().iter().sum::<usize>(), exp_left.len());
        } }
        s.clear();
        assert!(s.shard_stats().iter().all(|c| *c == 0), "clear empties every shard");
    }
}
'''


def _replay_map_ops(cex, v, vm):
    ids = []
    for k, val in cex["inputs"].items():
        nm = k.split('!')[0]
        if (nm.endswith('_id') or nm.startswith(('id', 'req', 'new', 'probe'))) and isinstance(val, int):
            ids.append(val)
    ids = (ids or [5])[:4]
    missing = 77
    while missing in ids:
        missing += 1
    S = vm.notes.get('S') or 1
    return (MAP_SWEEP.replace("%(S)d", str(S)).replace("%(ids)s", ", ".join("%du64" % i for i in ids)).replace("%(missing)d", str(missing)))


def _replay_add_existing(cex, v, vm):
    n = vm.notes
    return STORE_PRELUDE + '''
#[test]
fn replay() {
    // add() on a stored id vs. the same add_observation on a copy of the track, for every fault position
    for fail_at in -1i64..4 {
        let notif = Notif::default();
        let mut store = mk_store(%(S)d, &notif);
        store.add_track(build(5, &[0u64], &notif)).unwrap();
        store.add_track(build(6, &[0u64], &notif)).unwrap();
        let mut reference = store.get_store(5).get(&5).unwrap().clone();
        let other_before = snapshot(store.get_store(6).get(&6).unwrap(), &[0u64, 7u64]);
        CALLS.store(0, Ordering::SeqCst);
        FAIL_AT.store(fail_at, Ordering::SeqCst);
        let r1 = reference.add_observation(%(cls)d, %(attrs)s, %(feat)s, %(upd)s);
        let ref_calls = CALLS.load(Ordering::SeqCst);
        CALLS.store(0, Ordering::SeqCst);
        FAIL_AT.store(fail_at, Ordering::SeqCst);
        let r2 = store.add(5, %(cls)d, %(attrs)s, %(feat)s, %(upd)s);
        FAIL_AT.store(-1, Ordering::SeqCst);
        assert_eq!(r1.is_ok(), r2.is_ok(), "add() on an existing id succeeds exactly when add_observation does (fault position {})", fail_at);
        assert_eq!(CALLS.load(Ordering::SeqCst), ref_calls, "same callbacks (fault position {})", fail_at);
        assert_eq!(snapshot(store.get_store(5).get(&5).unwrap(), &[0u64, 7u64]), snapshot(&reference, &[0u64, 7u64]), "same resulting track (fault position {})", fail_at);
        assert_eq!(snapshot(store.get_store(6).get(&6).unwrap(), &[0u64, 7u64]), other_before, "other tracks untouched");
        assert_eq!(store.shard_stats().iter().sum::<usize>(), 2);
    }
}
''' % dict(S=n.get('S', 1), cls=n['cls'], attrs="Some(5.0f32)" if n['attrs_given'] else "None", feat="Some(vec![])" if n['feat_given'] else "None",
           upd="Some(Upd)" if n['upd_given'] else "None")


def _replay_future_get(cex, v, vm):
    return _replay_merge_external(cex, v, vm)


def _replay_add_missing(cex, v, vm):
    n = vm.notes
    return STORE_PRELUDE + '''
#[test]
fn replay() {
    // every fault position of the callbacks (-1 = none): add() by id on a missing track vs. build externally + insert
    for fail_at in -1i64..4 {
        let n1 = Notif::default();
        let mut s1 = mk_store(%(S)d, &n1);
        CALLS.store(0, Ordering::SeqCst);
        FAIL_AT.store(fail_at, Ordering::SeqCst);
        let built = s1.new_track(5).observation((%(cls)du64, %(attrs)s, %(feat)s, %(upd)s)).build();
        let ref_ok = match built { Ok(t) => { s1.add_track(t).unwrap(); true } Err(_) => false };
        FAIL_AT.store(-1, Ordering::SeqCst);
        let ref_calls = CALLS.load(Ordering::SeqCst);
        let ref_sends = n1.n.load(Ordering::SeqCst);
        let n2 = Notif::default();
        let mut s2 = mk_store(%(S)d, &n2);
        CALLS.store(0, Ordering::SeqCst);
        FAIL_AT.store(fail_at, Ordering::SeqCst);
        let r = s2.add(5, %(cls)du64, %(attrs)s, %(feat)s, %(upd)s);
        FAIL_AT.store(-1, Ordering::SeqCst);
        let add_calls = CALLS.load(Ordering::SeqCst);
        let add_sends = n2.n.load(Ordering::SeqCst);
        assert_eq!(r.is_ok(), ref_ok, "add() on a missing id succeeds exactly when building the track externally does (fault position {})", fail_at);
        let stored: usize = s2.shard_stats().iter().sum();
        if r.is_err() {
            assert_eq!(stored, 0, "a failed add of a missing id must insert nothing (fault position {})", fail_at);
            assert!(s2.fetch_tracks(&vec![5]).is_empty(), "a failed add of a missing id must insert nothing");
            continue;
        }
        assert_eq!(stored, 1);
        assert_eq!(add_calls, ref_calls, "add() on a missing id must make the same callbacks as builder + add_track");
        assert_eq!(add_sends, ref_sends, "add() on a missing id must emit the same notifications as builder + add_track");
        let a = s1.get_store(5).get(&5).unwrap().get_attributes().clone();
        let b = s2.get_store(5).get(&5).unwrap().get_attributes().clone();
        assert_eq!(a, b, "the created track must equal the externally built one");
    }
}
''' % dict(S=n.get('S', 1), cls=n['cls'], attrs="Some(5.0f32)" if n['attrs_given'] else "None", feat="Some(vec![])" if n['feat_given'] else "None",
           upd="Some(Upd)" if n['upd_given'] else "None")


TS = "similari::track::store::TrackStore::"
W = TS + "handle_store_ops"
MIR = [
    MQ("c09_sharding_1", "quick", _mk_sharding(1), "get_store / get_executor select shard id % shards", "1 shard, symbolic id", [TS + "get_store", TS + "get_executor"], replay=_replay_map_ops),
    MQ("c09_sharding_2", "quick", _mk_sharding(2), "get_store / get_executor select shard id % shards", "2 shards, symbolic id", [TS + "get_store", TS + "get_executor"], replay=_replay_map_ops),
    MQ("c09_sharding_3", "quick", _mk_sharding(3), "get_store / get_executor select shard id % shards", "3 shards, symbolic id", [TS + "get_store", TS + "get_executor"], replay=_replay_map_ops),
    MQ("c09_future_get", "quick", q_future_get, "FutureMergeResponse::get surfaces the worker's MergeResult", "Ok / Err result queued",
       ["similari::track::store::FutureMergeResponse::get"], replay=_replay_future_get, key='future-get-drops-merge-result'),
    MQ("c09_new_track", "quick", q_new_track, "new_track clones the store's metric, default attributes and notifier into the builder", "symbolic id", [TS + "new_track"], replay=_replay_map_ops),
]
for S, n, tier in [(1, 2, 'quick'), (2, 2, 'quick'), (3, 2, 'thorough'), (2, 3, 'thorough')]:
    MIR += [
        MQ("c09_add_track_%d_%d" % (S, n), tier, _mk_add_track(S, n), "add_track inserts a fresh id into shard id%shards, rejects duplicates without change",
           "%d shards, %d stored tracks + 1 new (symbolic ids, possibly equal)" % (S, n), [TS + "add_track", TS + "get_store"], replay=_replay_map_ops),
        MQ("c09_fetch_%d_%d" % (S, n), tier, _mk_fetch(S, n, 2), "fetch_tracks removes and returns exactly the requested existing tracks, each once",
           "%d shards, %d stored tracks, 2 requested symbolic ids (duplicates / missing allowed)" % (S, n), [TS + "fetch_tracks"], replay=_replay_map_ops),
        MQ("c09_stats_clear_%d_%d" % (S, n), tier, _mk_stats_clear(S, n), "shard_stats = per-shard sizes summing to the number of tracks; clear empties all",
           "%d shards, %d stored tracks" % (S, n), [TS + "shard_stats", TS + "clear"], replay=_replay_map_ops),
        MQ("c09_lookup_%d_%d" % (S, n), tier, _mk_scan(S, n, 'lookup'), "lookup returns exactly the tracks satisfying the predicate with their status",
           "%d shards, %d stored tracks, arbitrary predicate/status per track" % (S, n), [TS + "lookup", W], spec_calls=_status_calls, replay=_replay_map_ops),
        MQ("c09_find_usable_%d_%d" % (S, n), tier, _mk_scan(S, n, 'find_usable'), "find_usable returns exactly the non-Pending tracks with their status",
           "%d shards, %d stored tracks, arbitrary status per track" % (S, n), [TS + "find_usable", W], spec_calls=_status_calls, replay=_replay_map_ops),
        MQ("c09_merge_external_%d_%d" % (S, n), tier, _mk_merge_external(S, n),
           "merge_external changes only the destination and reports failure for a missing destination, the same track, or a failed merge",
           "%d shards, %d stored tracks, symbolic destination id / source id, every fault position" % (S, n),
           [TS + "merge_external", TS + "merge_external_noblock", W, "similari::track::Track::merge", "similari::track::store::FutureMergeResponse::get"],
           spec_calls=track_callbacks, replay=_replay_merge_external, key='merge-external-success-on-failure'),
        MQ("c09_merge_noblock_%d_%d" % (S, n), tier, _mk_merge_noblock(S, n),
           "merge_external_noblock + FutureMergeResponse::get: same reporting as the blocking merge (missing destination, same track, failed merge -> error, store unchanged)",
           "%d shards, %d stored tracks, symbolic destination id / source id, every fault position" % (S, n),
           [TS + "merge_external_noblock", W, "similari::track::Track::merge", "similari::track::store::FutureMergeResponse::get"],
           spec_calls=track_callbacks, replay=_replay_merge_noblock),
        MQ("c09_merge_owned_%d_%d" % (S, n), tier, _mk_merge_owned(S, n),
           "merge_owned: missing source/destination, same track or failed merge -> error with both tracks stored and unchanged; success -> source removed iff asked",
           "%d shards, %d stored tracks, symbolic ids, both flags, every fault position" % (S, n),
           [TS + "merge_owned", TS + "merge_external", TS + "fetch_tracks", TS + "add_track", W], spec_calls=track_callbacks,
           replay=_replay_merge_owned, key='merge-owned-success-on-failure', max_paths=200000, timeout=1500),
    ]
for S in (1, 2):
    MIR += [
        MQ("c09_add_existing_%d" % S, "quick", _mk_add(S, True), "add() on an existing id behaves exactly as Track::add_observation",
           "%d shards, class present/absent, attrs/feature/update given or not, every fault position" % S, [TS + "add", "similari::track::Track::add_observation"],
           spec_calls=track_callbacks, replay=_replay_add_existing),
        MQ("c09_add_missing_%d" % S, "quick", _mk_add(S, False), "add() on a missing id creates the track exactly as builder + add_track would",
           "%d shards, attrs/feature/update given or not, every fault position" % S,
           [TS + "add", TS + "new_track", "similari::track::builder::TrackBuilder::build", "similari::track::Track::new"],
           spec_calls=track_callbacks, replay=_replay_add_missing, key='add-missing-differs-from-builder'),
    ]
