"""C02 - positional association is gated and a maximum-weight one-to-one assignment (engine M)."""
import itertools
import z3
from mir_engine import MQ
from mirlib import *
from envlib import struct_eq

EXPLANATION = ("Bounded symbolic execution of the MIR of SortMetric::metric / postprocess_distances (gate) and of "
               "SortVoting::winners (assignment). Gate: IoU value, confidence, thresholds are free f32; too_far / "
               "calculate_metric_object / Kalman distance are uninterpreted (their numbers are C07/C08). Assignment: the result "
               "stream is symbolic (ids chosen by z3 among the candidate / track ids, weights symbolic), the real matrix "
               "construction and result decoding run from MIR, pathfinding::kuhn_munkres is replaced by its contract (some "
               "maximum-weight row->column injection); the oracle compares the returned assignment with every alternative "
               "one-to-one assignment.")
ASSUMPTIONS = ["kuhn_munkres returns a maximum-weight assignment (contract of the pathfinding crate; a bug inside it is outside the claim)",
               "stream of <= 3 results over <= 2 candidates x <= 2 tracks; candidate and track ids disjoint, > 0",
               "weights: attribute_metric from the grid {0, .125, .25, .3125, .375, .5, .75, .875} selected by a symbolic index (the i64 conversion x10^6 is executed and constant-folded per grid value); threshold any i64 in (0, 10^9]",
               "track_num >= number of distinct tracks in the stream; candidate_num >= distinct candidates"]
OUTSIDE = ["the IoU / Mahalanobis numbers themselves (C07, C08)", "larger matrices", "whole tracker histories"]


# ------------------------------------------------------------------ gate
def _gate_calls(P):
    def too_far(vm, cal, args):
        return vm.notes['too_far']

    def cmo(vm, cal, args):
        return vm.notes['iou']

    def distance(vm, cal, args):
        return vm.notes['maha']

    def kf_new(vm, cal, args):
        return Opaque('Universal2DBoxKalmanFilter', 'f')
    return {('Universal2DBox', None, 'too_far'): too_far, ('Universal2DBox', 'ObservationAttributes', 'calculate_metric_object'): cmo,
            ('Universal2DBoxKalmanFilter', None, 'distance'): distance, ('Universal2DBoxKalmanFilter', None, 'new'): kf_new}


def _box_conf(vm, conf, tag):
    return Adt('Universal2DBox', 0, (f32(float(tag)), f32(0.0), NONE, f32(1.0), f32(1.0), conf, NONE))


def _mk_gate(mode):
    def q(vm, P):
        from C03 import sort_attrs
        fn = P.impl_methods[('SortMetric', 'ObservationMetric', 'metric')][0][0]
        # the products IoU x confidence are compared with a free threshold; the factors come from exact grids so that a
        # changed implementation (a different product) is decided too instead of timing out in the bit-blaster
        conf = grid_f32(vm, 'conf', [0.0625, 0.25, 0.5, 1.0])
        minc = grid_f32(vm, 'min_conf', [0.03125, 0.25, 0.75])
        thr = vm.fresh('f32', 'threshold')
        vm.assume(fp_in(thr, 0.0, 1.0))
        far = vm.fresh('bool', 'too_far')
        vm.notes['too_far'] = far
        if mode == 'iou':
            has_iou = vm.choose_n(2, "boxes overlap")
            iou = grid_f32(vm, 'iou', [0.0, 0.125, 0.25, 0.5, 0.75, 1.0])
            vm.notes['iou'] = SOME(iou) if has_iou == 0 else NONE
            method = variant(P, 'PositionalMetricType', 'IoU', thr)
        else:
            maha = grid_f32(vm, 'maha', [0.0, 4.0, 11.0, 11.125, 20.0, 200.0])
            vm.notes['maha'] = maha
            method = variant(P, 'PositionalMetricType', 'Mahalanobis')
        metric = Cell(mk(P, 'SortMetric', method=method, min_confidence=minc), 'metric')
        opts = Cell(sort_options(P, vm, [], usize(5)), 'opts')
        ta = sort_attrs(P, vm, Ref(opts), usize(0), usize(1))
        ta = Adt(ta.ty, 0, tuple(SOME(Opaque('KalmanState', 'st')) if i == P.decls.field_index('SortAttributes', 'state') else f for i, f in enumerate(ta.fields)))
        cand_obs = Cell(Adt('Observation', 0, (SOME(_box_conf(vm, conf, 1)), NONE)), 'co')
        trk_obs = Cell(Adt('Observation', 0, (SOME(_box_conf(vm, f32(1.0), 2)), NONE)), 'to')
        mq = Cell(mk(P, 'MetricQuery', feature_class=usize(0), candidate_attrs=Ref(Cell(ta)), candidate_observation=Ref(cand_obs),
                     track_attrs=Ref(Cell(ta)), track_observation=Ref(trk_obs)), 'mq')
        r = vm.exec_fn(fn, [Ref(metric), Ref(mq)], {})
        c = f_ite(f_lt(conf, minc), minc, conf)
        # None exactly when too far
        vm.check(z3.If(far, BOOL(r.variant == 0), BOOL(r.variant == 1)), "no result exactly when the bounding circles do not reach (too_far)")
        if r.variant == 1:
            am, fd = r.fields[0]
            vm.check(BOOL(fd.variant == 0), "positional metric carries no feature distance")
            if mode == 'iou':
                if has_iou == 1:
                    vm.check(BOOL(am.variant == 0), "no IoU value -> not gated in")
                else:
                    prod = f_mul(iou, c)
                    passes = f_ge(prod, thr)
                    vm.check(z3.If(passes, BOOL(am.variant == 1), BOOL(am.variant == 0)),
                             "the pair is gated in exactly when IoU x max(confidence, min_confidence) >= threshold")
                    if am.variant == 1:
                        vm.check(f_eq(am.fields[0], prod), "the weight is IoU x max(confidence, min_confidence)")
            else:
                gate = f32(11.070)
                cost = f_ite(f_gt(maha, gate), f32(0.0), f_sub(f32(100.0), maha))
                vm.check(BOOL(am.variant == 1), "Mahalanobis mode always reports a weight for reachable pairs")
                vm.check(f_eq(am.fields[0], f_div(cost, c)), "weight = inverted chi-square-gated cost / max(confidence, min_confidence)")
                vm.check(z3.Implies(f_gt(maha, gate), f_eq(am.fields[0], f32(0.0))), "outside the 95% chi-square gate the weight is 0")
    return q


def q_postprocess(vm, P):
    fn = P.impl_methods[('SortMetric', 'ObservationMetric', 'postprocess_distances')][0][0]
    metric = Cell(mk(P, 'SortMetric', method=variant(P, 'PositionalMetricType', 'Mahalanobis'), min_confidence=f32(0.05)), 'metric')
    items = []
    keep = []
    for i in range(3):
        some = vm.choose_n(2, "metric present") == 0
        w = vm.fresh('f32', 'w%d' % i)
        items.append(mk(P, 'ObservationMetricOk', **{'from': usize(i + 1), 'to': usize(10 + i), 'attribute_metric': SOME(w) if some else NONE, 'feature_distance': NONE}))
        if some:
            keep.append(items[-1])
    r = vm.exec_fn(fn, [Ref(metric), VecV(tuple(items))], {})
    vm.check(BOOL(len(r.items) == len(keep) and all(a is b for a, b in zip(r.items, keep))), "pairs that failed the gate are removed before voting, order kept")


GATE_REPLAY = r'''
use similari::track::{MetricQuery, Observation, ObservationAttributes, ObservationMetric, ObservationMetricOk};
use similari::trackers::kalman_prediction::TrackAttributesKalmanPrediction;
use similari::trackers::sort::metric::SortMetric;
use similari::trackers::sort::{PositionalMetricType, SortAttributes, SortAttributesOptions};
use similari::trackers::spatio_temporal_constraints::SpatioTemporalConstraints;
use similari::utils::bbox::Universal2DBox;
use similari::utils::kalman::kalman_2d_box::Universal2DBoxKalmanFilter;
use std::sync::Arc;

#[test]
fn replay() {
    let iou_wanted: f32 = %(iou)s;
    // the counterexample's confidence / minimal confidence / threshold first, then neighbours (low confidence raised to the
    // minimum, thresholds on both sides of the product)
    for (conf, minc, thr) in [(%(conf)s, %(minc)s, %(thr)s), (%(conf)s, %(minc)s, 0.0f32), (0.125f32, 0.5f32, 0.0f32), (0.125, 0.5, 0.3), (0.9, 0.05, 0.3), (0.2, 0.6, 0.45)] {
    let opts = Arc::new(SortAttributesOptions::new(None, 5, 1, SpatioTemporalConstraints::default(), 1.0 / 20.0, 1.0 / 160.0));
    // candidate boxes shifted along x so that the IoU with the track box sweeps [0,1] and hits the counterexample's value
    let dx0 = 10.0 * (1.0 - iou_wanted) / (1.0 + iou_wanted);
    for dx in [dx0, 0.0, 0.5, 2.0, 5.0, 9.0, 9.9, 12.0, 40.0] {
        let track_box = Universal2DBox::ltwh(0.0, 0.0, 10.0, 10.0);
        let mut cand = Universal2DBox::ltwh(dx, 0.0, 10.0, 10.0);
        cand.confidence = conf;
        let mut ta = SortAttributes::new(opts.clone());
        ta.make_prediction(&track_box);
        let co = Observation::new(Some(cand.clone()), None);
        let to = Observation::new(Some(track_box.clone()), None);
        let mq = MetricQuery { feature_class: 0, candidate_attrs: &ta, candidate_observation: &co, track_attrs: &ta, track_observation: &to };
        let c = if conf < minc { minc } else { conf };
        for maha in [false, true] {
            if maha && !(c > 0.0) { continue; }
            let m = SortMetric::new(if maha { PositionalMetricType::Mahalanobis } else { PositionalMetricType::IoU(thr) }, minc);
            let r = m.metric(&mq);
            if Universal2DBox::too_far(&cand, &track_box) {
                assert!(r.is_none(), "no result when the bounding circles do not reach");
                continue;
            }
            let (am, fd) = r.expect("a reachable pair yields a result");
            assert!(fd.is_none(), "positional metric carries no feature distance");
            if maha {
                let f = Universal2DBoxKalmanFilter::new(ta.get_position_weight(), ta.get_velocity_weight());
                let d = f.distance(ta.get_state().unwrap(), &cand);
                let cost = if d > 11.070 { 0.0 } else { 100.0 - d };
                assert_eq!(am, Some(cost / c), "Mahalanobis weight = inverted 95%% chi-square cost / max(confidence, min_confidence) (dx {})", dx);
            } else {
                let iou = Universal2DBox::calculate_metric_object(&Some(&cand), &Some(&track_box));
                let expect = iou.map(|e| e * c).filter(|e| *e >= thr);
                assert_eq!(am, expect, "IoU gate: IoU x max(confidence, min_confidence) >= threshold (dx {}, iou {:?})", dx, iou);
            }
        }
    }
    }
    // the 95%% chi-square gate of the box filter (5 degrees of freedom): inverted cost 0 beyond it
    for d in [0.0f32, 5.0, 11.0, 11.069, 11.071, 11.125, 11.5, 12.0, 12.5, 12.6, 13.0, 50.0] {
        let want = if d > 11.070 { 0.0 } else { 100.0 - d };
        assert_eq!(Universal2DBoxKalmanFilter::calculate_cost(d, true), want, "inverted cost at squared Mahalanobis distance {}", d);
        assert_eq!(Universal2DBoxKalmanFilter::calculate_cost(d, false), 100.0 - want, "direct cost at {}", d);
    }
    // postprocess_distances drops the pairs that failed the gate, keeps the order
    let m = SortMetric::new(PositionalMetricType::IoU(0.3), 0.05);
    let items = vec![ObservationMetricOk::<Universal2DBox>::new(1, 10, Some(0.5), None), ObservationMetricOk::new(2, 11, None, None), ObservationMetricOk::new(3, 12, Some(0.25), None)];
    let out = m.postprocess_distances(items);
    assert_eq!(out.iter().map(|e| (e.from, e.to)).collect::<Vec<_>>(), vec![(1, 10), (3, 12)]);
}
'''


def _replay_gate(cex, v, vm):
    def g(n, dflt):
        try:
            return rust_f32(cex_get(cex, n))
        except KeyError:
            return dflt
    return GATE_REPLAY % dict(conf=g('conf', '0.5f32'), minc=g('min_conf', '0.05f32'), thr=g('threshold', '0.3f32'), iou=g('iou', '0.5f32'))


# ------------------------------------------------------------------ assignment
F32_MULT = 1000000.0
GRID = [0.0, 0.125, 0.25, 0.3125, 0.375, 0.5, 0.75, 0.875]


def grid_weight(vm, name):
    """a weight from the exact grid straddling typical thresholds, selected by a symbolic index (FSet: all float
    arithmetic on it - the x10^6 scaling and the i64 conversion - is folded exactly per grid value)"""
    return grid_f32(vm, name, GRID)


def _mk_assignment(ncand, ntrk, nres, extra_tracks=0):
    def q(vm, P):
        fn = P.impl_methods[('SortVoting', 'Voting', 'winners')][0][0]
        cids = [vm.fresh(64, 'cand%d' % i) for i in range(ncand)]
        tids = [vm.fresh(64, 'track%d' % i) for i in range(ntrk)]
        allids = cids + tids
        for i in range(len(allids)):
            vm.assume(allids[i].e != 0)
            for j in range(i):
                vm.assume(allids[i].e != allids[j].e)
        thr = vm.fresh(64, 'threshold', signed=True)
        vm.assume(z3.And(thr.e > 0, thr.e <= 1000 * 1000000))
        stream = []
        pairs = []
        for k in range(nres):
            # which candidate / track an entry refers to is a path choice (all combinations are explored); the id
            # VALUES stay symbolic
            fi = vm.choose_n(ncand, "from")
            ti = vm.choose_n(ntrk, "to")
            f, t = cids[fi], tids[ti]
            pairs.append((fi, ti))
            w = grid_weight(vm, 'w%d' % k)
            some = vm.choose_n(2, "weight present") == 0
            stream.append((f, t, w if some else None))
        vm.notes['pairs'] = pairs
        items = [mk(P, 'ObservationMetricOk', **{'from': f, 'to': t, 'attribute_metric': SOME(w) if w is not None else NONE, 'feature_distance': NONE})
                 for f, t, w in stream]
        voting = Cell(mk(P, 'SortVoting', threshold=thr, candidate_num=usize(ncand), track_num=usize(ntrk + extra_tracks)), 'voting')
        r = vm.exec_fn(fn, [Ref(voting), VecV(tuple(items))], {'T': 'Vec<ObservationMetricOk<Universal2DBox>>'})
        vm.notes.update(ncand=ncand, ntrk=ntrk, nres=nres, extra=extra_tracks)
        # i64 weight of a stream entry, exactly as the code converts it
        def conv(w):
            if w is None:
                return z3.BitVecVal(0, 64)
            return vm.cast(f_mul(w, f32(F32_MULT)), 'i64', 'FloatToInt').e

        def W(c, t):
            """weight of pair (c, t): the last entry of the stream for that pair, 0 if none"""
            e = z3.BitVecVal(0, 64)
            for f, to, w in stream:
                if f is c and to is t:
                    e = conv(w)
            return e

        def in_stream(c):
            return z3.BoolVal(any(f is c for f, _, _ in stream))
        res = {}
        for k, v in r.items:
            res[k] = v
        # every key is a candidate of the stream, exactly once; one answer each
        for k, v in r.items:
            vm.check(z3.Or([k.e == c.e for c in cids]), "result keys are candidates")
            vm.check(BOOL(len(v.items) == 1), "exactly one answer per candidate")
        for i, c in enumerate(cids):
            hits = [v for k, v in r.items if k is c or z3.is_true(z3.simplify(k.e == c.e))]
            amb = [k for k, v in r.items if not (k is c) and not z3.is_true(z3.simplify(k.e == c.e)) and not z3.is_false(z3.simplify(k.e == c.e))]
            present = z3.Or([k.e == c.e for k, _ in r.items] + [z3.BoolVal(False)])
            vm.check(present == in_stream(c), "a candidate has an answer exactly when it appears in the stream")
        # decode the assignment: for candidate i: own or track j
        answers = []
        for i, c in enumerate(cids):
            a = None
            for k, v in r.items:
                a = v.items[0] if a is None else I(z3.If(k.e == c.e, v.items[0].e, a.e), False)
            # (keys are distinct, so at most one matches)
            sel = z3.BitVecVal(0, 64)
            for k, v in r.items:
                sel = z3.If(k.e == c.e, v.items[0].e, sel)
            answers.append(sel)
        for i, c in enumerate(cids):
            vm.check(z3.Implies(in_stream(c), z3.Or([answers[i] == c.e] + [answers[i] == t.e for t in tids])),
                     "each candidate maps to itself (new track) or to a track of the stream")
        for i in range(ncand):
            for j in range(i):
                vm.check(z3.Implies(z3.And(in_stream(cids[i]), in_stream(cids[j]), answers[i] != cids[i].e, answers[j] != cids[j].e), answers[i] != answers[j]),
                         "no track is awarded to two candidates")
        # total weight (unmatched = threshold) is maximal among all one-to-one assignments
        def total_of(assign):
            """assign: per candidate None (own) or track index"""
            t = z3.BitVecVal(0, 128)
            for i, a in enumerate(assign):
                wv = thr.e if a is None else W(cids[i], tids[a])
                t = t + z3.If(in_stream(cids[i]), z3.SignExt(64, wv), z3.BitVecVal(0, 128))
            return t
        mine = z3.BitVecVal(0, 128)
        for i, c in enumerate(cids):
            wv = thr.e
            for j, t in enumerate(tids):
                wv = z3.If(answers[i] == t.e, W(c, t), wv)
            mine = mine + z3.If(in_stream(c), z3.SignExt(64, wv), z3.BitVecVal(0, 128))
        options = [None] + list(range(ntrk))
        alts = []
        for assign in itertools.product(options, repeat=ncand):
            used = [a for a in assign if a is not None]
            if len(used) != len(set(used)):
                continue
            alts.append(mine >= total_of(assign))
        vm.check(z3.And(alts), "the chosen continuations have maximum total weight (unmatched counts as the threshold)")
    return q


def _replay_assignment(cex, v, vm):
    n = vm.notes

    def g(name):
        return cex_get(cex, name)
    pairs = ", ".join("(%du64, %du64)" % (g('cand%d' % fi), g('track%d' % ti)) for fi, ti in n['pairs'])
    present = []
    weights = []
    for k in range(n['nres']):
        try:
            weights.append("%rf32" % grid_value(cex, vm, 'w%d' % k))
        except KeyError:
            weights.append("0.0f32")
    return '''
use similari::track::ObservationMetricOk;
use similari::trackers::sort::voting::SortVoting;
use similari::utils::bbox::Universal2DBox;
use similari::voting::Voting;

fn check(stream: &Vec<ObservationMetricOk<Universal2DBox>>, thrf: f32, nc: usize, nt: usize) {
    let res = SortVoting::new(thrf, nc, nt).winners(stream.clone());
    let cands: Vec<u64> = { let mut c: Vec<u64> = stream.iter().map(|d| d.from).collect(); c.sort(); c.dedup(); c };
    let tracks: Vec<u64> = { let mut c: Vec<u64> = stream.iter().map(|d| d.to).collect(); c.sort(); c.dedup(); c };
    let thr: i64 = (thrf * 1_000_000.0) as i64;
    let w = |c: u64, t: u64| -> i64 { let mut r = 0i64; for d in stream { if d.from == c && d.to == t { r = (d.attribute_metric.unwrap_or(0.0) * 1_000_000.0) as i64; } } r };
    fn best(i: usize, cands: &Vec<u64>, tracks: &Vec<u64>, used: &mut Vec<bool>, thr: i64, w: &dyn Fn(u64, u64) -> i64) -> i64 {
        if i == cands.len() { return 0; }
        let mut b = thr + best(i + 1, cands, tracks, used, thr, w);
        for j in 0..tracks.len() { if !used[j] { used[j] = true; let v = w(cands[i], tracks[j]) + best(i + 1, cands, tracks, used, thr, w); used[j] = false; if v > b { b = v; } } }
        b
    }
    let optimum = best(0, &cands, &tracks, &mut vec![false; tracks.len()], thr, &w);
    let mut total = 0i64;
    let mut seen = std::collections::HashSet::new();
    for c in &cands {
        let a = res.get(c).expect("every candidate of the stream gets an answer");
        assert_eq!(a.len(), 1);
        if a[0] == *c { total += thr; } else { assert!(tracks.contains(&a[0]), "answer is the candidate itself or a track"); assert!(seen.insert(a[0]), "no track twice"); total += w(*c, a[0]); }
    }
    assert_eq!(total, optimum, "assignment must have maximum total weight: stream {:?} threshold {}", stream.iter().map(|d| (d.from, d.to, d.attribute_metric)).collect::<Vec<_>>(), thrf);
    for k in res.keys() { assert!(cands.contains(k)); }
}

#[test]
fn replay() {
    // the counterexample's stream structure (which candidate / track every entry refers to) with its weights first, then
    // with every combination of grid weights (ties between optimal assignments are resolved differently by the real
    // kuhn_munkres than by an arbitrary optimal solution, so the exact counterexample need not be the failing one)
    let pairs: Vec<(u64, u64)> = vec![%(pairs)s];
    let cex_w: Vec<f32> = vec![%(weights)s];
    let grid = [0.0f32, 0.125, 0.25, 0.3125, 0.375, 0.5, 0.75, 0.875];
    let mk = |ws: &Vec<Option<f32>>| -> Vec<ObservationMetricOk<Universal2DBox>> { pairs.iter().zip(ws.iter()).map(|(p, w)| ObservationMetricOk::new(p.0, p.1, *w, None)).collect() };
    for thrf in [%(thrf)rf32, 0.3, 0.125, 0.5] {
        check(&mk(&cex_w.iter().map(|w| Some(*w)).collect()), thrf, %(nc)d, %(nt)d);
        let n = pairs.len();
        let mut idx = vec![0usize; n];
        loop {
            let ws: Vec<Option<f32>> = idx.iter().map(|i| if *i == grid.len() { None } else { Some(grid[*i]) }).collect();
            check(&mk(&ws), thrf, %(nc)d, %(nt)d);
            let mut k = 0;
            while k < n { idx[k] += 1; if idx[k] <= grid.len() { break; } idx[k] = 0; k += 1; }
            if k == n { break; }
        }
    }
}
''' % dict(pairs=pairs, weights=", ".join(weights), thrf=g('threshold') / 1e6, nc=n['ncand'], nt=n['ntrk'] + n.get('extra', 0))


SM = "similari::trackers::sort::metric::SortMetric::"
SV = "similari::trackers::sort::voting::SortVoting::winners"
MIR = [
    MQ("c02_gate_iou", "quick", _mk_gate('iou'), "SortMetric::metric (IoU): gated in iff IoU x max(conf, min_conf) >= threshold; None iff too_far",
       "IoU from {0,.125,.25,.5,.75,1}, confidence from {1/16,1/4,1/2,1}, min confidence from {1/32,1/4,3/4}, every f32 threshold in [0,1]; too_far uninterpreted", [SM + "metric"], spec_calls=_gate_calls, replay=_replay_gate),
    MQ("c02_gate_mahalanobis", "quick", _mk_gate('maha'), "SortMetric::metric (Mahalanobis): weight = inverted 95% chi-square cost / max(conf, min_conf); None iff too_far",
       "distance from {0,4,11,11.125,20,200}, confidences from the same grids", [SM + "metric", "similari::utils::kalman::kalman_2d_box::Universal2DBoxKalmanFilter::calculate_cost"], spec_calls=_gate_calls, replay=_replay_gate),
    MQ("c02_postprocess", "quick", q_postprocess, "postprocess_distances drops the pairs that failed the gate", "3 results, each with/without weight", [SM + "postprocess_distances"], replay=_replay_gate),
]
for (nc, nt, nr, ex, tier) in [(1, 1, 1, 0, 'quick'), (1, 2, 2, 0, 'quick'), (2, 1, 2, 0, 'quick'), (2, 2, 2, 0, 'quick'), (2, 2, 2, 2, 'quick'), (2, 2, 3, 0, 'quick'),
                               (2, 2, 3, 2, 'quick'), (2, 2, 4, 0, 'deep'), (3, 2, 3, 0, 'deep'), (2, 3, 3, 0, 'deep')]:   # deep: single z3 queries hit the 120 s cap under load (run 2)
    MIR.append(MQ("c02_assign_c%d_t%d_r%d%s" % (nc, nt, nr, "_x%d" % ex if ex else ""), tier, _mk_assignment(nc, nt, nr, ex),
                  "SortVoting::winners: one answer per candidate of the stream, no track twice, maximum total weight (unmatched = threshold)",
                  "%d candidates x %d tracks, stream of %d results (ids chosen by z3, duplicates allowed, weight Some/None), track_num = tracks + %d" % (nc, nt, nr, ex),
                  [SV], replay=_replay_assignment, max_paths=400000, timeout=3300, z3_timeout_ms=120000))


# one whole predict call from an arbitrary valid tracker state (inductive step), see props/stepsort.py
import stepsort as _step
MIR += [q for q in _step.MIR if q.name in ('step_sort_d1_t1_s1', 'step_sort_d2_t1_s1', 'step_sort_d1_t2_s1', 'step_sort_d2_t2_s1') or q.name.endswith('_maha')]
EXPLANATION += " A whole Sort::predict_with_scene call is also executed from MIR on a symbolic tracker state (props/stepsort.py): real TrackStore code over the shard-map store model with the real worker loop, real builders / Track::add_observation / merge / SortMetric / SortAttributes / SortVoting code, kuhn_munkres by contract, geometry numbers and Kalman prediction uninterpreted - one record per detection in submission order echoing box, custom id, scene and the scene's new epoch; continuations only inside the scene, through the gate, for unexpired tracks, forming a maximum-weight one-to-one assignment; new ids = counter + k; lengths = detections attached; tracks that were not continued unchanged; only this scene's epoch advances. One step from an arbitrary valid state is the inductive step of the history statements."
ASSUMPTIONS += ['predict step: <= 2 detections, <= 2 stored tracks (scene, last epoch, length, ids, custom ids symbolic; invariant: issued ids <= counter, last epoch <= scene epoch), 1 shard (thorough 2), IoU mode with threshold from {.125,.25,.5}, IoU values from {.125,.25,.5,.75} or no overlap, or Mahalanobis mode with squared distances from {0,4,11,11.125,50,99.5} (uninterpreted per pair; new-track threshold 1.0), confidences {.25,1}, min confidence .5, history length 2, auto-waste counter != 0 (no collection in this call); candidate ids random 64-bit values assumed distinct from all ids in use and non-zero; a FRESH Kalman filter initiated and updated with the same box returns that box (innovation exactly 0); workers run when the caller blocks; HashMap iteration in insertion order']

import C07 as _c07
MIR += [q for q in _c07.MIR if q.name in ('c07_box_distance_terms',)]   # the squared Mahalanobis distance the gate reads (structure)
