"""C18 - the Rust side of the Python bindings, decided by engine M on the MIR of the crate built WITH the `python` feature.

What Python reaches after pyo3's generated glue are ordinary Rust functions: the bodies of the #[pymethods] / #[pyfunction]
items in the `python` sub-modules, and the closures pyo3 generates for default arguments. Those are executed symbolically:
  * every getter of a value class returns the field it names, every setter writes that field and nothing else
    (the list of getters / setters is derived from the current source: method get_<f> / <f> / set_<f> with <f> a field of the
    wrapped struct);
  * wrappers of the value API (boxes, metric kinds, filter states, options builder) are compared differentially with the Rust
    function they wrap, both executed from MIR on the same symbolic inputs;
  * tracker wrappers route their arguments (scene ids, counts) to the wrapped call unchanged - the wrapped tracker call is
    an uninterpreted function of its arguments;
  * the default-argument closures return the documented defaults.
Counterexamples are replayed through CPython on the extension module built from the same tree."""
import z3
from mir_engine import MQ
from mirlib import *
from envlib import struct_eq
from decls import base_name, generic_args
from vm import Panic

MIR_FEATURES = "python"
KANI = []
EXPLANATION = __doc__
ASSUMPTIONS = ["pyo3's generated glue (argument extraction, trampolines, type objects, GIL handling, conversion of return values to Python objects) is trusted: "
               "the claim starts at the Rust function a Python call reaches and at the closures producing default arguments",
               "Vec / VecDeque fields of symbolic records have 2 elements; Option fields are explored both ways",
               "transmutes between Vec<T> and Vec<PyT> (repr(transparent) newtypes) are modelled as element-wise wrapping"]
OUTSIDE = ["CPython itself and the pyo3 macro expansion beyond the default-argument closures (argument extraction, result conversion, GIL)", "__repr__ / __str__ (formatting)",
           "batch trackers' predict and the visual batch request object; shard_stats of Sort / BatchSort / BatchVisualSort (reach into lock guards); Polygon.get_points; Universal2DBox.as_ltwh / gen_vertices / get_vertices; filter state bbox()",
           "the numeric results of nms / sutherland_hodgman_clip / intersection_area (their Rust functions are C14 / C15 / C08; the wrappers' argument routing is decided here)",
           "parity of argument VALIDATION (the options setters of the binding accept values the Rust builder asserts against): only inputs both sides accept are compared"]


# ---------------------------------------------------------------------------------------------- symbolic values by type
def sym(vm, P, ty, name, depth=0):
    ty = ty.strip()
    b = base_name(ty)
    ga = generic_args(ty)
    d = P.decls
    if b == 'Option' and len(ga) == 1:
        # Option fields of the object itself are explored both ways; inside nested records they are fixed (present value,
        # no cached polygon) to keep the number of paths small
        if base_name(ga[0]) in ('Polygon',):
            if depth > 1:
                return NONE
            return NONE if vm.choose_n(2, name + " cached") == 0 else SOME(Opaque(ga[0], name))
        if depth <= 1 and vm.choose_n(2, name + " given") == 0:
            return NONE
        return SOME(sym(vm, P, ga[0], name, depth + 1))
    if b in ('Vec', 'VecDeque') and len(ga) == 1:
        return VecV(tuple(sym(vm, P, ga[0], "%s_%d" % (name, i), depth + 1) for i in range(2)), 'Vec' if b == 'Vec' else 'VecDeque')
    if b == 'KalmanState':
        from models import mat_sym
        return Adt('KalmanState', 0, (mat_sym(name + '_mean'), mat_sym(name + '_cov')))
    if b in d.structs and d.struct_field_types.get(b) and b not in ('Polygon',) and depth < 4:
        fts = d.struct_field_types[b]
        if all(ft for ft in fts) and not any(g in ft for ft in fts for g in (' X', '<X', 'X>')):
            v = Adt(b, 0, tuple(sym(vm, P, ft, "%s_%s" % (name, fn), depth + 1) for fn, ft in zip(d.structs[b], fts)))
            if b in ('Universal2DBox', 'BoundingBox'):
                # type invariant kept by every constructor (asserted there): confidence in [0, 1]
                vm.assume(fp_in(v.fields[d.field_index(b, 'confidence')], 0.0, 1.0))
            return v
    return vm.fresh_of_type(ty, name)


def peel(v):
    while isinstance(v, Adt) and v.ty.startswith('Py') and len(v.fields) == 1:
        v = v.fields[0]
    if isinstance(v, VecV):
        return VecV(tuple(peel(x) for x in v.items), v.kind)
    if isinstance(v, Adt) and v.ty == 'Option' and v.variant == 1:
        return SOME(peel(v.fields[0]))
    return v


def wrapped_type(P, cls):
    return P.decls.struct_field_types[cls][0]


def accessors(P, cls):
    """(method, field, kind) derived from the current source: get_<f> / <f> / set_<f> where <f> is a field of the wrapped struct"""
    inner = base_name(wrapped_type(P, cls))
    names = P.decls.structs.get(inner, [])
    out = []
    for (c, t, m) in sorted(P.impl_methods, key=str):
        if c != cls or t is not None:
            continue
        if m.startswith('set_') and m[4:] in names:
            out.append((m, m[4:], 'set'))
        elif m.startswith('get_') and m[4:] in names:
            out.append((m, m[4:], 'get'))
        elif m in names:
            out.append((m, m, 'get'))
    return out


def _mk_accessors(cls):
    def q(vm, P):
        acc = accessors(P, cls)
        vm.check(BOOL(len(acc) > 0), "the class has accessors")
        k = vm.choose_n(len(acc), "accessor")
        m, f, kind = acc[k]
        who = " (%s.%s)" % (cls[2:], m)
        vm.notes['accessor'] = who
        inner_ty = wrapped_type(P, cls)
        inner = sym(vm, P, inner_ty, 'self')
        cell = Cell(Adt(cls, 0, (inner,)), 'self')
        fn = P.impl_methods[(cls, None, m)][0][0]
        idx = P.decls.field_index(base_name(inner_ty), f)
        if kind == 'get':
            try:
                r = vm.exec_fn(fn, [Ref(cell)], {})
            except Panic as e:
                vm.check(BOOL(False), "a getter does not raise" + who + ": " + e.msg[:80])
                return
            vm.check(struct_eq(peel(r), peel(inner.fields[idx])), "a getter returns the field it names" + who)
            vm.check(struct_eq(cell.v, Adt(cls, 0, (inner,))), "a getter does not change the object" + who)
        else:
            pty = fn.params[1][1]
            a = sym(vm, P, pty, 'value')
            try:
                vm.exec_fn(fn, [Ref(cell), a], {})
            except Panic:
                return    # argument validation: the value is rejected (Python sees an exception), nothing is written
            after = cell.v.fields[0]
            for i, (x, y) in enumerate(zip(after.fields, inner.fields)):
                if i == idx:
                    vm.check(struct_eq(peel(x), peel(a)), "a setter writes the field it names" + who)
                elif P.decls.structs[base_name(inner_ty)][i] == '_vertex_cache':
                    continue   # a changed geometry may (and should) drop the cached polygon
                else:
                    vm.check(struct_eq(x, y), "a setter leaves the other fields alone" + who)
    return q


def replay_accessors(cex, v, vm):
    return PY_ACCESSORS


PY_PRELUDE = r'''#!python
import sys
sys.path.insert(0, '.')
import similari as S

def close(a, b):
    return abs(a - b) <= 1e-6 * max(1.0, abs(a), abs(b))
'''

PY_ACCESSORS = PY_PRELUDE + r'''
# value classes: constructors with pairwise distinct arguments, every getter must return its own field
b = S.BoundingBox(1.0, 2.0, 3.0, 4.0)
assert (b.left, b.top, b.width, b.height, b.confidence) == (1.0, 2.0, 3.0, 4.0, 1.0), "BoundingBox getters"
b = S.BoundingBox.new_with_confidence(1.0, 2.0, 3.0, 4.0, 0.5)
assert (b.left, b.top, b.width, b.height, b.confidence) == (1.0, 2.0, 3.0, 4.0, 0.5), "BoundingBox getters (confidence)"
for name, val in [("left", 11.0), ("top", 12.0), ("width", 13.0), ("height", 14.0), ("confidence", 0.25)]:
    b = S.BoundingBox.new_with_confidence(1.0, 2.0, 3.0, 4.0, 0.5)
    setattr(b, name, val)
    want = dict(left=1.0, top=2.0, width=3.0, height=4.0, confidence=0.5)
    want[name] = val
    got = dict(left=b.left, top=b.top, width=b.width, height=b.height, confidence=b.confidence)
    assert got == want, "BoundingBox setter %s: %r" % (name, got)
u = S.Universal2DBox.new_with_confidence(1.0, 2.0, 0.5, 3.0, 4.0, 0.75)
assert (u.xc, u.yc, u.angle, u.aspect, u.height, u.confidence) == (1.0, 2.0, 0.5, 3.0, 4.0, 0.75), "Universal2DBox getters"
for name, val in [("xc", 11.0), ("yc", 12.0), ("angle", 0.25), ("aspect", 13.0), ("height", 14.0), ("confidence", 0.125)]:
    u = S.Universal2DBox.new_with_confidence(1.0, 2.0, 0.5, 3.0, 4.0, 0.75)
    setattr(u, name, val)
    want = dict(xc=1.0, yc=2.0, angle=0.5, aspect=3.0, height=4.0, confidence=0.75)
    want[name] = val
    got = dict(xc=u.xc, yc=u.yc, angle=u.angle, aspect=u.aspect, height=u.height, confidence=u.confidence)
    assert got == want, "Universal2DBox setter %s: %r" % (name, got)

# tracker records: a history in which id / epoch / scene / length / custom id are pairwise distinct numbers
def history(t, visual=False):
    box = lambda x: S.BoundingBox(x, 5.0, 10.0, 20.0).as_xyaah()
    recs = None
    for step in range(3):
        if visual:
            s = S.VisualSortObservationSet()
            s.add(S.VisualSortObservation(feature=None, feature_quality=None, bounding_box=box(100.0 + step), custom_object_id=77))
            recs = t.predict_with_scene(7, s)
        else:
            recs = t.predict_with_scene(7, [(box(100.0 + step), 77)])
        if step == 0:
            t.skip_epochs_for_scene(7, 2)
    return recs

for visual in (False, True):
    if visual:
        opts = S.VisualSortOptions()
        opts.max_idle_epochs(3)
        opts.kept_history_length(3)
        opts.positional_metric(S.PositionalMetricType.iou(0.3))
        t = S.VisualSort(1, opts)
    else:
        t = S.Sort(shards=1, bbox_history=3, max_idle_epochs=3, method=S.PositionalMetricType.iou(0.3))
    recs = history(t, visual)
    assert len(recs) == 1
    r = recs[0]
    first_id = r.id
    assert r.scene_id == 7, "record scene_id: %r" % r.scene_id
    assert r.epoch == 5, "record epoch: %r" % r.epoch
    assert r.length == 3, "record length: %r" % r.length
    assert r.custom_object_id == 77, "record custom_object_id: %r" % r.custom_object_id
    assert r.id not in (0, 7, 5, 3, 77), "record id: %r" % r.id
    ob = r.observed_bbox
    assert close(ob.xc, 107.0) and close(ob.yc, 15.0) and close(ob.height, 20.0), "record observed_bbox is the detection's box: %r" % ob
    pb = r.predicted_bbox
    assert not close(pb.xc, ob.xc) and abs(pb.xc - ob.xc) < 3.0, "record predicted_bbox is the filtered box (lags the moving detection): %r vs %r" % (pb, ob)
    # idle -> wasted
    t.predict_with_scene(7, []) if not visual else t.predict_with_scene(7, S.VisualSortObservationSet())
    idle_of = getattr(t, "idle_tracks_with_scene", None) or getattr(t, "idle_tracks_with_scene_py")
    idle = idle_of(7)
    assert [x.id for x in idle] == [first_id], "idle track"
    assert idle[0].epoch == 5 and idle[0].length == 3 and idle[0].scene_id == 7, "idle record"
    assert idle_of(8) == [], "no idle track in another scene"
    t.skip_epochs_for_scene(7, 10)
    w = t.wasted()
    assert len(w) == 1, "one wasted track: %d" % len(w)
    w = w[0]
    assert w.id == first_id, "wasted id"
    assert w.scene_id == 7, "wasted scene_id: %r" % w.scene_id
    assert w.epoch == 5, "wasted epoch: %r" % w.epoch
    assert w.length == 3, "wasted length: %r" % w.length
    assert close(w.observed_bbox.xc, 107.0), "wasted observed_bbox: %r" % w.observed_bbox
    assert close(w.predicted_bbox.xc, pb.xc), "wasted predicted_bbox: %r" % w.predicted_bbox
    obs = [x.xc for x in w.observed_boxes]
    assert len(obs) == 3 and all(close(a, b) for a, b in zip(obs, [105.0, 106.0, 107.0])), "wasted observed_boxes: %r" % obs
    prs = [x.xc for x in w.predicted_boxes]
    assert len(prs) == 3 and close(prs[-1], pb.xc) and not all(close(a, b) for a, b in zip(prs, obs)), "wasted predicted_boxes: %r" % prs
    if visual:
        assert len(w.observed_features) == 3, "wasted observed_features"
print("REPLAY-OK")
'''

VALUE_CLASSES = ['PyBoundingBox', 'PyUniversal2DBox', 'PySortTrack', 'PyWastedSortTrack', 'PyWastedVisualSortTrack']
MIR = []
for _c in VALUE_CLASSES:
    MIR.append(MQ("c18_accessors_%s" % _c, "quick", _mk_accessors(_c),
                  "every getter of %s returns the field it names (and changes nothing); every setter writes that field and no other" % _c[2:],
                  "all getters / setters found in the current source; symbolic field values; Option fields both ways; list fields of 2 elements",
                  ["similari::*::python::%s::{get_*, set_*, <field>}" % _c], replay=replay_accessors))


# ---------------------------------------------------------------------------------------------- default arguments
# the documented defaults (pyo3 signatures as published at the pinned commit; the Rust side documents the same numbers:
# DEFAULT_MINIMAL_SORT_CONFIDENCE = 0.05, Kalman filter Default impls use 1/20 and 1/160)
DOC_DEFAULTS = {
    'Sort': ('src/trackers/sort/simple_api.rs', '__pymethod___new____',
             [('shards', 4), ('bbox_history', 1), ('max_idle_epochs', 5), ('method', None), ('min_confidence', 0.05),
              ('spatio_temporal_constraints', None), ('kalman_position_weight', 1.0 / 20.0), ('kalman_velocity_weight', 1.0 / 160.0)]),
    'BatchSort': ('src/trackers/sort/batch_api.rs', '__pymethod___new____',
                  [('distance_shards', 4), ('voting_shards', 4), ('bbox_history', 1), ('max_idle_epochs', 5), ('method', None), ('min_confidence', 0.05),
                   ('spatio_temporal_constraints', None), ('kalman_position_weight', 1.0 / 20.0), ('kalman_velocity_weight', 1.0 / 160.0)]),
    'Universal2DBoxKalmanFilter': ('src/utils/kalman/kalman_2d_box.rs', '__pymethod___new____', [('position_weight', 0.05), ('velocity_weight', 0.00625)]),
    'Point2DKalmanFilter': ('src/utils/kalman/kalman_2d_point.rs', '__pymethod___new____', [('position_weight', 0.05), ('velocity_weight', 0.00625)]),
    'Vec2DKalmanFilter': ('src/utils/kalman/kalman_2d_point_vec.rs', '__pymethod___new____', [('position_weight', 0.05), ('velocity_weight', 0.00625)]),
    'SortPredictionBatchRequest': ('src/trackers/sort/batch_api.rs', '__pymethod_add__', [('custom_object_id', None)]),
}


def _default_calls(P):
    def some_wrap(vm, cal, args):
        v = args[0]
        if isinstance(v, Adt) and v.ty == 'Option':
            return v
        return SOME(v)
    return {('Option', 'SomeWrap', 'wrap'): some_wrap, ('*', 'SomeWrap', 'wrap'): some_wrap}


def default_closures(P, file, pm):
    """the closures pyo3 generates for the defaulted parameters of one #[pymethods] function, in parameter order"""
    import re
    out = []
    for name, fns in P.fns.items():
        m = re.search(r'<impl at %s:[^>]*>::%s::\{closure#(\d+)\}$' % (re.escape(file), re.escape(pm)), name)
        if m:
            for fn in (fns if isinstance(fns, list) else [fns]):
                out.append((name.split('>::')[0], int(m.group(1)), fn))
    return [f for _, _, f in sorted(out, key=lambda x: (x[0], x[1]))]


def _mk_defaults(cls):
    def q(vm, P):
        import numpy as np
        file, pm, table = DOC_DEFAULTS[cls]
        cl = default_closures(P, file, pm)
        vm.check(BOOL(len(cl) == len(table)), "%s(): every documented default argument exists (%d documented, %d generated)" % (cls, len(table), len(cl)))
        for (pname, want), fn in zip(table, cl):
            env = Adt('closure', 0, ())
            r = vm.exec_fn(fn, [Ref(Cell(env, 'env'))], {})
            msg = "%s(%s=...) defaults to the documented value %r" % (cls, pname, want)
            if want is None:
                vm.check(BOOL(isinstance(r, Adt) and r.ty == 'Option' and r.variant == 0), msg)
            elif isinstance(want, int):
                vm.check(r.e == want if isinstance(r, I) else BOOL(False), msg)
            else:
                vm.check(struct_eq(r, f32(float(np.float32(want)))), msg)
    return q


PY_DEFAULTS = PY_PRELUDE + r'''
def boxes(step):
    # three objects moving at different speeds, confidences on both sides of the documented minimum 0.05
    out = []
    for k, conf in enumerate([1.0, 0.04, 0.3]):
        b = S.BoundingBox.new_with_confidence(100.0 * k + 3.0 * step * (k + 1), 50.0 + step, 10.0 + k, 20.0, conf).as_xyaah()
        out.append((b, None))
    return out

def rec(r):
    p, o = r.predicted_bbox, r.observed_bbox
    return (r.id, r.epoch, r.length, r.scene_id, p.xc, p.yc, p.aspect, p.height, o.xc, o.yc)

def run(t):
    log = []
    for step in range(8):
        log.append([rec(r) for r in t.predict(boxes(step))])
    log.append(("stats", t.shard_stats()))
    # idle limit: alive for max_idle_epochs epochs without update, wasted afterwards
    for k in range(7):
        t.predict([])
        log.append(("idle", k, sorted(x.id for x in t.idle_tracks())))
    w = t.wasted()
    log.append(("wasted", sorted((x.id, x.epoch, x.length, len(x.observed_boxes), len(x.predicted_boxes)) for x in w)))
    return log

a = run(S.Sort())
b = run(S.Sort(shards=4, bbox_history=1, max_idle_epochs=5, method=S.PositionalMetricType.maha(), min_confidence=0.05,
               spatio_temporal_constraints=None, kalman_position_weight=1.0 / 20.0, kalman_velocity_weight=1.0 / 160.0))
for i, (x, y) in enumerate(zip(a, b)):
    assert x == y, "Sort() behaves differently from Sort(<documented defaults>) at step %d: %r vs %r" % (i, x, y)

def run_batch(t):
    log = []
    for step in range(6):
        req = S.SortPredictionBatchRequest()
        for (b, c) in boxes(step):
            req.add(0, b, c)
        res = t.predict(req)
        for _ in range(res.batch_size()):
            scene, recs = res.get()
            log.append((scene, [rec(r) for r in recs]))
    log.append(("stats", t.shard_stats()))
    for k in range(7):
        req = S.SortPredictionBatchRequest()
        req.add(0, S.BoundingBox(5000.0 + 100.0 * k, 5000.0, 10.0, 10.0).as_xyaah(), None)
        res = t.predict(req)
        for _ in range(res.batch_size()):
            res.get()
        log.append(("idle", k, sorted(x.id for x in t.idle_tracks(0))))
    log.append(("wasted", sorted((x.id, x.epoch, x.length, len(x.observed_boxes)) for x in t.wasted())))
    return log

a = run_batch(S.BatchSort())
b = run_batch(S.BatchSort(distance_shards=4, voting_shards=4, bbox_history=1, max_idle_epochs=5, method=S.PositionalMetricType.maha(), min_confidence=0.05,
                          spatio_temporal_constraints=None, kalman_position_weight=1.0 / 20.0, kalman_velocity_weight=1.0 / 160.0))
for i, (x, y) in enumerate(zip(a, b)):
    assert x == y, "BatchSort() behaves differently from BatchSort(<documented defaults>) at step %d: %r vs %r" % (i, x, y)

def kf_box(f):
    s = f.initiate(S.BoundingBox(10.0, 20.0, 30.0, 40.0).as_xyaah())
    out = []
    for k in range(5):
        s = f.predict(s)
        m = S.BoundingBox(10.0 + 3.0 * k, 20.0 + k, 30.0, 40.0 + k).as_xyaah()
        out.append(f.distance(s, m))
        s = f.update(s, m)
        u = s.universal_bbox()
        out.append((u.xc, u.yc, u.aspect, u.height))
    return out

req = S.SortPredictionBatchRequest()
req.add(4, S.BoundingBox(1.0, 2.0, 3.0, 4.0).as_xyaah())
t = S.BatchSort(1, 1, 1, 5, S.PositionalMetricType.iou(0.3), 0.05, None, 0.05, 0.00625)
res = t.predict(req)
scene, recs = res.get()
assert scene == 4 and recs[0].custom_object_id is None, "SortPredictionBatchRequest.add(scene, box): custom_object_id defaults to None: %r" % recs[0].custom_object_id

assert kf_box(S.Universal2DBoxKalmanFilter()) == kf_box(S.Universal2DBoxKalmanFilter(0.05, 0.00625)), "Universal2DBoxKalmanFilter() differs from the documented defaults (0.05, 0.00625)"

def kf_point(f):
    s = f.initiate(10.0, 20.0)
    out = []
    for k in range(5):
        s = f.predict(s)
        out.append(f.distance(s, 10.0 + 3.0 * k, 20.0 + k))
        s = f.update(s, 10.0 + 3.0 * k, 20.0 + k)
        out.append((s.x(), s.y()))
    return out

assert kf_point(S.Point2DKalmanFilter()) == kf_point(S.Point2DKalmanFilter(0.05, 0.00625)), "Point2DKalmanFilter() differs from the documented defaults (0.05, 0.00625)"

def kf_vec(f):
    s = f.initiate([(10.0, 20.0), (1.0, 2.0)])
    out = []
    for k in range(5):
        s = f.predict(s)
        pts = [(10.0 + 3.0 * k, 20.0 + k), (1.0 + k, 2.0 - k)]
        out.append(f.distance(s, pts))
        s = f.update(s, pts)
        out.append([(p.x(), p.y()) for p in s])
    return out

assert kf_vec(S.Vec2DKalmanFilter()) == kf_vec(S.Vec2DKalmanFilter(0.05, 0.00625)), "Vec2DKalmanFilter() differs from the documented defaults (0.05, 0.00625)"
print("REPLAY-OK")
'''


def replay_defaults(cex, v, vm):
    return PY_DEFAULTS


for _c in DOC_DEFAULTS:
    MIR.append(MQ("c18_defaults_%s" % _c, "quick", _mk_defaults(_c),
                  "the default-argument closures pyo3 generates for %s(...) return the documented defaults" % _c,
                  "all defaulted parameters of the constructor / method (exact values)", ["similari::*::python::Py%s::%s::{closure#k}" % (_c, DOC_DEFAULTS[_c][1])],
                  spec_calls=_default_calls, replay=replay_defaults))


# ---------------------------------------------------------------------------------------------- differential: wrapper vs wrapped Rust function
ENUM_PAYLOAD = {'VisualSortMetricType': 'f32', 'PositionalMetricType': 'f32'}


def sym_arg(vm, P, ty, name):
    """symbolic argument of a wrapper parameter type; returns (value for the wrapper, value for the Rust function)"""
    ty = ty.strip()
    b = base_name(ty)
    if b in ENUM_PAYLOAD or (b.startswith('Py') and base_name(wrapped_type(P, b)) in ENUM_PAYLOAD):
        e = b if b in ENUM_PAYLOAD else base_name(wrapped_type(P, b))
        vs = P.decls.enums[e]
        k = vm.choose_n(len(vs), name + " kind")
        v = Adt(e, k, tuple(vm.fresh('f32', name + "_%s" % f) for f in vs[k][1]))
        return (Adt(b, 0, (v,)) if b != e else v), v
    if b.startswith('Py') and b in P.decls.structs:
        inner = sym(vm, P, wrapped_type(P, b), name)
        return Adt(b, 0, (inner,)), inner
    v = sym(vm, P, ty, name)
    return v, v


def _as_usize(vm, v):
    return vm.cast(v, 'usize', 'IntToInt')


def _mk_options():
    def q(vm, P):
        cls, rty = 'PyVisualSortOptions', 'VisualSortOptions'
        ms = sorted(m for (c, t, m) in P.impl_methods if c == cls and t is None and (rty, None, m) in P.impl_methods and m != 'new')
        vm.check(BOOL(len(ms) >= 10), "option setters found")
        m = ms[vm.choose_n(len(ms), "option")]
        who = " (VisualSortOptions.%s)" % m
        vm.notes['accessor'] = who
        wfn = P.impl_methods[(cls, None, m)][0][0]
        rfn = P.impl_methods[(rty, None, m)][0][0]
        opts = sym(vm, P, rty, 'opts')
        # enum-valued fields of the builder
        mb_i = P.decls.field_index(rty, 'metric_builder')
        mb = opts.fields[mb_i]
        fixed = []
        for fn_, ft, fv in zip(P.decls.structs['VisualMetricBuilder'], P.decls.struct_field_types['VisualMetricBuilder'], mb.fields):
            fixed.append(sym_arg(vm, P, ft, 'opts_' + fn_)[1] if base_name(ft) in ENUM_PAYLOAD else fv)
        mb = Adt('VisualMetricBuilder', 0, tuple(fixed))
        opts = Adt(rty, 0, tuple(mb if i == mb_i else f for i, f in enumerate(opts.fields)))
        wa, ra = sym_arg(vm, P, wfn.params[1][1], 'arg')
        if isinstance(ra, I) and rfn.params[1][1].strip() == 'usize':
            vm.assume(ra.e >= 0)     # negative numbers: the wrapper's own argument validation, see below
            ra = _as_usize(vm, ra)
        cell = Cell(Adt(cls, 0, (opts,)), 'self')
        try:
            vm.exec_fn(wfn, [Ref(cell), wa], {})
        except Panic:
            wpanic = True
        else:
            wpanic = False
        try:
            want = vm.exec_fn(rfn, [opts, ra], {})
        except Panic:
            return    # the Rust builder rejects the value (the binding's unvalidated setters accept it: nothing to compare)
        vm.check(BOOL(not wpanic), "the binding accepts what the Rust builder accepts" + who)
        vm.check(struct_eq(cell.v.fields[0], want), "the Python options method sets exactly what the Rust builder method of the same name sets" + who)
    return q


def _mk_options_new():
    def q(vm, P):
        r = vm.exec_fn(P.impl_methods[('PyVisualSortOptions', None, 'new')][0][0], [], {})
        d = vm.exec_fn(P.impl_methods[('VisualSortOptions', 'Default', 'default')][0][0], [], {})
        vm.check(struct_eq(peel(r), d), "VisualSortOptions() starts from the Rust defaults")
    return q


PY_OPTIONS = PY_PRELUDE + r'''
import re
def fields(o):
    # the Debug rendering of the wrapped options object, parsed into {field: text}
    txt = repr(o)
    return dict((k, v.strip()) for k, v in re.findall(r'(\w+): ([^,{}()\[\]]+(?:\([^)]*\))?)', txt)), txt

base, base_txt = fields(S.VisualSortOptions())
cases = [("max_idle_epochs", 17, "max_idle_epochs", "17"), ("kept_history_length", 19, "kept_history_length", "19"),
         ("visual_min_votes", 23, "visual_min_votes", "23"), ("visual_minimal_track_length", 29, "visual_minimal_track_length", "29"),
         ("visual_minimal_area", 31.5, "visual_minimal_area", "31.5"), ("visual_minimal_quality_use", 0.625, "visual_minimal_quality_use", "0.625"),
         ("positional_min_confidence", 0.375, "positional_min_confidence", "0.375"), ("visual_max_observations", 37, "visual_max_observations", "37"),
         ("visual_minimal_quality_collect", 0.6875, "visual_minimal_quality_collect", "0.6875"),
         ("visual_minimal_own_area_percentage_use", 0.4375, "visual_minimal_own_area_percentage_use", "0.4375"),
         ("visual_minimal_own_area_percentage_collect", 0.5625, "visual_minimal_own_area_percentage_collect", "0.5625"),
         ("kalman_position_weight", 0.28125, "kalman_position_weight", "0.28125"), ("kalman_velocity_weight", 0.03125, "kalman_velocity_weight", "0.03125")]
for meth, val, field, text in cases:
    o = S.VisualSortOptions()
    getattr(o, meth)(val)
    got, txt = fields(o)
    assert got.get(field) == text, "VisualSortOptions.%s(%r) must set %s: %s" % (meth, val, field, txt)
    for k, v in base.items():
        if k != field:
            assert got.get(k) == v, "VisualSortOptions.%s(%r) must not touch %s: %s" % (meth, val, k, txt)
o = S.VisualSortOptions(); o.visual_metric(S.VisualSortMetricType.cosine(0.75))
assert "visual_kind: Cosine(0.75)" in re.sub(r'\s+', ' ', repr(o)).replace("( ", "(").replace(", )", ")").replace(" )", ")"), "visual_metric: %r" % o
o = S.VisualSortOptions(); o.positional_metric(S.PositionalMetricType.iou(0.625))
assert "positional_kind: IoU(0.625)" in re.sub(r'\s+', ' ', repr(o)).replace("( ", "(").replace(", )", ")").replace(" )", ")"), "positional_metric: %r" % o
c = S.SpatioTemporalConstraints(); c.add_constraints([(3, 41.5)])
o = S.VisualSortOptions(); o.spatio_temporal_constraints(c)
assert "41.5" in repr(o), "spatio_temporal_constraints: %r" % o
print("REPLAY-OK")
'''


def replay_options(cex, v, vm):
    return PY_OPTIONS


MIR.append(MQ("c18_options_builder", "quick", _mk_options(),
              "every VisualSortOptions method of the Python class sets exactly what the Rust builder method of the same name sets (differential, both from MIR)",
              "all methods found in the current source; symbolic options object and argument", ["similari::trackers::visual_sort::options::python::PyVisualSortOptions::*",
              "similari::trackers::visual_sort::options::VisualSortOptions::*"], replay=replay_options))
MIR.append(MQ("c18_options_new", "quick", _mk_options_new(), "VisualSortOptions() equals VisualSortOptions::default()", "-",
              ["similari::trackers::visual_sort::options::python::PyVisualSortOptions::new"], replay=replay_options))


# ---------------------------------------------------------------------------------------------- delegation: service classes
# Trackers and filters are opaque services here: every call a wrapper makes into them is an uninterpreted function of its
# arguments (a fresh symbolic result of the callee's return type), recorded in order. The oracle pins, per wrapper, which
# Rust function must be called with which of the wrapper's inputs and which result must come back (EXPECT below, the
# binding contract at the pinned commit: same-named Rust function, arguments in the documented order).
import re as _re
SERVICE_TYPES = ('Sort', 'BatchSort', 'VisualSort', 'BatchVisualSort', 'Universal2DBoxKalmanFilter', 'Point2DKalmanFilter', 'Vec2DKalmanFilter',
                 'PredictionBatchRequest', 'PredictionBatchResult', 'SpatioTemporalConstraints')
CONVERSION_TARGETS = ('WastedSortTrack', 'WastedVisualSortTrack', 'SortTrack')


def sym_w(vm, P, ty, name, fixed=False):
    """symbolic value of a wrapper-side type (Py newtypes nested in tuples / Vec / Option / references)"""
    ty = ty.strip()
    if ty.startswith('&'):
        inner = _re.sub(r"^&\s*('\w+\s+)?(mut\s+)?", '', ty)
        return Ref(Cell(sym_w(vm, P, inner, name, fixed), name))
    if ty.startswith('(') and ty.endswith(')'):
        from decls import split_top
        return tuple(sym_w(vm, P, t, "%s_%d" % (name, i), fixed) for i, t in enumerate(split_top(ty[1:-1])) if t.strip())
    b = base_name(ty)
    ga = generic_args(ty)
    if b in SERVICE_TYPES:
        return Opaque(b, name)
    if b in ('Vec',) and len(ga) == 1:
        # list elements: Option parts fixed to "given" (the paths through a list do not depend on them)
        return VecV(tuple(sym_w(vm, P, ga[0], "%s_%d" % (name, i), True) for i in range(2)), 'Vec')
    if b == 'Option' and len(ga) == 1:
        if not fixed and vm.choose_n(2, name + " given") == 0:
            return NONE
        return SOME(sym_w(vm, P, ga[0], name, fixed))
    if b in ENUM_PAYLOAD:
        return sym_arg(vm, P, b, name)[1]
    if b.startswith('Py') and b in P.decls.structs and P.decls.struct_field_types.get(b):
        fts = P.decls.struct_field_types[b]
        return Adt(b, 0, tuple(sym_w(vm, P, ft, name, fixed) for ft in fts))
    return sym(vm, P, ty, name, 2 if fixed else 0)


def peel_all(v):
    if isinstance(v, Adt) and v.ty.startswith('Py') and len(v.fields) == 1:
        return peel_all(v.fields[0])
    if isinstance(v, VecV):
        return VecV(tuple(peel_all(x) for x in v.items), 'Vec')
    if isinstance(v, tuple):
        return tuple(peel_all(x) for x in v)
    if isinstance(v, Adt) and v.ty in ('Option', 'Result'):
        return Adt(v.ty, v.variant, tuple(peel_all(x) for x in v.fields))
    return v


def _service_calls(P):
    def snap(vm, a):
        n = 0
        while isinstance(a, Ref) and n < 3:
            a = vm.deref(a)
            n += 1
        return a

    def hook(vm, cal, args):
        key = cal.key()
        c = P.impl_methods.get(key)
        if c:
            fn = c[0][0]
        elif (key[1], key[2]) in P.trait_defaults:
            fn = P.trait_defaults[(key[1], key[2])]
        else:
            return NotImplemented
        rty = _re.sub(r'\bSelf\b', key[0], fn.ret.strip())
        calls = vm.notes.setdefault('calls', [])
        k = len(calls)
        if rty.startswith('&'):
            r = args[0]
        elif rty == '()':
            r = ()
        else:
            r = sym_w(vm, P, rty, 'ret%d' % k)
        calls.append(("%s::%s" % (key[0], key[2]) if key[1] is None else "<%s as %s>::%s" % key, [peel_all(snap(vm, a)) for a in args], r))
        return r

    def with_gil(vm, cal, args):
        return vm.call_value(args[0], [Opaque('Python', 'py')])

    def allow_threads(vm, cal, args):
        return vm.call_value(args[1], [])
    d = {('Python', None, 'with_gil'): with_gil, ('Python', None, 'allow_threads'): allow_threads}
    for key, lst in P.impl_methods.items():
        (c, t, m) = key
        if 'python::' in lst[0][0].name:
            continue
        if c in SERVICE_TYPES or (c in CONVERSION_TARGETS and t == 'From'):
            d[key] = hook
    for (tr, m) in P.trait_defaults:
        if tr == 'TrackerAPI':
            for c in SERVICE_TYPES:
                d.setdefault((c, tr, m), hook)
    return d


def sources(vm, self_inner, wargs, calls_so_far):
    """named candidate sources a recorded argument / the result may be equal to"""
    out = [('self', self_inner)] if self_inner is not None else []
    for i, a in enumerate(wargs):
        pa = peel_all(a)
        out.append(('arg%d' % i, pa))
        if isinstance(pa, VecV):
            for j, x in enumerate(pa.items):
                out.append(('arg%d[%d]' % (i, j), x))
                if isinstance(x, tuple):
                    for k, y in enumerate(x):
                        out.append(('arg%d[%d].%d' % (i, j, k), y))
    for k, (_, _, r) in enumerate(calls_so_far):
        out.append(('ret%d' % k, peel_all(r)))
        pr = peel_all(r)
        if isinstance(pr, VecV):
            for j, x in enumerate(pr.items):
                out.append(('ret%d[%d]' % (k, j), x))
    return out


def describe(vm, v, srcs):
    """name of the source `v` is (provably) equal to, a constant, or a structural description"""
    for n, s in srcs:
        try:
            if type(s) is type(v) or (isinstance(s, (I,)) and isinstance(v, (I,))):
                e = struct_eq(s, v)
                if z3.is_true(z3.simplify(e)):
                    return n
        except Exception:
            pass
    if isinstance(v, I):
        sv = z3.simplify(v.e)
        if z3.is_bv_value(sv):
            return 'const:%d' % sv.as_long()
    if isinstance(v, VecV):
        return '[' + ', '.join(describe(vm, x, srcs) for x in v.items) + ']'
    if isinstance(v, tuple):
        return '(' + ', '.join(describe(vm, x, srcs) for x in v) + ')'
    if isinstance(v, Adt) and v.ty == 'Option':
        return 'None' if v.variant == 0 else 'Some(' + describe(vm, v.fields[0], srcs) + ')'
    if isinstance(v, Adt) and v.ty == 'Result':
        return ('Ok(' if v.variant == 0 else 'Err(') + describe(vm, v.fields[0], srcs) + ')'
    if v == ():
        return '()'
    return '?'


def run_wrapper(vm, P, cls, m):
    fn = P.impl_methods[(cls, None, m)][0][0]
    vm.notes['calls'] = []
    args, wargs, self_inner = [], [], None
    for i, (loc, ty) in enumerate(fn.params):
        t = ty.strip()
        if i == 0 and _re.sub(r"^&\s*('\w+\s+)?(mut\s+)?", '', t) in (cls, 'Self'):
            selfv = sym_w(vm, P, cls, 'self')
            self_inner = peel_all(selfv)
            args.append(Ref(Cell(selfv, 'self')) if t.startswith('&') else selfv)
        else:
            a = sym_w(vm, P, t, 'arg%d' % len(wargs))
            wargs.append(a.cell.v if isinstance(a, Ref) else a)
            args.append(a)
    # integer parameters: non-negative (the wrappers' own argument validation rejects negative numbers)
    for a in wargs:
        if isinstance(a, I) and a.bits == 64:
            vm.assume(a.e >= 0)
    r = vm.exec_fn(fn, args, {})
    return self_inner, wargs, r


def _tracker_expect(T, has_predict_scene=True):
    e = {
        'clear_wasted': "<%s as TrackerAPI>::clear_wasted(self) => ?" % T,
        'current_epoch': "<%s as TrackerAPI>::current_epoch_with_scene(self, const:0) => ret0" % T,
        'current_epoch_with_scene': "<%s as TrackerAPI>::current_epoch_with_scene(self, arg0) => ret0" % T,
        'skip_epochs': "<%s as TrackerAPI>::skip_epochs(self, arg0) => ?" % T,
        'skip_epochs_for_scene': "<%s as TrackerAPI>::skip_epochs_for_scene(self, arg0, arg1) => ?" % T,
    }
    return e


# the binding contract: which Rust function a Python method is, with which of its inputs, and what it returns
# ('?' = not constrained here: a value computed by the wrapper, covered by other queries)
EXPECT = {
    'PySort': dict(_tracker_expect('Sort'), **{
        'idle_tracks': "Sort::idle_tracks_with_scene(self, const:0) => ret0",
        'idle_tracks_with_scene': "Sort::idle_tracks_with_scene(self, arg0) => ret0",
        'new_py': "Sort::new(arg0, arg1, arg2, ?, arg4, arg5, arg6, arg7) => ret0",
        'predict_with_scene': "Sort::predict_with_scene(self, arg0, arg1) => ret0",
        'predict': "Sort::predict_with_scene(self, const:0, arg0) => ret0",
        'wasted': "<Sort as TrackerAPI>::wasted(self) ; <WastedSortTrack as From>::from(ret0[0]) ; <WastedSortTrack as From>::from(ret0[1]) => [ret1, ret2]",
    }),
    'PyBatchSort': dict(_tracker_expect('BatchSort'), **{
        'idle_tracks': "BatchSort::idle_tracks_with_scene(self, arg0) => ret0",
        'new': "BatchSort::new(arg0, arg1, arg2, arg3, ?, arg5, arg6, arg7, arg8) => ret0",
        'wasted': "<BatchSort as TrackerAPI>::wasted(self) ; <WastedSortTrack as From>::from(ret0[0]) ; <WastedSortTrack as From>::from(ret0[1]) => [ret1, ret2]",
    }),
    'PyVisualSort': dict(_tracker_expect('VisualSort'), **{
        'idle_tracks': "VisualSort::idle_tracks_with_scene(self, const:0) => ret0",
        'idle_tracks_with_scene_py': "VisualSort::idle_tracks_with_scene(self, arg0) => ret0",
        'new': "VisualSort::new(arg0, arg1) => ret0",
        'shard_stats': "<VisualSort as TrackerAPI>::active_shard_stats(self) => ret0",
        'wasted': "<VisualSort as TrackerAPI>::wasted(self) ; <WastedVisualSortTrack as From>::from(ret0[0]) ; <WastedVisualSortTrack as From>::from(ret0[1]) => [ret1, ret2]",
    }),
    'PyBatchVisualSort': dict(_tracker_expect('BatchVisualSort'), **{
        'idle_tracks': "BatchVisualSort::idle_tracks_with_scene(self, arg0) => ret0",
        'new': "BatchVisualSort::new(arg0, arg1, arg2) => ret0",
        'wasted': "<BatchVisualSort as TrackerAPI>::wasted(self) ; <WastedVisualSortTrack as From>::from(ret0[0]) ; <WastedVisualSortTrack as From>::from(ret0[1]) => [ret1, ret2]",
    }),
    'PyUniversal2DBoxKalmanFilter': {
        'calculate_cost': "Universal2DBoxKalmanFilter::calculate_cost(arg0, arg1) => ret0",
        'distance': "Universal2DBoxKalmanFilter::distance(self, arg0, arg1) => ret0",
        'initiate': "Universal2DBoxKalmanFilter::initiate(self, arg0) => ret0",
        'new': "Universal2DBoxKalmanFilter::new(arg0, arg1) => ret0",
        'predict': "Universal2DBoxKalmanFilter::predict(self, arg0) => ret0",
        'update': "Universal2DBoxKalmanFilter::update(self, arg0, arg1) => ret0",
    },
    'PyPoint2DKalmanFilter': {
        'calculate_cost': "Point2DKalmanFilter::calculate_cost(arg0, arg1) => ret0",
        'new': "Point2DKalmanFilter::new(arg0, arg1) => ret0",
        'predict': "Point2DKalmanFilter::predict(self, arg0) => ret0",
        'initiate': "Point2DKalmanFilter::initiate(self, point(arg0, arg1)) => ret0",
        'update': "Point2DKalmanFilter::update(self, arg0, point(arg1, arg2)) => ret0",
        'distance': "Point2DKalmanFilter::distance(self, arg0, point(arg1, arg2)) => ret0",
    },
    'PyVec2DKalmanFilter': {
        'calculate_cost': "Vec2DKalmanFilter::calculate_cost(arg0, arg1) => ret0",
        'new': "Vec2DKalmanFilter::new(arg0, arg1) => ret0",
        'predict': "Vec2DKalmanFilter::predict(self, [arg0[0], arg0[1]]) => [ret0[0], ret0[1]]",
        'initiate': "Vec2DKalmanFilter::initiate(self, [point(arg0[0].0, arg0[0].1), point(arg0[1].0, arg0[1].1)]) => [ret0[0], ret0[1]]",
        'update': "Vec2DKalmanFilter::update(self, [arg0[0], arg0[1]], [point(arg1[0].0, arg1[0].1), point(arg1[1].0, arg1[1].1)]) => [ret0[0], ret0[1]]",
        'distance': "Vec2DKalmanFilter::distance(self, [arg0[0], arg0[1]], [point(arg1[0].0, arg1[0].1), point(arg1[1].0, arg1[1].1)]) => ret0",
    },
    'PyPredictionBatchResult': {
        'batch_size': "PredictionBatchResult::batch_size(self) => ret0",
        'get': "PredictionBatchResult::get(self) => ret0",
        'ready': "PredictionBatchResult::ready(self) => ret0",
    },
    'PySpatioTemporalConstraints': {
        'add_constraints': "SpatioTemporalConstraints::add_constraints(self, arg0) => ?",
        'new': "<SpatioTemporalConstraints as Default>::default() => ret0",
        'validate': "SpatioTemporalConstraints::validate(self, arg0, arg1) => ret0",
    },
    'PySortPredictionBatchRequest': {
        'add': "PredictionBatchRequest::add(?, arg0, (arg1, arg2)) => ?",
    },
}


def _parse_items(s):
    """split a comma list at nesting depth 0"""
    out, depth, cur = [], 0, ''
    for ch in s:
        if ch in '([':
            depth += 1
        elif ch in ')]':
            depth -= 1
        if ch == ',' and depth == 0:
            out.append(cur.strip())
            cur = ''
        else:
            cur += ch
    if cur.strip():
        out.append(cur.strip())
    return out


def match(vm, actual, spec, srcs, msg):
    spec = spec.strip()
    if spec == '?':
        return
    if spec.startswith('const:'):
        vm.check(actual.e == int(spec[6:]) if isinstance(actual, I) else BOOL(False), msg + " [expected the constant %s]" % spec[6:])
        return
    if spec[0] in '([' or spec.startswith('point('):
        inner = spec[spec.index('(') + 1:-1] if spec.startswith('point(') else spec[1:-1]
        items = _parse_items(inner)
        if spec.startswith('point('):
            # nalgebra Point2 (x, y)
            ok = isinstance(actual, Adt) and actual.ty == 'OPoint'
            vm.check(BOOL(ok), msg + " [expected a point]")
            if ok:
                xy = actual.fields[0].fields
                for a, sp in zip(xy, items):
                    match(vm, a, sp, srcs, msg)
            return
        seq = list(actual.items) if isinstance(actual, VecV) else (list(actual) if isinstance(actual, tuple) else None)
        vm.check(BOOL(seq is not None and len(seq) == len(items)), msg + " [expected %d items]" % len(items))
        if seq is not None and len(seq) == len(items):
            for a, sp in zip(seq, items):
                match(vm, a, sp, srcs, msg)
        return
    d = dict(srcs)
    vm.check(BOOL(spec in d), msg + " [no such source %s]" % spec)
    if spec in d:
        vm.check(struct_eq(d[spec], actual), msg + " [expected %s]" % spec)


def check_expect(vm, P, cls, m, spec):
    who = "%s.%s" % (cls[2:], m)
    try:
        si, wa, r = run_wrapper(vm, P, cls, m)
    except Panic:
        return      # argument validation / conversion overflow: Python sees an exception
    calls = vm.notes['calls']
    lhs, rhs = spec.rsplit('=>', 1)
    want = [c.strip() for c in lhs.split(' ; ') if c.strip()]
    vm.check(BOOL(len(calls) == len(want)), "%s makes exactly the documented calls into the Rust API (%d expected, %d made: %s)" % (who, len(want), len(calls), [c[0] for c in calls]))
    if len(calls) != len(want):
        return
    for k, (w, (name, cargs, cr)) in enumerate(zip(want, calls)):
        wname, wargs = w[:w.index('(')] if not w.startswith('<') else w[:w.index('(', w.index('>::'))], None
        wargs = _parse_items(w[len(wname) + 1:-1])
        vm.check(BOOL(name == wname), "%s calls %s (calls %s)" % (who, wname, name))
        vm.check(BOOL(len(cargs) == len(wargs)), "%s passes %d arguments to %s" % (who, len(wargs), wname))
        if name != wname or len(cargs) != len(wargs):
            return
        srcs = sources(vm, si, wa, calls[:k])
        for j, (a, sp) in enumerate(zip(cargs, wargs)):
            match(vm, a, sp, srcs, "%s passes its inputs to %s unchanged and in order (argument %d)" % (who, wname, j))
    match(vm, peel_all(r), rhs, sources(vm, si, wa, calls), "%s returns what the Rust call returned" % who)


def _mk_delegation(cls):
    def q(vm, P):
        ms = sorted(EXPECT[cls])
        missing = [m for m in ms if (cls, None, m) not in P.impl_methods]
        vm.check(BOOL(not missing), "%s has the documented methods (missing: %s)" % (cls[2:], missing))
        m = ms[vm.choose_n(len(ms), "method")]
        vm.notes['accessor'] = " (%s.%s)" % (cls[2:], m)
        check_expect(vm, P, cls, m, EXPECT[cls][m])
    return q


PY_DELEGATION = PY_PRELUDE + r'''
box = lambda x, y=5.0: S.BoundingBox(x, y, 10.0, 20.0).as_xyaah()

def simple_predict(t, visual, scene, xs):
    if visual:
        s = S.VisualSortObservationSet()
        for x in xs:
            s.add(S.VisualSortObservation(feature=None, feature_quality=None, bounding_box=box(x), custom_object_id=None))
        return t.predict(s) if scene is None else t.predict_with_scene(scene, s)
    dets = [(box(x), None) for x in xs]
    return t.predict(dets) if scene is None else t.predict_with_scene(scene, dets)

def batch_predict(t, visual, per_scene):
    req = S.VisualSortPredictionBatchRequest() if visual else S.SortPredictionBatchRequest()
    for scene, xs in per_scene.items():
        for x in xs:
            if visual:
                req.add(scene, S.VisualSortObservation(feature=None, feature_quality=None, bounding_box=box(x), custom_object_id=None))
            else:
                req.add(scene, box(x), None)
    res = t.predict(req)
    out = {}
    for _ in range(res.batch_size()):
        scene, recs = res.get()
        out[scene] = recs
    return out

def vopts(max_idle, hist):
    o = S.VisualSortOptions()
    o.max_idle_epochs(max_idle)
    o.kept_history_length(hist)
    o.positional_metric(S.PositionalMetricType.iou(0.3))
    return o

for kind in ("sort", "visual", "batch_sort", "batch_visual"):
    visual, batch = "visual" in kind, "batch" in kind
    if kind == "sort":
        t = S.Sort(3, 2, 1, S.PositionalMetricType.iou(0.3), 0.05, None, 0.05, 0.00625)
        assert len(t.shard_stats()) == 3, "Sort(shards=3): %r" % t.shard_stats()
    elif kind == "visual":
        t = S.VisualSort(3, vopts(1, 2))
        assert len(t.shard_stats()) == 3, "VisualSort(shards=3): %r" % t.shard_stats()
    elif kind == "batch_sort":
        t = S.BatchSort(3, 2, 2, 1, S.PositionalMetricType.iou(0.3), 0.05, None, 0.05, 0.00625)
        assert len(t.shard_stats()) == 3, "BatchSort(distance_shards=3): %r" % t.shard_stats()
    else:
        t = S.BatchVisualSort(3, 2, vopts(1, 2))
        assert len(t.shard_stats()) == 3, "BatchVisualSort(distance_shards=3): %r" % t.shard_stats()
    # epochs per scene
    t.skip_epochs_for_scene(7, 3)
    assert t.current_epoch_with_scene(7) == 3, "%s: skip_epochs_for_scene(7, 3) then current_epoch_with_scene(7) = %r" % (kind, t.current_epoch_with_scene(7))
    assert t.current_epoch_with_scene(3) == 0, "%s: scene 3 untouched by skip_epochs_for_scene(7, 3): %r" % (kind, t.current_epoch_with_scene(3))
    assert t.current_epoch() == 0, "%s: current_epoch() is scene 0: %r" % (kind, t.current_epoch())
    t.skip_epochs(2)
    assert t.current_epoch() == 2 and t.current_epoch_with_scene(0) == 2, "%s: skip_epochs(2) advances scene 0" % kind
    assert t.current_epoch_with_scene(7) == 3, "%s: skip_epochs(2) leaves scene 7 alone" % kind
    # predictions go to the scene given (scene 0 by default for the simple trackers)
    if batch:
        r = batch_predict(t, visual, {0: [100.0], 5: [300.0, 400.0]})
        r0, r5 = r[0], r[5]
    else:
        r0 = simple_predict(t, visual, None, [100.0])
        r5 = simple_predict(t, visual, 5, [300.0, 400.0])
    assert [x.scene_id for x in r0] == [0] and r0[0].epoch == 3, "%s: predict() works on scene 0: %r" % (kind, r0)
    assert [x.scene_id for x in r5] == [5, 5] and r5[0].epoch == 1, "%s: predict_with_scene(5, ..): %r" % (kind, r5)
    assert [round(x.observed_bbox.xc) for x in r5] == [305, 405], "%s: records in submission order" % kind
    # next epoch in both scenes without detections at those places: the tracks are idle in their own scene only
    if batch:
        batch_predict(t, visual, {0: [900.0], 5: [900.0]})
        assert sorted(x.id for x in t.idle_tracks(0)) == sorted(x.id for x in r0), "%s: idle_tracks(0)" % kind
        assert sorted(x.id for x in t.idle_tracks(5)) == sorted(x.id for x in r5), "%s: idle_tracks(5)" % kind
        assert t.idle_tracks(6) == [], "%s: idle_tracks(6)" % kind
    else:
        simple_predict(t, visual, None, [900.0])
        simple_predict(t, visual, 5, [900.0])
        assert sorted(x.id for x in t.idle_tracks()) == sorted(x.id for x in r0), "%s: idle_tracks() is scene 0" % kind
        idle_of = getattr(t, "idle_tracks_with_scene", None) or getattr(t, "idle_tracks_with_scene_py")
        assert sorted(x.id for x in idle_of(5)) == sorted(x.id for x in r5), "%s: idle_tracks_with_scene(5)" % kind
        assert idle_of(6) == [], "%s: idle_tracks_with_scene(6)" % kind
    # max_idle_epochs = 1: gone after one more epoch; wasted holds them with their history (bbox_history = 2)
    t.skip_epochs_for_scene(5, 3)
    t.skip_epochs(3)
    if batch:
        batch_predict(t, visual, {0: [900.0], 5: [900.0]})
    else:
        simple_predict(t, visual, None, [900.0]); simple_predict(t, visual, 5, [900.0])
    w = t.wasted()
    mine = set(x.id for x in list(r0) + list(r5))
    assert mine <= set(x.id for x in w), "%s: wasted() returns the expired tracks: %r" % (kind, sorted(x.id for x in w))
    assert sorted((x.scene_id, round(x.observed_bbox.xc)) for x in w if x.id in mine) == [(0, 105), (5, 305), (5, 405)], "%s: wasted records" % kind
    t.clear_wasted()
    assert t.wasted() == [], "%s: clear_wasted()" % kind

# Kalman filters: arguments go to the filter in the documented order
f = S.Universal2DBoxKalmanFilter(0.05, 0.00625)
b0 = S.BoundingBox(10.0, 20.0, 30.0, 40.0).as_xyaah()
s = f.initiate(b0)
u = s.universal_bbox()
assert (u.xc, u.yc, u.aspect, u.height) == (b0.xc, b0.yc, b0.aspect, b0.height), "box filter initiate / universal_bbox"
bb = s.bbox()
assert close(bb.left, 10.0) and close(bb.top, 20.0) and close(bb.width, 30.0) and close(bb.height, 40.0), "box filter state bbox()"
s = f.predict(s)
assert close(f.distance(s, b0), 0.0), "box filter distance at the state's own box"
b1 = S.BoundingBox(16.0, 20.0, 30.0, 40.0).as_xyaah()
assert f.distance(s, b1) > 1.0, "box filter distance to a shifted box"
s2 = f.update(s, b1)
assert b0.xc < s2.universal_bbox().xc < b1.xc and close(s2.universal_bbox().yc, b0.yc), "box filter update moves towards the measurement"
assert S.Universal2DBoxKalmanFilter.calculate_cost(3.0, False) == 3.0 and S.Universal2DBoxKalmanFilter.calculate_cost(3.0, True) == 97.0, "box filter calculate_cost"
assert S.Universal2DBoxKalmanFilter.calculate_cost(50.0, False) == 100.0 and S.Universal2DBoxKalmanFilter.calculate_cost(50.0, True) == 0.0, "box filter calculate_cost outside the gate"

p = S.Point2DKalmanFilter(0.05, 0.00625)
s = p.initiate(10.0, 20.0)
assert (s.x(), s.y()) == (10.0, 20.0), "point filter initiate(x, y)"
s = p.predict(s)
assert close(p.distance(s, 10.0, 20.0), 0.0), "point filter distance(state, x, y) at the state's own position: %r" % p.distance(s, 10.0, 20.0)
assert p.distance(s, 13.0, 20.0) > 0.5, "point filter distance to a shifted point"
s2 = p.update(s, 16.0, 20.0)
assert 10.0 < s2.x() < 16.0 and close(s2.y(), 20.0), "point filter update(state, x, y): %r" % ((s2.x(), s2.y()),)
assert S.Point2DKalmanFilter.calculate_cost(3.0, False) == 3.0 and S.Point2DKalmanFilter.calculate_cost(3.0, True) == 97.0, "point filter calculate_cost"

v = S.Vec2DKalmanFilter(0.05, 0.00625)
st = v.initiate([(10.0, 20.0), (1.0, 2.0)])
assert [(q.x(), q.y()) for q in st] == [(10.0, 20.0), (1.0, 2.0)], "vector filter initiate"
st = v.predict(st)
d = v.distance(st, [(10.0, 20.0), (4.0, 2.0)])
assert close(d[0], 0.0) and d[1] > 0.5, "vector filter distance per point: %r" % d
st2 = v.update(st, [(10.0, 20.0), (7.0, 2.0)])
assert close(st2[0].x(), 10.0) and 1.0 < st2[1].x() < 7.0 and close(st2[1].y(), 2.0), "vector filter update per point"

c = S.SpatioTemporalConstraints()
c.add_constraints([(2, 10.0)])
assert c.validate(2, 5.0) and not c.validate(2, 20.0), "SpatioTemporalConstraints.validate(epoch_delta, distance)"
print("REPLAY-OK")
'''


def replay_delegation(cex, v, vm):
    return PY_DELEGATION


for _c in EXPECT:
    MIR.append(MQ("c18_delegation_%s" % _c, "quick", _mk_delegation(_c),
                  "every listed method of %s calls the Rust function it documents with its own inputs, unchanged and in order (scene ids, counts, boxes, states), and returns what that call returned" % _c[2:],
                  "methods: %s; the Rust call is an uninterpreted function of its arguments; lists of 2 elements" % ', '.join(sorted(EXPECT[_c])),
                  ["similari::*::python::%s::{%s}" % (_c, ', '.join(sorted(EXPECT[_c])))], spec_calls=_service_calls, replay=replay_delegation, max_paths=5000))


# ---------------------------------------------------------------------------------------------- differential: value API
# wrapper and wrapped Rust function both executed from MIR on the same inputs (floats from exact grids so that a changed
# wrapper is decided by evaluation instead of floating-point search)
DIFF = {
    'PyBoundingBox': {'new': ('BoundingBox', None, 'new'), 'new_with_confidence': ('BoundingBox', None, 'new_with_confidence'),
                      'as_xyaah': ('BoundingBox', None, 'as_xyaah')},
    'PyUniversal2DBox': {'new': ('Universal2DBox', None, 'new'), 'new_with_confidence': ('Universal2DBox', None, 'new_with_confidence'),
                         'ltwh': ('Universal2DBox', None, 'ltwh'), 'ltwh_with_confidence': ('Universal2DBox', None, 'ltwh_with_confidence'),
                         'get_radius': ('Universal2DBox', None, 'get_radius'), 'area': ('Universal2DBox', None, 'area'),
                         'set_confidence': ('Universal2DBox', None, 'set_confidence'), 'rotate': ('Universal2DBox', None, 'rotate_mut')},
    'PyVisualSortMetricType': {'euclidean': ('VisualSortMetricType', None, 'euclidean'), 'cosine': ('VisualSortMetricType', None, 'cosine')},
    'PyPositionalMetricType': {'maha': 'Mahalanobis', 'iou': 'IoU'},
}
FGRID = [0.25, 0.5, 1.5, 3.0, 7.0, 20.0]


def grid_value_of(vm, P, ty, name):
    ty = ty.strip()
    if ty == 'f32':
        return grid_f32(vm, name, FGRID)
    if ty == 'Option<f32>':
        return NONE if vm.choose_n(2, name + " given") == 0 else SOME(grid_f32(vm, name, [0.0, 0.5, 2.0]))
    if base_name(ty) == 'BoundingBox':
        return Adt('BoundingBox', 0, tuple(grid_f32(vm, "%s_%s" % (name, f), FGRID if f != 'confidence' else [0.25, 1.0]) for f in P.decls.structs['BoundingBox']))
    if base_name(ty) == 'Universal2DBox':
        fs = []
        for f, ft in zip(P.decls.structs['Universal2DBox'], P.decls.struct_field_types['Universal2DBox']):
            if f == '_vertex_cache':
                fs.append(NONE)
            elif f == 'confidence':
                fs.append(grid_f32(vm, name + '_confidence', [0.25, 1.0]))
            else:
                fs.append(grid_value_of(vm, P, ft, "%s_%s" % (name, f)))
        return Adt('Universal2DBox', 0, tuple(fs))
    return sym(vm, P, ty, name)


def _mk_diff(cls):
    def q(vm, P):
        ms = sorted(DIFF[cls])
        missing = [m for m in ms if (cls, None, m) not in P.impl_methods]
        vm.check(BOOL(not missing), "%s has the documented methods (missing: %s)" % (cls[2:], missing))
        m = ms[vm.choose_n(len(ms), "method")]
        who = " (%s.%s)" % (cls[2:], m)
        vm.notes['accessor'] = who
        wfn = P.impl_methods[(cls, None, m)][0][0]
        target = DIFF[cls][m]
        inner_ty = wrapped_type(P, cls)
        wargs, rargs, cell, inner = [], [], None, None
        for i, (loc, ty) in enumerate(wfn.params):
            t = ty.strip()
            if i == 0 and _re.sub(r"^&\s*('\w+\s+)?(mut\s+)?", '', t) in (cls, 'Self'):
                inner = grid_value_of(vm, P, inner_ty, 'self')
                cell = Cell(Adt(cls, 0, (inner,)), 'self')
                wargs.append(Ref(cell))
            else:
                a = grid_value_of(vm, P, t, 'arg%d' % i)
                wargs.append(a)
                rargs.append(a)
        try:
            r = vm.exec_fn(wfn, wargs, {})
            wpanic = False
        except Panic:
            wpanic = True
        if isinstance(target, str):
            if wpanic:
                return
            want = variant(P, 'PositionalMetricType', target, *rargs)
            vm.check(struct_eq(peel_all(r), want), "the Python constructor builds the Rust value of the same name" + who)
            return
        rfn = P.impl_methods[target][0][0]
        rcell = None
        if inner is not None:
            rcell = Cell(inner, 'rust_self')
            rargs = [Ref(rcell)] + rargs
        try:
            want = vm.exec_fn(rfn, rargs, {})
        except Panic:
            return      # the Rust function rejects these inputs
        vm.check(BOOL(not wpanic), "the binding accepts what the Rust function accepts" + who)
        if wpanic:
            return
        if not (isinstance(want, Ref)):
            vm.check(struct_eq(peel_all(r), peel_all(want)) if r != () or want != () else BOOL(True), "the Python method returns what the Rust function of the same name returns" + who)
        if inner is not None:
            vm.check(struct_eq(cell.v.fields[0], rcell.v), "the Python method leaves the object as the Rust function does" + who)
    return q


PY_VALUES = PY_PRELUDE + r'''
import math
b = S.BoundingBox(1.0, 2.0, 3.0, 4.0).as_xyaah()
assert (b.xc, b.yc, b.angle, b.aspect, b.height, b.confidence) == (2.5, 4.0, None, 0.75, 4.0, 1.0), "BoundingBox.as_xyaah: %r" % b
b = S.BoundingBox.new_with_confidence(1.0, 2.0, 3.0, 4.0, 0.5).as_xyaah()
assert (b.xc, b.yc, b.aspect, b.height, b.confidence) == (2.5, 4.0, 0.75, 4.0, 0.5), "BoundingBox.new_with_confidence / as_xyaah: %r" % b
u = S.Universal2DBox(1.0, 2.0, 0.5, 3.0, 4.0)
assert (u.xc, u.yc, u.angle, u.aspect, u.height, u.confidence) == (1.0, 2.0, 0.5, 3.0, 4.0, 1.0), "Universal2DBox(xc, yc, angle, aspect, height): %r" % u
u = S.Universal2DBox.ltwh(1.0, 2.0, 3.0, 4.0)
assert (u.xc, u.yc, u.angle, u.aspect, u.height, u.confidence) == (2.5, 4.0, None, 0.75, 4.0, 1.0), "Universal2DBox.ltwh: %r" % u
u = S.Universal2DBox.ltwh_with_confidence(1.0, 2.0, 3.0, 4.0, 0.25)
assert (u.xc, u.yc, u.aspect, u.height, u.confidence) == (2.5, 4.0, 0.75, 4.0, 0.25), "Universal2DBox.ltwh_with_confidence: %r" % u
u = S.Universal2DBox(0.0, 0.0, None, 0.75, 8.0)
assert close(u.get_radius(), 5.0), "Universal2DBox.get_radius: %r" % u.get_radius()
assert close(u.area(), 48.0), "Universal2DBox.area: %r" % u.area()
u.rotate(0.5)
assert u.angle == 0.5 and (u.xc, u.yc, u.aspect, u.height) == (0.0, 0.0, 0.75, 8.0), "Universal2DBox.rotate: %r" % u
u.confidence = 0.5
assert u.confidence == 0.5, "Universal2DBox.confidence setter"
l = S.Universal2DBox(2.5, 4.0, None, 0.75, 4.0).as_ltwh()
assert (l.left, l.top, l.width, l.height) == (1.0, 2.0, 3.0, 4.0), "Universal2DBox.as_ltwh: %r" % l
assert "IoU(0.625)" in repr(S.PositionalMetricType.iou(0.625)).replace("\n", "").replace(" ", "").replace(",)", ")"), "PositionalMetricType.iou"
assert "Mahalanobis" in repr(S.PositionalMetricType.maha()), "PositionalMetricType.maha"
assert "Euclidean(0.75)" in repr(S.VisualSortMetricType.euclidean(0.75)).replace("\n", "").replace(" ", "").replace(",)", ")"), "VisualSortMetricType.euclidean"
assert "Cosine(0.75)" in repr(S.VisualSortMetricType.cosine(0.75)).replace("\n", "").replace(" ", "").replace(",)", ")"), "VisualSortMetricType.cosine"
print("REPLAY-OK")
'''


def replay_values(cex, v, vm):
    return PY_VALUES


for _c in DIFF:
    MIR.append(MQ("c18_values_%s" % _c, "quick", _mk_diff(_c),
                  "every listed method of %s returns (and leaves the object as) the Rust function of the same name does, both executed from MIR on the same inputs" % _c[2:],
                  "methods: %s; floats from {.25,.5,1.5,3,7,20}, confidences {.25,1}, angle None or from {0,.5,2}" % ', '.join(sorted(DIFF[_c])),
                  ["similari::*::python::%s::{%s}" % (_c, ', '.join(sorted(DIFF[_c])))], replay=replay_values, max_paths=5000))


# ---------------------------------------------------------------------------------------------- filter states
def _mk_state():
    def q(vm, P):
        from models import _mat_elem
        k = vm.choose_n(3, "state accessor")
        if k < 2:
            cls, m = 'PyPoint2DKalmanFilterState', ('x', 'y')[k]
            st = sym(vm, P, 'KalmanState<{ DIM_2D_POINT_X2 }>', 'state')
            cell = Cell(Adt(cls, 0, (st,)), 'self')
            r = vm.exec_fn(P.impl_methods[(cls, None, m)][0][0], [Ref(cell)], {})
            want = _mat_elem(vm, st.fields[0], k)
            vm.check(struct_eq(r, want), "Point2DKalmanFilterState.%s() is component %d of the state's mean" % (m, k))
        else:
            cls = 'PyUniversal2DBoxKalmanFilterState'
            st = sym(vm, P, 'KalmanState<{ DIM_2D_BOX_X2 }>', 'state')
            vm.notes['mat_len'] = {'state_mean': 10}
            cell = Cell(Adt(cls, 0, (st,)), 'self')
            try:
                r = vm.exec_fn(P.impl_methods[(cls, None, 'universal_bbox')][0][0], [Ref(cell)], {})
            except Panic:
                return
            c = P.impl_methods[('Universal2DBox', 'TryFrom', 'try_from')]
            fn = [f for f, info in c if 'KalmanState' in (info.get('trait_full') or '')][0]
            want = vm.exec_fn(fn, [st], {})
            vm.check(BOOL(isinstance(want, Adt) and want.variant == 0), "the Rust conversion succeeds where the binding's does")
            vm.check(struct_eq(peel_all(r), want.fields[0]), "Universal2DBoxKalmanFilterState.universal_bbox() is the Rust conversion of the state")
    return q


MIR.append(MQ("c18_filter_states", "quick", _mk_state(), "Point2DKalmanFilterState.x() / y() are components 0 / 1 of the mean; Universal2DBoxKalmanFilterState.universal_bbox() is Universal2DBox::try_from(state)",
              "state = symbolic matrix terms", ["similari::utils::kalman::*::python::{PyPoint2DKalmanFilterState::{x, y}, PyUniversal2DBoxKalmanFilterState::universal_bbox}"], replay=replay_delegation))


# ---------------------------------------------------------------------------------------------- VisualSORT observations
def _norm(vm, v):
    """value behind references / Cow / Py newtypes, for field-by-field comparison"""
    n = 0
    while isinstance(v, Ref) and n < 4:
        v = vm.deref(v)
        n += 1
    if isinstance(v, Adt) and v.ty == 'Cow' and len(v.fields) == 1:
        return _norm(vm, v.fields[0])
    if isinstance(v, Adt) and v.ty.startswith('Py') and len(v.fields) == 1:
        return _norm(vm, v.fields[0])
    if isinstance(v, Adt):
        return Adt(v.ty, v.variant, tuple(_norm(vm, x) for x in v.fields))
    if isinstance(v, VecV):
        return VecV(tuple(_norm(vm, x) for x in v.items), 'Vec')
    if isinstance(v, tuple):
        return tuple(_norm(vm, x) for x in v)
    return v


def _sym_obs(vm, P, name):
    feat = NONE if vm.choose_n(2, name + " feature given") == 0 else SOME(Adt('Cow', 1, (VecV(tuple(vm.fresh('f32', '%s_f%d' % (name, i)) for i in range(2)), 'Vec'),)))
    q = NONE if vm.choose_n(2, name + " quality given") == 0 else SOME(vm.fresh('f32', name + '_quality'))
    cid = NONE if vm.choose_n(2, name + " custom id given") == 0 else SOME(vm.fresh(64, name + '_cid', True))
    box = sym(vm, P, 'Universal2DBox', name + '_box', 2)
    return mk(P, 'VisualSortObservation', feature=feat, feature_quality=q, bounding_box=box, custom_object_id=cid)


def _mk_visual_obs():
    def q(vm, P):
        k = vm.choose_n(3, "case")
        T = 'VisualSortObservation'
        names = P.decls.structs[T]
        if k == 0:
            # constructor: every argument lands in the field of its name
            fn = P.impl_methods[('PyVisualSortObservation', None, 'new')][0][0]
            feat = NONE if vm.choose_n(2, "feature given") == 0 else SOME(VecV(tuple(vm.fresh('f32', 'f%d' % i) for i in range(2)), 'Vec'))
            qual = NONE if vm.choose_n(2, "quality given") == 0 else SOME(vm.fresh('f32', 'quality'))
            box = sym(vm, P, 'Universal2DBox', 'box', 2)
            cid = NONE if vm.choose_n(2, "custom id given") == 0 else SOME(vm.fresh(64, 'cid', True))
            r = vm.exec_fn(fn, [feat, qual, Adt('PyUniversal2DBox', 0, (box,)), cid], {})
            o = _norm(vm, r)
            want = dict(feature=feat, feature_quality=qual, bounding_box=box, custom_object_id=cid)
            for n_, w in want.items():
                vm.check(struct_eq(o.fields[names.index(n_)], _norm(vm, w)), "VisualSortObservation(...) stores %s in the field of that name" % n_)
            return
        # predict / predict_with_scene: the observations reach the tracker field by field, in order, with the scene given
        obs = [_sym_obs(vm, P, 'o%d' % i) for i in range(2)]
        oset = Adt('PyVisualSortObservationSet', 0, (mk(P, 'VisualSortObservationSet', inner=VecV(tuple(obs), 'Vec')),))
        tracker = Ref(Cell(Adt('PyVisualSort', 0, (Opaque('VisualSort', 'self'),)), 'self'))
        vm.notes['calls'] = []
        if k == 1:
            scene = vm.fresh(64, 'scene', True)
            vm.assume(scene.e >= 0)
            r = vm.exec_fn(P.impl_methods[('PyVisualSort', None, 'predict_with_scene')][0][0], [tracker, scene, Ref(Cell(oset, 'set'))], {})
        else:
            scene = None
            r = vm.exec_fn(P.impl_methods[('PyVisualSort', None, 'predict')][0][0], [tracker, Ref(Cell(oset, 'set'))], {})
        calls = vm.notes['calls']
        who = "VisualSort.predict_with_scene" if k == 1 else "VisualSort.predict"
        vm.check(BOOL(len(calls) == 1 and calls[0][0] == 'VisualSort::predict_with_scene'), who + " calls VisualSort::predict_with_scene once: %s" % [c[0] for c in calls])
        if len(calls) != 1:
            return
        _, cargs, cr = calls[0]
        vm.check(cargs[1].e == (scene.e if scene is not None else 0), who + " works on the scene given (scene 0 for predict)")
        passed = _norm(vm, cargs[2])
        vm.check(BOOL(isinstance(passed, VecV) and len(passed.items) == 2), who + " passes every observation")
        if isinstance(passed, VecV) and len(passed.items) == 2:
            for i, (a, b) in enumerate(zip(passed.items, obs)):
                vm.check(struct_eq(a, _norm(vm, b)), who + " passes observation %d field by field (feature, quality, box, custom id), in order" % i)
        vm.check(struct_eq(peel_all(r), peel_all(cr)), who + " returns the tracker's records")
    return q


MIR.append(MQ("c18_visual_observations", "quick", _mk_visual_obs(),
              "VisualSortObservation(...) stores each argument in the field of its name; VisualSort.predict / predict_with_scene hand the set's observations to the tracker field by field, in order, on the scene given, and return its records",
              "2 observations, features of 2 components, every Option both ways; tracker call uninterpreted",
              ["similari::trackers::visual_sort::python::PyVisualSortObservation::new", "similari::trackers::visual_sort::simple_api::python::PyVisualSort::{predict, predict_with_scene}"],
              spec_calls=_service_calls, replay=replay_delegation, max_paths=5000))


# ---------------------------------------------------------------------------------------------- module-level functions
def _fn_calls(P):
    def nms_hook(vm, cal, args):
        dets = args[0]
        n = 0
        while isinstance(dets, Ref) and n < 3:
            dets = vm.deref(dets)
            n += 1
        items = list(dets.items) if isinstance(dets, VecV) else list(dets)
        vm.notes.setdefault('calls', []).append(('nms', [peel_all(VecV(tuple(items))), args[1], args[2]], None))
        # the (uninterpreted) selection: the boxes of the detections in reverse order, as references into the caller's list
        return VecV(tuple(Ref(Cell(it[0], 'kept%d' % i)) for i, it in reversed(list(enumerate(items)))), 'Vec')

    def clip_hook(vm, cal, args):
        a = args[0]
        n = 0
        while isinstance(a, Ref) and n < 3:
            a = vm.deref(a)
            n += 1
        r = Opaque('Polygon<f64>', 'clipped')
        vm.notes.setdefault('calls', []).append(('clip', [a, args[1]], r))
        return r

    def area_hook(vm, cal, args):
        a = args[0]
        n = 0
        while isinstance(a, Ref) and n < 3:
            a = vm.deref(a)
            n += 1
        r = vm.fresh('f64', 'area')
        vm.notes.setdefault('calls', []).append(('area', [a], r))
        return r
    d = dict(_service_calls(P))
    d[(None, None, 'nms')] = nms_hook
    for key in P.impl_methods:
        if key[0] == 'Universal2DBox' and key[2] == 'sutherland_hodgman_clip':
            d[key] = clip_hook
    d[('Polygon', 'Area', 'unsigned_area')] = area_hook
    return d


def _one(x):
    return x[0] if isinstance(x, list) else x


def _mk_functions():
    def q(vm, P):
        k = vm.choose_n(3, "function")
        vm.notes['calls'] = []
        if k == 0:
            dets = sym_w(vm, P, 'Vec<(PyUniversal2DBox, Option<f32>)>', 'dets')
            nthr, sthr = vm.fresh('f32', 'nms_threshold'), sym_w(vm, P, 'Option<f32>', 'score_threshold')
            r = vm.exec_fn(_one(P.fns['nms_py']), [dets, nthr, sthr], {})
            calls = vm.notes['calls']
            vm.check(BOOL(len(calls) == 1 and calls[0][0] == 'nms'), "nms(...) calls the Rust nms once")
            if len(calls) == 1:
                a = calls[0][1]
                vm.check(struct_eq(a[0], peel_all(dets)), "nms passes the detections (boxes and scores) unchanged and in order")
                vm.check(struct_eq(a[1], nthr), "nms passes nms_threshold")
                vm.check(struct_eq(a[2], sthr), "nms passes score_threshold")
            want = VecV(tuple(peel_all(it)[0] for it in reversed(dets.items)), 'Vec')
            vm.check(struct_eq(peel_all(r), want), "nms returns the boxes the Rust nms selected, in its order")
            return
        s, c = sym(vm, P, 'Universal2DBox', 'subject', 2), sym(vm, P, 'Universal2DBox', 'clipping', 2)
        name = 'sutherland_hodgman_clip_py' if k == 1 else 'intersection_area_py'
        r = vm.exec_fn(_one(P.fns[name]), [Adt('PyUniversal2DBox', 0, (s,)), Adt('PyUniversal2DBox', 0, (c,))], {})
        calls = vm.notes['calls']
        vm.check(BOOL(len(calls) >= 1 and calls[0][0] == 'clip'), name[:-3] + " clips with the Rust sutherland_hodgman_clip")
        if calls and calls[0][0] == 'clip':
            vm.check(struct_eq(calls[0][1][0], s), name[:-3] + ": the first argument is the subject")
            vm.check(struct_eq(calls[0][1][1], c), name[:-3] + ": the second argument is the clipping box")
            if k == 1:
                vm.check(BOOL(len(calls) == 1 and peel_all(r) == calls[0][2]), "sutherland_hodgman_clip returns the clipped polygon")
            else:
                vm.check(BOOL(len(calls) == 2 and calls[1][0] == 'area' and calls[1][1][0] == calls[0][2]), "intersection_area measures the clipped polygon")
                if len(calls) == 2:
                    vm.check(struct_eq(r, calls[1][2]), "intersection_area returns the unsigned area of the clipped polygon")
    return q


PY_FUNCTIONS = PY_PRELUDE + r'''
a = S.BoundingBox(0.0, 0.0, 10.0, 10.0).as_xyaah()
b = S.BoundingBox(5.0, 0.0, 10.0, 4.0).as_xyaah()
assert close(S.intersection_area(a, b), 20.0), "intersection_area: %r" % S.intersection_area(a, b)
pts = S.sutherland_hodgman_clip(a, b).get_points()
xs, ys = sorted(set(round(p[0], 3) for p in pts)), sorted(set(round(p[1], 3) for p in pts))
assert xs == [5.0, 10.0] and ys == [0.0, 4.0], "sutherland_hodgman_clip(subject, clipping): %r" % pts
big, small, far = (S.BoundingBox(10.0, 11.0, 3.0, 3.8).as_xyaah(), 1.0), (S.BoundingBox(10.3, 11.1, 2.9, 3.9).as_xyaah(), 0.9), (S.BoundingBox(100.0, 100.0, 3.0, 4.0).as_xyaah(), 0.2)
r = S.nms([small, big, far], 0.7, 0.0)
assert [round(x.xc, 2) for x in r] == [11.5, 101.5], "nms keeps the best of the overlapping pair and the separate box, by score: %r" % [x.xc for x in r]
r = S.nms([small, big, far], 0.7, 0.5)
assert [round(x.xc, 2) for x in r] == [11.5], "nms drops boxes below score_threshold: %r" % [x.xc for x in r]
r = S.nms([small, big, far], 0.99, 0.0)
assert len(r) == 3, "nms with a high nms_threshold keeps all: %d" % len(r)
print("REPLAY-OK")
'''


def replay_functions(cex, v, vm):
    return PY_FUNCTIONS


MIR.append(MQ("c18_functions", "quick", _mk_functions(),
              "nms / sutherland_hodgman_clip / intersection_area hand their arguments to the Rust functions unchanged and in order (subject first, clipping second; detections with scores, nms_threshold, score_threshold) and return their results",
              "2 detections; the Rust nms / clip / area are uninterpreted", ["similari::utils::nms::nms_py::nms_py", "similari::utils::clipping::clipping_py::{sutherland_hodgman_clip_py, intersection_area_py}"],
              spec_calls=_fn_calls, replay=replay_functions))
