"""C06 (part) - the positional batch tracker's predict step, decided by engine M: see props/stepbatch.py"""
import stepbatch as _b
KANI = []
MIR = list(_b.MIR)
EXPLANATION = ("Engine M executes one whole BatchSort::predict call (a batch holding one scene) from MIR on a symbolic tracker state - the real predict, "
               "PredictionBatchRequest / PredictionBatchResult code, the real voting_thread function on its command queue, the real TrackStore code over the shard-map "
               "store model with the real worker loop, SortVoting with kuhn_munkres by contract - and judges the records and the state after the call with the SAME "
               "oracle as the simple tracker's predict step (props/stepsort.py): batch and simple tracker refine one specification, which is deterministic up to the "
               "choice of fresh ids (one step from an arbitrary valid state = the inductive step of 'same grouping, boxes, epochs, lengths up to renaming of ids'). "
               "Also decided: the result object announces one result per scene, exactly one result arrives and carries its scene, every voting command is consumed, "
               "the busy monitor is back to zero afterwards (so the next submission's Condvar::wait_while ends), and neither submission nor retrieval waits forever "
               "in the modelled schedules. A second family of obligations starts from the REAL constructor (BatchSort::new with the real TrackStore::new; thread bodies recorded by a "
               "thread::spawn model and run by a generic scheduler) and sends a first batch with two scenes through two voting threads: one result per scene, records in order, "
               "ids pairwise distinct across scenes and threads, no panic. BatchVisualSort::predict is plugged into the VisualSORT step query the same way. Threads are modelled at command granularity: a voting thread / store worker runs when the caller blocks (result channel, "
               "busy monitor, store responses); with two voting threads both service orders are explored. Counterexamples are replayed natively: the same multi-scene "
               "histories through BatchSort (all scenes of a step in one batch, 1-3 voting threads, 1-2 shards, IoU and Mahalanobis) and through Sort, compared per "
               "scene up to a consistent renaming of ids, retrieval under a watchdog.")
ASSUMPTIONS = ["one scene per batch, <= 2 detections, <= 2 stored tracks (scene, last epoch, length, ids symbolic), 1 shard, 1-2 voting threads, previous batch none / finished; option grids as in the simple predict step (C01 / C02)",
               "threads at command granularity: voting threads and store workers run when the caller blocks; a thread polling its own empty queue parks; channels are unbounded FIFO queues",
               "candidate ids random 64-bit values assumed distinct from all ids in use; fresh Kalman filter round trip exact; kuhn_munkres by contract; HashMap iteration in insertion order"]
OUTSIDE = ["batches with several scenes from an arbitrary state (only from a fresh tracker in engine M; the native replay sweeps them, a sweep is not a verdict)", "preemption inside a command, OS scheduling, more than 2 voting threads",
           "back-pressure of the bounded(1) result channel and therefore deadlock freedom of the real protocol when results are not retrieved; Drop / shutdown",
           "BatchVisualSort beyond 1 detection x 1 stored track", "whole histories (inductive step and the first batch of a fresh tracker only)"]
