from kani_engine import KH

EXPLANATION = ("Bounded solver-based checking (Kani/CBMC) of the real SpatioTemporalConstraints table code against an "
               "independent reference ('limit of the smallest configured gap >= d, first configured wins, none => admit'); "
               "entries, probe gap and probe distance symbolic.")
ASSUMPTIONS = ["table lengths concrete per harness (1,2,3 entries; 1+1 and 1+2 over two calls): sort_by on a symbolic-length Vec does not terminate in CBMC",
               "gaps 0..8, limits in [0.001,1000], probe gap 0..9, probe distance in [0,2000]"]
OUTSIDE = ["tables with more than 3 entries", "whole tracker runs with/without constraints (use of validate by compatible(): engine M)"]
KANI_MODULES = ["c20_constraints"]
S = "similari::trackers::spatio_temporal_constraints::SpatioTemporalConstraints::"
FN = [S + "add_constraints", S + "validate"]
KANI = [
    KH("c20_constraints::c20_empty_table", "quick", 900, "empty table admits every (gap, distance)", "all usize gaps, all f32 >= 0", [S + "validate"]),
    KH("c20_constraints::c20_table_one_call_1", "quick", 900, "validate = reference; monotone in distance", "1 symbolic entry", FN),
    KH("c20_constraints::c20_table_one_call_2", "quick", 900, "validate = reference; monotone in distance", "2 symbolic entries (order and duplicates free)", FN),
    KH("c20_constraints::c20_table_one_call_3", "quick", 900, "validate = reference; monotone in distance", "3 symbolic entries (order and duplicates free)", FN),
    KH("c20_constraints::c20_table_two_calls_1_1", "quick", 900, "two add_constraints calls: first configured limit of a gap wins", "1+1 symbolic entries", FN),
    KH("c20_constraints::c20_table_two_calls_1_2", "quick", 900, "two add_constraints calls: first configured limit of a gap wins", "1+2 symbolic entries", FN),
]

# ===================================================================== engine M: how compatible() uses the table
import struct
import z3
from mir_engine import MQ
from mirlib import *
import C03 as _c03

EXPLANATION += (" Engine M (bounded symbolic execution of the MIR with z3): compatible() of SortAttributes and VisualAttributes "
                "with symbolic scene ids, epochs, idle limit and a symbolic constraint table equals 'same scene and gap <= "
                "max idle and validate(gap, dist_in_2r(LAST predicted boxes))', hence (a) a pair farther than the limit for its "
                "gap is never compatible (never compared, let alone attached) and (b) when the table admits the pair the "
                "result is exactly that of the empty table; dist_in_2r is the centre distance over sqrt((r1+r2)^2+EPS), "
                "bit-equal to an independently written term over free floats.")
ASSUMPTIONS += ["M: constraint tables with <= 2 entries in the representation add_constraints produces (strictly increasing gaps; built by engine K's part), limits free f32 in [0.001, 1000]",
                "M: predicted-box histories of 1..3 boxes per track; inside compatible() dist_in_2r is replaced by one arbitrary f32 (0 or in [0.0005,1e4]) per PAIR of stored predicted boxes (its formula is a separate obligation)",
                "M: epochs and max idle < 2^62"]


def _mk_compat_constrained(kind, nboxes_a, nboxes_b, ncons):
    ty = 'SortAttributes' if kind == 'sort' else 'VisualAttributes'
    mkattrs = _c03.sort_attrs if kind == 'sort' else _c03.visual_attrs

    def q(vm, P):
        fn, info = P.impl_methods[(ty, 'TrackAttributes', 'compatible')][0]
        ents = sym_epoch_entries(vm, 1)
        mi = vm.fresh(64, 'max_idle')
        vm.assume(z3.ULT(mi.e, U62))
        cons = []
        for i in range(ncons):
            g = vm.fresh(64, 'gap%d' % i)
            lim = vm.fresh('f32', 'limit%d' % i)
            vm.assume(fp_in(lim, 0.001, 1000.0))   # same range as the table harnesses (engine K)
            if cons:
                vm.assume(z3.UGT(g.e, cons[-1][0].e))   # representation invariant of the table: sorted, no duplicate gaps
            cons.append((g, lim))
        opts = Cell(sort_options(P, vm, ents, mi, constraints=cons), 'opts')
        scene_a, scene_b = vm.fresh(64, 'scene_a'), vm.fresh(64, 'scene_b')
        last_a, last_b = vm.fresh(64, 'last_a'), vm.fresh(64, 'last_b')
        vm.assume(z3.And(z3.ULT(last_a.e, U62), z3.ULT(last_b.e, U62)))
        a = Cell(mkattrs(P, vm, Ref(opts), scene_a, last_a, boxes=nboxes_a, tag=1), 'a')
        b = Cell(mkattrs(P, vm, Ref(opts), scene_b, last_b, boxes=nboxes_b, tag=2), 'b')
        calls = []
        dsym = {}
        pb_idx = P.decls.field_index(ty, 'predicted_boxes')

        def box_index(ref, cell):
            if isinstance(ref, Ref) and ref.cell is cell and len(ref.path) == 2 and ref.path[0] == pb_idx:
                return ref.path[1][1]
            return None

        def pair_dist(i, j):
            # one arbitrary non-negative distance per pair of stored predicted boxes (functional in the pair)
            if (i, j) not in dsym:
                d = vm.fresh('f32', 'dist_a%d_b%d' % (i, j))
                vm.assume(z3.Or(d == f32(0.0), fp_in(d, 0.0005, 1.0e4)))   # 0 or a distance the f32 formula resolves
                dsym[(i, j)] = d
            return dsym[(i, j)]

        def dist(vm_, cal, args):
            i, j = box_index(args[0], a), box_index(args[1], b)
            if i is None or j is None:
                i, j = box_index(args[1], a), box_index(args[0], b)
            vm_.check(BOOL(i is not None and j is not None), "the distance is measured between stored predicted boxes of the two tracks")
            calls.append((i, j))
            return pair_dist(i, j)
        vm.spec_calls[('Universal2DBox', None, 'dist_in_2r')] = dist
        r = vm.exec_fn(fn, [Ref(a), Ref(b)], {})
        gap = z3.If(z3.UGE(last_a.e, last_b.e), last_a.e - last_b.e, last_b.e - last_a.e)
        same = scene_a.e == scene_b.e
        vm.notes.update(dist_calls=list(calls))
        if not calls:
            # the distance is only needed when the scenes agree
            vm.check(z3.Not(same), "compatible() must look at the distance whenever the scenes agree")
            vm.check(z3.Not(r), "different scenes are never compatible")
            return
        d = pair_dist(nboxes_a - 1, nboxes_b - 1)   # the property speaks about the LAST predicted boxes
        # reference: limit of the smallest configured gap >= the epoch gap (table sorted by gap), none => admit
        admit = z3.BoolVal(True)
        for g, lim in reversed(cons):
            admit = z3.If(z3.UGE(g.e, gap), z3.fpLEQ(d, lim), admit)
        vm.check(r == z3.And(same, z3.ULE(gap, mi.e), admit), "compatible = same scene and gap <= max idle and validate(gap, distance of the last predicted boxes)")
        vm.check(z3.Implies(admit, r == z3.And(same, z3.ULE(gap, mi.e))), "constraints that the pair does not violate change nothing")
        for k, (g, lim) in enumerate(cons):
            first_applicable = z3.And(z3.UGE(g.e, gap), *[z3.ULT(g2.e, gap) for g2, _ in cons[:k]])
            vm.check(z3.Implies(z3.And(first_applicable, z3.fpGT(d, lim)), z3.Not(r)), "a pair farther than the limit for its gap is never compatible")
    return q


def q_dist_in_2r(vm, P):
    fn = P.impl_methods[('Universal2DBox', None, 'dist_in_2r')][0][0]
    a, b = sym_box(vm, 'a', 1.0e4), sym_box(vm, 'b', 1.0e4)
    r = vm.exec_fn(fn, [Ref(Cell(a, 'a')), Ref(Cell(b, 'b'))], {})

    def radius(bx):
        asp, h = fld(P, bx, 'Universal2DBox', 'aspect'), fld(P, bx, 'Universal2DBox', 'height')
        hw = f_div(f_mul(asp, h), f32(2.0))
        hh = f_div(h, f32(2.0))
        return z3.fpSqrt(RNE, f_add(f_mul(hw, hw), f_mul(hh, hh)))
    rd = f_add(radius(a), radius(b))
    x = f_sub(fld(P, a, 'Universal2DBox', 'xc'), fld(P, b, 'Universal2DBox', 'xc'))
    y = f_sub(fld(P, a, 'Universal2DBox', 'yc'), fld(P, b, 'Universal2DBox', 'yc'))
    eps = vm.const_value('EPS', {})
    ref = f_div(z3.fpSqrt(RNE, f_add(f_mul(x, x), f_mul(y, y))), z3.fpSqrt(RNE, f_add(f_mul(rd, rd), eps)))
    vm.check(z3.fpToIEEEBV(fp_plain(r)) == z3.fpToIEEEBV(ref), "dist_in_2r = centre distance / sqrt((r1+r2)^2 + EPS), bit-exact")


COMPAT_REPLAY = r'''
use similari::track::TrackAttributes;
use similari::trackers::sort::{SortAttributes, SortAttributesOptions};
use similari::trackers::spatio_temporal_constraints::SpatioTemporalConstraints;
use similari::trackers::visual_sort::track_attributes::VisualAttributes;
use similari::utils::bbox::Universal2DBox;
use std::collections::VecDeque;
use std::sync::Arc;

/// reference: limit of the smallest configured gap >= the epoch gap (first configured wins), none => admit
fn reference(table: &[(usize, f32)], gap: usize, d: f32) -> bool {
    let mut best: Option<(usize, f32)> = None;
    for (g, l) in table {
        if *g >= gap && best.map(|b| *g < b.0).unwrap_or(true) { best = Some((*g, *l)); }
    }
    best.map(|b| d <= b.1).unwrap_or(true)
}

fn boxes(xs: &[f32]) -> VecDeque<Universal2DBox> {
    // radius of each box = 1 (height sqrt 2, aspect 1): dist_in_2r ~ centre distance / 2
    let h = 2.0f32.sqrt();
    xs.iter().map(|x| Universal2DBox::new(*x, 0.0, None, 1.0, h)).collect()
}

#[test]
fn replay() {
    let table: Vec<(usize, f32)> = vec![%(table)s];
    let max_idle: usize = %(max_idle)d;
    let opts = Arc::new(SortAttributesOptions::new(None, max_idle, 0, SpatioTemporalConstraints::default().constraints(&table), 0.05, 0.00625));
    let (scene_a, scene_b, last_a, last_b): (u64, u64, usize, usize) = (%(scene_a)d, %(scene_b)d, %(last_a)d, %(last_b)d);
    let gap = if last_a > last_b { last_a - last_b } else { last_b - last_a };
    // box positions realising the pairwise distances of the counterexample
    let (ba, bb) = (boxes(&[%(xa)s]), boxes(&[%(xb)s]));
    let real_d = Universal2DBox::dist_in_2r(ba.back().unwrap(), bb.back().unwrap());
    let expect = scene_a == scene_b && gap <= max_idle && reference(&table, gap, real_d);
    let mut a = %(ty)s::new(opts.clone());
    a.scene_id = scene_a; a.last_updated_epoch = last_a; a.predicted_boxes = ba.clone(); a.observed_boxes = ba;
    let mut b = %(ty)s::new(opts.clone());
    b.scene_id = scene_b; b.last_updated_epoch = last_b; b.predicted_boxes = bb.clone(); b.observed_boxes = bb;
    assert_eq!(a.compatible(&b), expect, "compatible() vs reference: gap {} distance of the last boxes {}", gap, real_d);
    assert_eq!(b.compatible(&a), expect, "compatible() (swapped) vs reference: gap {} distance {}", gap, real_d);
}
'''


def _replay_compat(kind, na, nb, ncons):
    def render(cex, v, vm):
        table = ", ".join("(%dusize, %s)" % (cex_get(cex, 'gap%d' % i), rust_f32(cex_get(cex, 'limit%d' % i))) for i in range(ncons))

        def dval(i, j):
            try:
                return struct.unpack('<f', struct.pack('<I', cex_get(cex, 'dist_a%d_b%d' % (i, j))['bits']))[0]
            except KeyError:
                return 1.0
        la, lb = na - 1, nb - 1
        calls = vm.notes.get('dist_calls') or [(la, lb)]
        i, j = calls[0]
        xa, xb = [5.0e5] * na, [-5.0e5] * nb
        xa[i], xb[j] = 0.0, 2.0 * dval(i, j)
        if (i, j) != (la, lb):
            if la == i:
                xb[lb] = 2.0 * dval(la, lb)
            elif lb == j:
                xa[la] = xb[j] - 2.0 * dval(la, lb)
            else:
                xa[la], xb[lb] = 1.0e5, 1.0e5 + 2.0 * dval(la, lb)
        return COMPAT_REPLAY % dict(table=table, max_idle=cex_get(cex, 'max_idle'), scene_a=cex_get(cex, 'scene_a'), scene_b=cex_get(cex, 'scene_b'),
                                    last_a=cex_get(cex, 'last_a'), last_b=cex_get(cex, 'last_b'),
                                    xa=", ".join("%rf32" % x for x in xa), xb=", ".join("%rf32" % x for x in xb),
                                    ty='SortAttributes' if kind == 'sort' else 'VisualAttributes')
    return render


def _replay_dist(cex, v, vm):
    def g(n):
        return rust_f32(cex_get(cex, n))
    return '''
use similari::utils::bbox::Universal2DBox;
use similari::EPS;
#[test]
fn replay() {
    let a = Universal2DBox::new_with_confidence(%s, %s, None, %s, %s, %s);
    let b = Universal2DBox::new_with_confidence(%s, %s, None, %s, %s, %s);
    let radius = |x: &Universal2DBox| { let hw = x.aspect * x.height / 2.0; let hh = x.height / 2.0; (hw * hw + hh * hh).sqrt() };
    let rd = radius(&a) + radius(&b);
    let (x, y) = (a.xc - b.xc, a.yc - b.yc);
    let expect = (x * x + y * y).sqrt() / (rd * rd + EPS).sqrt();
    assert_eq!(Universal2DBox::dist_in_2r(&a, &b).to_bits(), expect.to_bits());
}
''' % (g('a_xc'), g('a_yc'), g('a_aspect'), g('a_height'), g('a_conf'), g('b_xc'), g('b_yc'), g('b_aspect'), g('b_height'), g('b_conf'))


C = "similari::trackers::sort::SortAttributes::compatible"
CV = "similari::trackers::visual_sort::track_attributes::VisualAttributes::compatible"
MIR = []
for kind, fnname in (('sort', C), ('visual', CV)):
    for (na, nb, nc, tier) in [(1, 1, 1, 'quick'), (2, 3, 2, 'quick'), (3, 2, 0, 'quick')]:
        MIR.append(MQ("c20_compatible_%s_b%d%d_c%d" % (kind, na, nb, nc), tier, _mk_compat_constrained(kind, na, nb, nc),
                      "compatible() = same scene, gap <= max idle, validate(gap, dist(last boxes)); non-binding constraints change nothing; beyond the limit never compatible",
                      "%d/%d predicted boxes, %d constraint entries (symbolic gaps, limits), symbolic scenes/epochs/idle limit" % (na, nb, nc),
                      [fnname, "similari::trackers::spatio_temporal_constraints::SpatioTemporalConstraints::validate"],
                      replay=_replay_compat(kind, na, nb, nc)))
MIR.append(MQ("c20_dist_in_2r", "quick", q_dist_in_2r, "dist_in_2r formula (bit-exact term equality over free floats)",
              "all valid boxes with |centre| <= 1e4, sizes in [1e-3,1e4]",
              ["similari::utils::bbox::Universal2DBox::dist_in_2r", "similari::utils::bbox::Universal2DBox::get_radius"], replay=_replay_dist))
