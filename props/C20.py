from kani_engine import KH

EXPLANATION = ("Bounded solver-based checking (Kani/CBMC) of the real SpatioTemporalConstraints table code against an "
               "independent reference ('limit of the smallest configured gap >= d, first configured wins, none => admit'); "
               "entries, probe gap and probe distance symbolic.")
ASSUMPTIONS = ["table lengths concrete per harness (1,2,3 entries; 1+1 and 1+2 over two calls): sort_by on a symbolic-length Vec does not terminate in CBMC",
               "gaps 0..8, limits in [0.001,1000], probe gap 0..9, probe distance in [0,2000]"]
OUTSIDE = ["tables with more than 3 entries", "whole tracker runs with/without constraints (use of validate by compatible(): engine M)"]
KANI_MODULES = ["c20_constraints"]
S = "similari::trackers::spatio_temporal_constraints::SpatioTemporalConstraints::"
FN = [S + "add_constraints", S + "validate"]
KANI = [
    KH("c20_constraints::c20_empty_table", "quick", 120, "empty table admits every (gap, distance)", "all usize gaps, all f32 >= 0", [S + "validate"]),
    KH("c20_constraints::c20_table_one_call_1", "quick", 300, "validate = reference; monotone in distance", "1 symbolic entry", FN),
    KH("c20_constraints::c20_table_one_call_2", "quick", 300, "validate = reference; monotone in distance", "2 symbolic entries (order and duplicates free)", FN),
    KH("c20_constraints::c20_table_one_call_3", "quick", 400, "validate = reference; monotone in distance", "3 symbolic entries (order and duplicates free)", FN),
    KH("c20_constraints::c20_table_two_calls_1_1", "quick", 300, "two add_constraints calls: first configured limit of a gap wins", "1+1 symbolic entries", FN),
    KH("c20_constraints::c20_table_two_calls_1_2", "quick", 400, "two add_constraints calls: first configured limit of a gap wins", "1+2 symbolic entries", FN),
]
