"""Engine M driver: regenerate the MIR dump from the scratch copy of /repo, run mirsym queries (one process per
query), replay counterexamples natively."""
import os, sys, time, json, shutil, subprocess, traceback, concurrent.futures as cf
from common import VERIF, Result, log

sys.path.insert(0, os.path.join(VERIF, "mirsym"))


class MQ:
    """A registered mirsym query. `fn(vm, prog)` is a nondeterministic program over the VM: it builds symbolic inputs,
    executes real MIR functions and states the property with vm.check(). `replay(cex)` renders a native Rust test."""

    def __init__(self, name, tier, fn, claim, bounds, functions, replay=None, max_paths=20000, timeout=600,
                 opts=None, spec_calls=None, key=None, z3_timeout_ms=20000):
        self.name = name
        self.tier = tier
        self.fn = fn
        self.claim = claim
        self.bounds = bounds
        self.functions = functions
        self.replay = replay
        self.max_paths = max_paths
        self.timeout = timeout
        self.opts = opts or {}
        self.spec_calls = spec_calls
        self.key = key
        self.z3_timeout_ms = z3_timeout_ms


def _model_dict(vm, model):
    import z3
    out = {}
    for name, e in vm.inputs.items():
        try:
            v = model.eval(e, model_completion=True)
            if z3.is_bv_value(v):
                out[name] = v.as_long()
            elif z3.is_fp(v):
                out[name] = fp_to_py(v)
            elif z3.is_true(v):
                out[name] = True
            elif z3.is_false(v):
                out[name] = False
            else:
                out[name] = str(v)
        except Exception as ex:  # pragma: no cover
            out[name] = "?" + str(ex)
    return out


def fp_to_py(v):
    """z3 FP numeral -> dict(bits=<int>, repr=<str>)  (bit pattern keeps the replay exact)"""
    import z3
    s = z3.simplify(z3.fpToIEEEBV(v))
    return {"bits": s.as_long(), "width": s.size(), "repr": str(v)}


def _worker(mir_path, repo_dir, modname, qname, seed):
    sys.path.insert(0, os.path.join(VERIF, "props"))
    sys.path.insert(0, os.path.join(VERIF, "vlib"))
    import importlib
    import z3
    import engine, models
    from vm import Violation, Unmodelled, Budget, Panic
    z3.set_param("smt.random_seed", seed)
    z3.set_param("sat.random_seed", seed)
    mod = importlib.import_module(modname)
    q = [x for x in mod.MIR if x.name == qname][0]
    prog = engine.load(mir_path, repo_dir)
    models.M.opts.clear()
    models.M.opts.update({"map_order": "insertion"})
    models.M.opts.update(q.opts)
    vm = engine.new_vm(prog, spec_calls=q.spec_calls(prog) if callable(q.spec_calls) else q.spec_calls, timeout_ms=q.z3_timeout_ms)
    out = dict(name=qname, status="inconclusive", detail="", paths=0, completed=0, solver_s=0.0, queries=0,
               sample=None, cex=None, replay_src=None, key=None)
    t0 = time.time()
    samples = []

    class _SelfTestDone(Exception):
        pass

    def run(v):
        r = q.fn(v, prog)
        if os.environ.get("VERIF_REPLAY_SELFTEST") and q.replay is not None:
            # template validation: render the native replay from a model of the first completed path of the UNCHANGED
            # tree; the driver (mirsym/dev.py --selftest) requires it to PASS natively
            m = v.model()
            cex = {"inputs": _model_dict(v, m), "info": {}, "notes": {}, "log": [], "decisions": list(v.prefix)}
            out["selftest_src"] = q.replay(cex, None, v)
            raise _SelfTestDone()
        if not samples:
            try:
                m = v.model()
                samples.append({"inputs": _model_dict(v, m), "notes": {k: str(x) for k, x in v.notes.items()},
                                "log": [str(e)[:200] for e in v.log[:20]]})
            except Exception:
                pass
        return r
    try:
        completed = vm.explore(run, max_paths=q.max_paths, deadline=t0 + q.timeout)
        out["completed"] = completed
        if completed == 0:
            out["detail"] = "vacuous: no path reached the end of the query"
        else:
            out["status"] = "proved"
            out["detail"] = "all %d paths (%d completed, %d infeasible/assumed away) satisfy the oracle" % (
                vm.paths_done, completed, vm.paths_done - completed)
    except _SelfTestDone:
        out["status"] = "selftest"
    except Violation as v:
        out["status"] = "violated"
        out["detail"] = v.msg
        cex = {"inputs": _model_dict(vm, v.model), "info": {k: str(x) for k, x in (v.info or {}).items()},
               "notes": {k: str(x) for k, x in vm.notes.items()}, "log": [str(e)[:300] for e in vm.log[:40]],
               "decisions": list(vm.prefix)}
        out["cex"] = cex
        out["key"] = (v.info or {}).get("key") or q.key
        if q.replay is not None:
            try:
                out["replay_src"] = q.replay(cex, v, vm)
            except Exception:
                out["detail"] += " | replay rendering failed: " + traceback.format_exc()[-400:]
    except Unmodelled as u:
        out["detail"] = "INCONCLUSIVE (unmodelled): %s" % u
    except Budget as b:
        out["detail"] = "INCONCLUSIVE (budget): %s" % b
    except Panic as p:
        out["detail"] = "INCONCLUSIVE: uncaught panic path in query: %s" % p.msg
    except Exception:
        out["detail"] = "INCONCLUSIVE (engine error): " + traceback.format_exc()[-1500:]
    out["paths"] = vm.paths_done
    out["solver_s"] = vm.solver_time
    out["queries"] = vm.solver_calls
    out["wall_s"] = time.time() - t0
    out["sample"] = samples[0] if samples else None
    return out


REPLAY_TOML = """[package]
name = "similari-replay"
version = "0.0.0"
edition = "2021"
publish = false

[dependencies]
similari = { package = "similari-trackers-rs", path = "../repo", default-features = false }
anyhow = "1.0"
nalgebra = "0.32"
geo = "0.27"

[workspace]
"""


def native_replay(scratch, src):
    """-> number of profiles (dev, release) in which the replay test FAILS (= violation reproduces); None on build error"""
    if src.startswith("#!python"):
        return python_replay(scratch, src)
    d = os.path.join(scratch.dir, "replay")
    os.makedirs(os.path.join(d, "tests"), exist_ok=True)
    os.makedirs(os.path.join(d, "src"), exist_ok=True)
    with open(os.path.join(d, "Cargo.toml"), "w") as f:
        f.write(REPLAY_TOML)
    open(os.path.join(d, "src", "lib.rs"), "w").write("")
    shutil.copy(os.path.join(scratch.repo, "Cargo.lock"), os.path.join(d, "Cargo.lock"))
    with open(os.path.join(d, "tests", "replay.rs"), "w") as f:
        f.write(src)
    env = dict(os.environ)
    env["CARGO_NET_OFFLINE"] = "true"
    env.pop("RUSTFLAGS", None)
    fails = 0
    for prof in ([], ["--release"]):
        import signal
        pr = subprocess.Popen(["cargo", "test", "--offline", "--test", "replay"] + prof, cwd=d, env=env,
                              stdout=subprocess.PIPE, stderr=subprocess.STDOUT, text=True, start_new_session=True)
        try:
            out, _ = pr.communicate(timeout=2400)
        except subprocess.TimeoutExpired:
            log("  replay did not finish within 2400 s (a hang is not counted as a reproduction)")
            try:
                os.killpg(pr.pid, signal.SIGKILL)
            except Exception:
                pass
            pr.communicate()
            return None

        class _P:
            stdout = out
        p = _P
        if "test result: FAILED" in p.stdout or ("error: test failed" in p.stdout and "panicked at" in p.stdout):
            fails += 1      # a failed assertion, or the test process aborted on a panic (e.g. a panicking worker thread taking the process down)
        elif "test result: ok" not in p.stdout:
            log("  replay build problem: " + p.stdout[-1500:])
            return None
    return fails


def python_replay(scratch, src):
    """Replay through CPython: build the extension module (cdylib, default features) from the scratch copy of the tree,
    import it as `similari` and run the script. -> 1 if the script fails an assertion (violation reproduces), 0 if it
    passes, None if the module cannot be built / imported."""
    d = os.path.join(scratch.dir, "pyreplay")
    os.makedirs(d, exist_ok=True)
    env = dict(os.environ)
    env["CARGO_NET_OFFLINE"] = "true"
    env.pop("RUSTFLAGS", None)
    so = os.path.join(d, "similari.so")
    if not os.path.exists(so):
        tdir = os.path.join(scratch.dir, "pytarget")
        p = subprocess.run(["cargo", "build", "--offline", "--lib", "--target-dir", tdir], cwd=scratch.repo, env=env,
                           stdout=subprocess.PIPE, stderr=subprocess.STDOUT, text=True)
        lib = os.path.join(tdir, "debug", "libsimilari.so")
        if p.returncode != 0 or not os.path.exists(lib):
            log("  python replay: extension module did not build: " + p.stdout[-1500:])
            return None
        shutil.copy(lib, so)
        shutil.rmtree(tdir, ignore_errors=True)
    with open(os.path.join(d, "replay.py"), "w") as f:
        f.write(src)
    try:
        p = subprocess.run(["python3", "replay.py"], cwd=d, env=env, stdout=subprocess.PIPE, stderr=subprocess.STDOUT, text=True, timeout=900)
    except subprocess.TimeoutExpired:
        log("  python replay did not finish within 900 s (a hang is not counted as a reproduction)")
        return None
    if p.returncode == 0 and "REPLAY-OK" in p.stdout:
        return 0
    if "AssertionError" in p.stdout:
        log("  python replay: " + p.stdout.strip().splitlines()[-1][:300])
        return 1
    log("  python replay problem: " + p.stdout[-1500:])
    return None


def run_all(scratch, queries, pid, tier, seed, workers=12):
    import engine
    t = time.time()
    sys.path.insert(0, os.path.join(VERIF, "props"))
    import importlib
    feats = getattr(importlib.import_module(pid), "MIR_FEATURES", None)
    mir = os.path.join(scratch.dir, "similari%s.mir" % ("-" + feats if feats else ""))
    try:
        engine.dump_mir(scratch.repo, mir, os.path.join(scratch.dir, "mirtarget"), feats)
    except Exception as e:
        res = []
        for q in queries:
            r = Result(q.name, "mirsym", q.claim, q.bounds, q.functions)
            r.detail = "MIR dump failed: %s" % str(e)[-800:]
            res.append(r)
        return res
    log("[mirsym] MIR regenerated from the scratch copy in %.0fs" % (time.time() - t))
    results = []
    outs = {}
    with cf.ProcessPoolExecutor(max_workers=min(workers, max(1, len(queries)))) as ex:
        futs = {ex.submit(_worker, mir, scratch.repo, pid, q.name, seed): q for q in queries}
        for f in cf.as_completed(futs):
            q = futs[f]
            try:
                o = f.result()
            except Exception as e:
                o = dict(name=q.name, status="inconclusive", detail="worker crashed: %s" % e, paths=0, completed=0,
                         solver_s=0, queries=0, sample=None, cex=None, replay_src=None, wall_s=0, key=None)
            outs[q.name] = o
            log("[mirsym] %-42s %-12s paths=%-5d z3=%-5d %6.1fs  %s" % (q.name, o["status"], o["paths"], o["queries"],
                                                                    o.get("wall_s", 0), o["detail"][:140]))
    for q in queries:
        o = outs[q.name]
        r = Result(q.name, "mirsym", q.claim, q.bounds, q.functions)
        r.status = o["status"]
        r.detail = o["detail"]
        r.solver_s = o["solver_s"]
        r.wall_s = o.get("wall_s", 0)
        r.queries = o["queries"]
        r.sample = o["sample"]
        r.key = o.get("key")
        r.extra = dict(paths=o["paths"], paths_completed=o["completed"])
        if o["status"] == "violated":
            r.extra["counterexample"] = o["cex"]
            if not o["replay_src"]:
                r.status = "inconclusive"
                r.detail += " | no native replay available for this counterexample"
            else:
                n = native_replay(scratch, o["replay_src"])
                if n:
                    d = os.path.join(VERIF, "replays", pid)
                    os.makedirs(d, exist_ok=True)
                    path = os.path.join(d, q.name + ".replay.rs")
                    with open(path, "w") as f:
                        f.write("// engine=mirsym query=%s\n// native replay: ./check %s --replay %s\n" % (q.name, pid, path))
                        f.write(o["replay_src"])
                    r.replay = path
                    r.detail += " | reproduced natively in %d profile(s)" % n
                else:
                    r.status = "inconclusive"
                    r.detail += " | counterexample did NOT reproduce natively (model/encoding suspect)" if n == 0 else " | replay did not build"
            log("[mirsym] %-42s -> %s %s" % (q.name, r.status, r.replay or ""))
        results.append(r)
    return results


def replay_file(scratch, path):
    n = native_replay(scratch, open(path).read())
    if n is None:
        return None
    return n > 0
