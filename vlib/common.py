"""Shared plumbing: scratch copies, result records, evidence, known findings."""
import json, os, shutil, subprocess, sys, time, random

VERIF = os.path.dirname(os.path.dirname(os.path.abspath(__file__)))
REPO = os.environ.get("VERIF_REPO", "/repo")
GUARD = "similari_verif"


def log(*a):
    print(*a, flush=True)


class Result:
    """One obligation = one solver query family (a Kani harness or a mirsym query)."""

    def __init__(self, oid, engine, desc, bounds="", functions=None):
        self.oid = oid
        self.engine = engine
        self.desc = desc
        self.bounds = bounds
        self.functions = functions or []
        self.status = "inconclusive"  # proved | violated | inconclusive
        self.detail = ""
        self.solver_s = 0.0
        self.wall_s = 0.0
        self.queries = 0
        self.replay = None  # path of a natively confirmed replay
        self.sample = None
        self.key = None  # known-finding key for a violation
        self.extra = {}

    def to_json(self):
        d = dict(id=self.oid, engine=self.engine, claim=self.desc, bounds=self.bounds,
                 functions=self.functions, status=self.status, detail=self.detail[:2000],
                 solver_s=round(self.solver_s, 3), wall_s=round(self.wall_s, 3), queries=self.queries)
        if self.replay:
            d["replay"] = self.replay
        if self.sample is not None:
            d["sample"] = self.sample
        d.update(self.extra)
        return d


class Scratch:
    """Copy of /repo's current working tree (no target/, no .git) outside /repo and /verif."""

    def __init__(self):
        base = os.environ.get("VERIF_SCRATCH_BASE", "/var/tmp")
        self.dir = os.path.join(base, "verif-%d-%d" % (os.getpid(), int(time.time())))
        self.repo = os.path.join(self.dir, "repo")
        self.kani = os.path.join(self.dir, "kani")

    def __enter__(self):
        os.makedirs(self.dir)
        subprocess.check_call(["rsync", "-a", "--exclude", "/target", "--exclude", ".git",
                               "--exclude", "/python", "--exclude", "/assets", "--exclude", "/docker",
                               REPO + "/", self.repo + "/"])
        return self

    def __exit__(self, *a):
        if os.environ.get("VERIF_KEEP_SCRATCH"):
            log("scratch kept at", self.dir)
        else:
            shutil.rmtree(self.dir, ignore_errors=True)


def load_known():
    """known_findings.txt: lines `known: property=<id> key=<key> <text>` suppress exactly that key;
    `fixed: ...` lines suppress nothing."""
    known = {}
    p = os.path.join(VERIF, "known_findings.txt")
    if os.path.exists(p):
        for line in open(p):
            line = line.strip()
            if line.startswith("known:"):
                parts = line.split(None, 3)
                pid = parts[1].split("=", 1)[1]
                key = parts[2].split("=", 1)[1]
                known.setdefault(pid, {})[key] = parts[3] if len(parts) > 3 else ""
    return known


def write_evidence(pid, tier, seed, results, wall, assumptions, explanation, trusted, checker_cmd, extra=None):
    obligations = len(results)
    discharged = sum(1 for r in results if r.status == "proved")
    violations = sum(1 for r in results if r.status == "violated")
    samples = [r.to_json() for r in results]
    cov = dict(
        explanation=explanation,
        obligations=obligations,
        discharged=discharged,
        undecided=[r.oid for r in results if r.status == "inconclusive"],
        violated=[r.oid for r in results if r.status == "violated"],
        checker_cmd=checker_cmd,
        trusted_base=trusted,
        solver_s=round(sum(r.solver_s for r in results), 2),
        queries=sum(r.queries for r in results),
        functions_encoded=sorted({f for r in results for f in r.functions}),
        samples=samples,
        exhaustive=False,
    )
    if extra:
        cov.update(extra)
    ev = dict(property_id=pid, tier=tier, seed=seed, level="other", coverage=cov,
              assumptions=assumptions, wall_s=round(wall, 2), violations=violations)
    evdir = os.environ.get("VERIF_EVIDENCE_DIR") or os.path.join(VERIF, "evidence")  # seeded runs write elsewhere
    os.makedirs(evdir, exist_ok=True)
    with open(os.path.join(evdir, pid + ".json"), "w") as f:
        json.dump(ev, f, indent=1)
