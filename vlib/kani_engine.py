"""Engine K: Kani harnesses over the real crate (scratch copy of /repo's working tree)."""
import os, re, shutil, subprocess, time, concurrent.futures as cf
from common import VERIF, GUARD, Result, log

KANI_SRC = os.path.join(VERIF, "kani")
MEM_KB = int(os.environ.get("VERIF_KANI_MEM_KB", str(14 * 1024 * 1024)))


class KH:
    """A registered Kani harness."""

    def __init__(self, name, tier, timeout, claim, bounds, functions, unwind=None, args=""):
        self.name = name          # module::function
        self.tier = tier          # 'quick' => both tiers; 'thorough' => thorough only
        self.timeout = timeout
        self.claim = claim
        self.bounds = bounds
        self.functions = functions
        self.args = args          # extra cargo-kani arguments (e.g. "-Z stubbing"); part of the claim, listed in the evidence


def _env():
    e = dict(os.environ)
    e["RUSTFLAGS"] = "--cfg " + GUARD
    e["CARGO_NET_OFFLINE"] = "true"
    e.pop("CARGO_TARGET_DIR", None)
    return e


def prepare(scratch):
    """copy the harness crate next to the scratch repo and compile everything once."""
    shutil.copytree(KANI_SRC, scratch.kani, ignore=shutil.ignore_patterns("target"))
    shutil.copy(os.path.join(scratch.repo, "Cargo.lock"), os.path.join(scratch.kani, "Cargo.lock"))
    t = time.time()
    p = subprocess.run(["cargo", "kani", "-Z", "stubbing", "--only-codegen"], cwd=scratch.kani, env=_env(),
                       stdout=subprocess.PIPE, stderr=subprocess.STDOUT, text=True)
    if p.returncode != 0:
        errs = [l for l in p.stdout.splitlines() if l.startswith("error")]
        return False, "kani build failed: " + " | ".join(errs[:5]) + "\n" + p.stdout[-3000:]
    return True, "built in %.0fs" % (time.time() - t)


def _run(scratch, args, timeout):
    # -Z stubbing only allows the #[kani::stub] attributes of the C16 harnesses to compile; stubs apply to the
    # harnesses that carry them and are listed in the evidence of those harnesses
    cmd = "ulimit -v %d; exec timeout -k 5 %d cargo kani -Z stubbing %s" % (MEM_KB, timeout, args)
    t = time.time()
    p = subprocess.run(["bash", "-c", cmd], cwd=scratch.kani, env=_env(),
                       stdout=subprocess.PIPE, stderr=subprocess.STDOUT, text=True)
    return p.returncode, p.stdout, time.time() - t


def _parse(out):
    failed = re.findall(r'^Failed Checks: (.*)$', out, re.M)
    ver = re.search(r'^VERIFICATION:- (\w+)', out, re.M)
    vt = re.search(r'^Verification Time: ([0-9.]+)s', out, re.M)
    cov = re.search(r'\*\* (\d+) of (\d+) cover properties satisfied', out)
    return failed, (ver.group(1) if ver else None), (float(vt.group(1)) if vt else 0.0), cov


def run_harness(scratch, h):
    r = Result(h.name, "kani", h.claim, h.bounds, h.functions)
    rc, out, wall = _run(scratch, "--exact --harness %s %s" % (h.name, h.args), h.timeout)
    stubs = re.findall(r'- Stub: (.*)', out)
    if stubs:
        r.extra["stubs"] = stubs
    r.wall_s = wall
    r.queries = 1
    failed, ver, vt, cov = _parse(out)
    r.solver_s = vt
    if rc == 124 or rc == 137:
        r.detail = "timeout after %ds" % h.timeout
        return r, out
    if ver == "SUCCESSFUL":
        if cov and cov.group(1) == cov.group(2) and int(cov.group(2)) >= 1:
            r.status = "proved"
            r.detail = "VERIFICATION SUCCESSFUL, unwinding assertions passed, %s/%s cover (reachability witness) satisfied" % (cov.group(1), cov.group(2))
        else:
            r.detail = "vacuous: end-of-harness cover not satisfied"
        return r, out
    if ver == "FAILED":
        unw = [f for f in failed if "unwinding assertion" in f]
        real = [f for f in failed if "unwinding assertion" not in f]
        if "Status: ERROR" in out or "out of memory" in out.lower():
            r.detail = "solver error / out of memory"
        elif real and not unw:
            r.status = "violated"  # provisional; must be confirmed natively
            r.detail = "; ".join(real[:6])
        elif unw:
            r.detail = "unwinding bound too small: " + "; ".join(unw[:3])
        else:
            r.detail = "FAILED without failed checks: " + out[-500:]
        return r, out
    r.detail = "no verdict (rc=%s): %s" % (rc, out[-800:])
    return r, out


def extract_playback(out):
    tests = re.findall(r'```\n(.*?)```', out, re.S)
    names = [re.search(r'fn (kani_concrete_playback_\w+)', t).group(1) for t in tests]
    return tests, names


def confirm(scratch, h, r, modules, pid):
    """Replay Kani's counterexample natively (cargo kani playback = ordinary rustc build of the real crate)."""
    rc, out, _ = _run(scratch, "--exact --harness %s %s -Z concrete-playback --concrete-playback=print" % (h.name, h.args),
                      h.timeout)
    tests, names = extract_playback(out)
    if not tests:
        r.status = "inconclusive"
        r.detail += " | no concrete playback produced"
        return
    uses = "".join("#[allow(unused_imports)]\nuse crate::%s::*;\n" % m for m in modules)
    code = uses + "\n".join(tests)
    confirmed = run_playback(scratch, code, names)
    if confirmed:
        d = os.path.join(VERIF, "replays", pid)
        os.makedirs(d, exist_ok=True)
        path = os.path.join(d, h.name.replace("::", "__") + ".playback.rs")
        with open(path, "w") as f:
            f.write("// engine=kani harness=%s\n// native replay: ./check %s --replay %s\n" % (h.name, pid, path))
            f.write(code)
        r.replay = path
        r.detail += " | reproduced natively (dev%s): %s" % ("+release" if confirmed > 1 else "", ", ".join(names[:3]))
    else:
        r.status = "inconclusive"
        r.detail += " | counterexample did NOT reproduce natively (encoding suspect)"


def run_playback(scratch, code, names):
    with open(os.path.join(scratch.kani, "src", "playback.rs"), "w") as f:
        f.write(code)
    ok = 0
    # dev profile, then a release-like profile (opt-level 3, no debug assertions / overflow checks)
    rel = {"CARGO_PROFILE_DEV_OPT_LEVEL": "3", "CARGO_PROFILE_DEV_DEBUG_ASSERTIONS": "false",
           "CARGO_PROFILE_DEV_OVERFLOW_CHECKS": "false"}
    for prof in ({}, rel):
        cmd = ["cargo", "kani", "playback", "-Z", "concrete-playback", "-Z", "stubbing", "--", "kani_concrete_playback"]
        e = _env()
        e.update(prof)
        p = subprocess.run(cmd, cwd=scratch.kani, env=e, stdout=subprocess.PIPE, stderr=subprocess.STDOUT, text=True)
        if re.search(r'test result: FAILED', p.stdout):
            ok += 1
        elif not re.search(r'test result: ok', p.stdout):
            log("  playback build problem (%s): %s" % ("release-like" if prof else "dev", p.stdout[-600:]))
    return ok


def run_all(scratch, harnesses, pid, modules, workers=8):
    ok, msg = prepare(scratch)
    log("[kani] " + msg.splitlines()[0])
    results = []
    if not ok:
        for h in harnesses:
            r = Result(h.name, "kani", h.claim, h.bounds, h.functions)
            r.detail = msg
            results.append(r)
        return results
    with cf.ThreadPoolExecutor(max_workers=workers) as ex:
        futs = {ex.submit(run_harness, scratch, h): h for h in harnesses}
        done = []
        for f in cf.as_completed(futs):
            h = futs[f]
            r, out = f.result()
            log("[kani] %-45s %-12s %6.1fs  %s" % (h.name, r.status, r.wall_s, r.detail[:110]))
            done.append((h, r))
    for h, r in done:
        if r.status == "violated":
            confirm(scratch, h, r, modules, pid)
            log("[kani] %-45s -> %s %s" % (h.name, r.status, r.replay or ""))
        results.append(r)
    results.sort(key=lambda r: r.oid)
    return results


def replay_file(scratch, path):
    code = open(path).read()
    names = re.findall(r'fn (kani_concrete_playback_\w+)', code)
    ok, msg = prepare(scratch)
    if not ok:
        log(msg)
        return None
    return run_playback(scratch, code, names) > 0
