#!/usr/bin/env python3
"""Driver: ./check <Cxx> [--tier quick|thorough] [--replay <path>]

exit 0: every registered obligation decided 'proved' (violations listed in known_findings.txt print KNOWN-FINDING)
exit 1: a natively reproduced violation (prints `VIOLATION property=<id> replay=<path>`)
exit 2: something could not be decided (timeout, unmodelled callee, non-reproducing counterexample) - no VIOLATION line
"""
import argparse, importlib, os, random, sys, time
sys.path.insert(0, os.path.dirname(os.path.abspath(__file__)))
sys.path.insert(0, os.path.join(os.path.dirname(os.path.dirname(os.path.abspath(__file__))), "props"))
from common import *
import kani_engine


def main():
    ap = argparse.ArgumentParser()
    ap.add_argument("prop")
    ap.add_argument("--tier", default=os.environ.get("VERIF_TIER", "quick"), choices=["quick", "thorough"])
    ap.add_argument("--replay")
    ap.add_argument("--only", help="substring filter on obligation ids (debugging)")
    a = ap.parse_args()
    pid = a.prop
    seed = int(os.environ.get("VERIF_SEED", "0"))
    rnd = random.Random(seed)
    mod = importlib.import_module(pid)
    t0 = time.time()
    import shutil
    base = os.environ.get("VERIF_SCRATCH_BASE", "/var/tmp")
    free_gb = shutil.disk_usage(base).free / 2 ** 30
    if free_gb < 6:
        # a full disk makes builds and native replays fail in ways that look like verdicts: refuse to start instead
        log("INCONCLUSIVE: only %.1f GB free under %s (scratch copies, Kani / cargo build output need about 5 GB)" % (free_gb, base))
        sys.exit(2)

    if a.replay:
        with Scratch() as sc:
            if a.replay.endswith(".playback.rs"):
                res = kani_engine.replay_file(sc, a.replay)
            else:
                import mir_engine
                res = mir_engine.replay_file(sc, a.replay)
        if res is None:
            log("REPLAY inconclusive (build problem)")
            sys.exit(2)
        log("REPLAY %s: %s" % (a.replay, "violation reproduces" if res else "does not reproduce (passes)"))
        sys.exit(1 if res else 0)

    results = []
    with Scratch() as sc:
        deep = bool(os.environ.get("VERIF_DEEP"))   # tier "deep": development-only obligations that do not finish within the tier budgets
        kh = [h for h in getattr(mod, "KANI", []) if (a.tier == "thorough" and (h.tier != "deep" or deep)) or h.tier == "quick"]
        if a.only:
            kh = [h for h in kh if a.only in h.name]
        rnd.shuffle(kh)
        mq = [q for q in getattr(mod, "MIR", []) if (a.tier == "thorough" and (q.tier != "deep" or deep)) or q.tier == "quick"]
        if a.only:
            mq = [q for q in mq if a.only in q.name]
        if mq:
            import mir_engine
            results += mir_engine.run_all(sc, mq, pid, a.tier, seed)
        if kh:
            results += kani_engine.run_all(sc, kh, pid, getattr(mod, "KANI_MODULES", []))
    wall = time.time() - t0

    known = load_known().get(pid, {})
    viol = [r for r in results if r.status == "violated"]
    inconc = [r for r in results if r.status == "inconclusive"]
    new_viol = []
    for r in viol:
        key = r.key or r.oid
        if key in known:
            log("KNOWN-FINDING: property=%s %s (%s)" % (pid, key, known[key]))
        else:
            new_viol.append(r)
    engines = sorted({r.engine for r in results})
    trusted = []
    if "kani" in engines:
        trusted += ["Kani 0.68 MIR->GOTO translation", "CBMC 6.11 + CaDiCaL", "harness oracles in /verif/kani/src"]
    if "mirsym" in engines:
        trusted += ["rustc nightly MIR dump (-Zunpretty=mir)", "/verif/mirsym parser, VM and library models", "z3"]
    write_evidence(pid, a.tier, seed, results, wall,
                   getattr(mod, "ASSUMPTIONS", []), getattr(mod, "EXPLANATION", ""), trusted,
                   "./check %s --tier %s" % (pid, a.tier),
                   extra=dict(known_findings_suppressed=[r.key or r.oid for r in viol if (r.key or r.oid) in known],
                              outside_claim=getattr(mod, "OUTSIDE", [])))
    log("SUMMARY property=%s tier=%s obligations=%d proved=%d violated=%d inconclusive=%d wall=%.0fs" % (
        pid, a.tier, len(results), sum(r.status == "proved" for r in results), len(viol), len(inconc), wall))
    for r in new_viol:
        log("VIOLATION property=%s replay=%s" % (pid, r.replay))
    if new_viol:
        sys.exit(1)
    if inconc:
        for r in inconc:
            log("INCONCLUSIVE %s: %s" % (r.oid, r.detail[:300]))
        sys.exit(2)
    sys.exit(0)


if __name__ == "__main__":
    main()
