//! C16 — feature packing and distance functions (engine K).
//! Run with --no-overflow-checks: Kani's "simd_sub/simd_mul would overflow" check on f32 lanes is spurious
//! (floats do not overflow); all other default checks and the unwinding assertions stay on.
use crate::harness;
use crate::util::*;
use similari::distance::{cosine, euclidean};
use similari::track::utils::FromVec;
use similari::track::Feature;
use ultraviolet::f32x8;

use std::arch::x86_64::__m128;

// Kani 0.68 attaches an "arithmetic overflow" check to simd_add/sub/mul that is wrong for float lanes (it fails for
// every input and cuts the path). The three SSE intrinsics that `wide::f32x8` arithmetic bottoms out in are therefore
// replaced by stubs with exactly their documented lanewise IEEE semantics (-Z stubbing); everything above them
// (ultraviolet/wide wrappers, reduce_add shuffles, the loops in distance.rs) is the real code.
fn lanes(a: __m128) -> [f32; 4] {
    unsafe { std::mem::transmute(a) }
}
fn pack(a: [f32; 4]) -> __m128 {
    unsafe { std::mem::transmute(a) }
}
pub fn stub_sub_ps(a: __m128, b: __m128) -> __m128 {
    let (a, b) = (lanes(a), lanes(b));
    pack([a[0] - b[0], a[1] - b[1], a[2] - b[2], a[3] - b[3]])
}
pub fn stub_mul_ps(a: __m128, b: __m128) -> __m128 {
    let (a, b) = (lanes(a), lanes(b));
    pack([a[0] * b[0], a[1] * b[1], a[2] * b[2], a[3] * b[3]])
}
pub fn stub_add_ps(a: __m128, b: __m128) -> __m128 {
    let (a, b) = (lanes(a), lanes(b));
    pack([a[0] + b[0], a[1] + b[1], a[2] + b[2], a[3] + b[3]])
}

macro_rules! simd_harness {
    ($name:ident, unwind = $u:expr, $body:block) => {
        #[kani::proof]
        #[kani::unwind($u)]
        #[kani::stub(std::arch::x86_64::_mm_sub_ps, stub_sub_ps)]
        #[kani::stub(std::arch::x86_64::_mm_mul_ps, stub_mul_ps)]
        #[kani::stub(std::arch::x86_64::_mm_add_ps, stub_add_ps)]
        pub fn $name() {
            $body;
            kani::cover!(true, "reachable-end");
        }
    };
}

/// round trip for one concrete length N (all residues mod 8 and up to 3 blocks are covered by N = 0..=17):
/// values are free f32 *bit patterns* (NaNs included: compared by bits).
fn roundtrip<const N: usize>() {
    let bits: [u32; N] = kani::any();
    let mut v: Vec<f32> = Vec::with_capacity(N);
    let mut i = 0;
    while i < N {
        v.push(f32::from_bits(bits[i]));
        i += 1;
    }
    let f: Feature = Feature::from_vec(&v);
    let blocks = (N + 7) / 8;
    // length 0: the statement allows the empty result or one block of zeros ("padded to a multiple of eight")
    assert!(f.len() == blocks || (N == 0 && f.len() == 1), "packed length = ceil(len/8) blocks");
    let back: Vec<f32> = Vec::from_vec(&f);
    assert!(back.len() == f.len() * 8, "unpacked length = 8 * blocks");
    let mut j = 0;
    while j < back.len() {
        if j < N {
            assert!(back[j].to_bits() == bits[j], "value preserved at its position");
        } else {
            assert!(back[j].to_bits() == 0, "padding is +0.0");
        }
        j += 1;
    }
    // by-value variant delegates to the by-reference one
    let f2: Feature = Feature::from_vec(v);
    assert!(f2.len() == f.len());
}

macro_rules! rt {
    ($name:ident, $n:expr) => {
        harness!($name, unwind = 26, {
            roundtrip::<$n>();
        });
    };
}
rt!(c16_roundtrip_00, 0);
rt!(c16_roundtrip_01, 1);
rt!(c16_roundtrip_02, 2);
rt!(c16_roundtrip_03, 3);
rt!(c16_roundtrip_04, 4);
rt!(c16_roundtrip_05, 5);
rt!(c16_roundtrip_06, 6);
rt!(c16_roundtrip_07, 7);
rt!(c16_roundtrip_08, 8);
rt!(c16_roundtrip_09, 9);
rt!(c16_roundtrip_10, 10);
rt!(c16_roundtrip_11, 11);
rt!(c16_roundtrip_12, 12);
rt!(c16_roundtrip_13, 13);
rt!(c16_roundtrip_14, 14);
rt!(c16_roundtrip_15, 15);
rt!(c16_roundtrip_16, 16);
rt!(c16_roundtrip_17, 17);

/// a lane value from the exact integer grid [-lim, lim]
fn lane(lim: i8) -> f32 {
    let k: i8 = kani::any();
    kani::assume(k >= -lim && k <= lim);
    k as f32
}

/// block with the first `sym` lanes symbolic on the grid, the others concrete small integers
fn block(sym: usize, lim: i8, fill: f32) -> [f32; 8] {
    let mut a = [fill; 8];
    let mut i = 0;
    while i < sym {
        a[i] = lane(lim);
        i += 1;
    }
    a
}

fn sq_dist(a: &[f32; 8], b: &[f32; 8]) -> f32 {
    // exact on the grid (integers < 2^24): association order is irrelevant
    let mut s = 0.0f32;
    let mut i = 0;
    while i < 8 {
        let d = a[i] - b[i];
        s += d * d;
        i += 1;
    }
    s
}

fn dot(a: &[f32; 8], b: &[f32; 8]) -> f32 {
    let mut s = 0.0f32;
    let mut i = 0;
    while i < 8 {
        s += a[i] * b[i];
        i += 1;
    }
    s
}

// Euclidean, one block: equals sqrt of the exact sum of squared differences, symmetric, zero on identical vectors
simd_harness!(c16_euclid_1block, unwind = 10, {
    let a = block(3, 4, 1.0);
    let b = block(3, 4, -2.0);
    let fa: Feature = vec![f32x8::new(a)];
    let fb: Feature = vec![f32x8::new(b)];
    let d = euclidean(&fa, &fb);
    let s = sq_dist(&a, &b);
    assert!(d == s.sqrt(), "euclidean = sqrt(sum of squared differences)");
    assert!(d == euclidean(&fb, &fa), "euclidean symmetric");
    assert!(euclidean(&fa, &fa) == 0.0, "euclidean zero on identical vectors");
    assert!(d >= 0.0);
});

// Euclidean, two blocks against one/two blocks: common packed prefix
simd_harness!(c16_euclid_prefix, unwind = 10, {
    let a0 = block(2, 4, 1.0);
    let a1 = block(2, 4, 3.0);
    let b0 = block(2, 4, 0.0);
    let b1 = block(2, 4, -1.0);
    let fa: Feature = vec![f32x8::new(a0), f32x8::new(a1)];
    let fb1: Feature = vec![f32x8::new(b0)];
    let fb2: Feature = vec![f32x8::new(b0), f32x8::new(b1)];
    assert!(euclidean(&fa, &fb1) == sq_dist(&a0, &b0).sqrt(), "length mismatch: distance over the common prefix");
    assert!(euclidean(&fb1, &fa) == sq_dist(&a0, &b0).sqrt(), "length mismatch (other order)");
    assert!(euclidean(&fa, &fb2) == (sq_dist(&a0, &b0) + sq_dist(&a1, &b1)).sqrt(), "two blocks: sum over both blocks");
});

// cosine, one block: equals dot / sqrt(|a|^2 |b|^2), symmetric, in [-1,1]
fn cosine_1block(sym: usize) {
    let a = block(sym, 4, 1.0);
    let b = block(sym, 4, 2.0);
    let fa: Feature = vec![f32x8::new(a)];
    let fb: Feature = vec![f32x8::new(b)];
    let c = cosine(&fa, &fb);
    let expect = dot(&a, &b) / (dot(&a, &a) * dot(&b, &b)).sqrt();
    assert!(c == expect, "cosine = dot / sqrt(|a|^2 |b|^2)");
    assert!(c == cosine(&fb, &fa), "cosine symmetric");
    assert!(c >= -1.0 && c <= 1.0, "cosine in [-1,1]");
}
simd_harness!(c16_cosine_1block_small, unwind = 10, {
    cosine_1block(2);
});
simd_harness!(c16_cosine_1block, unwind = 10, {
    cosine_1block(3);
});

// cosine of v against k*v (k > 0) is exactly 1, against -k*v exactly -1 (exact grid: sqrt of a perfect square)
simd_harness!(c16_cosine_parallel, unwind = 10, {
    let a = block(3, 3, 1.0);
    let k: i8 = kani::any();
    kani::assume(k >= 1 && k <= 4);
    let kf = k as f32;
    let mut p = [0.0f32; 8];
    let mut n = [0.0f32; 8];
    let mut i = 0;
    while i < 8 {
        p[i] = a[i] * kf;
        n[i] = -a[i] * kf;
        i += 1;
    }
    let fa: Feature = vec![f32x8::new(a)];
    assert!(cosine(&fa, &vec![f32x8::new(p)]) == 1.0, "parallel vectors: cosine 1 (scale invariance)");
    assert!(cosine(&fa, &vec![f32x8::new(n)]) == -1.0, "opposite vectors: cosine -1");
});

// cosine, length mismatch: common packed prefix in numerator and both norms
simd_harness!(c16_cosine_prefix, unwind = 10, {
    let a0 = block(1, 4, 1.0);
    let a1 = block(1, 4, 3.0);
    let b0 = block(1, 4, 2.0);
    let fa: Feature = vec![f32x8::new(a0), f32x8::new(a1)];
    let fb: Feature = vec![f32x8::new(b0)];
    let expect = dot(&a0, &b0) / (dot(&a0, &a0) * dot(&b0, &b0)).sqrt();
    assert!(cosine(&fa, &fb) == expect, "length mismatch: cosine over the common prefix");
    assert!(cosine(&fb, &fa) == expect, "length mismatch (other order)");
});

// triangle inequality on the grid (two symbolic lanes per vector), slack of a few ulps for the three roundings
simd_harness!(c16_euclid_triangle, unwind = 10, {
    let a = block(2, 4, 0.0);
    let b = block(2, 4, 0.0);
    let c = block(2, 4, 0.0);
    let fa: Feature = vec![f32x8::new(a)];
    let fb: Feature = vec![f32x8::new(b)];
    let fc: Feature = vec![f32x8::new(c)];
    let ab = euclidean(&fa, &fb);
    let bc = euclidean(&fb, &fc);
    let ac = euclidean(&fa, &fc);
    assert!(ac <= (ab + bc) * (1.0 + 4.0 * f32::EPSILON), "triangle inequality");
});

// Euclidean over three packed blocks (an odd block count > 1): every block contributes exactly once
simd_harness!(c16_euclid_3blocks, unwind = 10, {
    let a0 = block(1, 4, 1.0);
    let a1 = block(1, 4, 0.0);
    let a2 = block(1, 4, 2.0);
    let b0 = block(1, 4, 0.0);
    let b1 = block(1, 4, 3.0);
    let b2 = block(1, 4, -1.0);
    let fa: Feature = vec![f32x8::new(a0), f32x8::new(a1), f32x8::new(a2)];
    let fb: Feature = vec![f32x8::new(b0), f32x8::new(b1), f32x8::new(b2)];
    let want = (sq_dist(&a0, &b0) + sq_dist(&a1, &b1) + sq_dist(&a2, &b2)).sqrt();
    assert!(euclidean(&fa, &fb) == want, "three blocks: every block counted exactly once");
    assert!(euclidean(&fb, &fa) == want, "symmetric");
});

// cosine of small-magnitude vectors (all lanes scaled by 2^-10, still exact): parallel = 1, opposite = -1, scale invariant
simd_harness!(c16_cosine_small_magnitude, unwind = 10, {
    let base = block(2, 3, 1.0);
    let k: i8 = kani::any();
    kani::assume(k >= 1 && k <= 3);
    let s = 1.0f32 / 1024.0;
    let mut a = [0.0f32; 8];
    let mut p = [0.0f32; 8];
    let mut n = [0.0f32; 8];
    let mut i = 0;
    while i < 8 {
        a[i] = base[i] * s;
        p[i] = base[i] * s * (k as f32);
        n[i] = -base[i] * s;
        i += 1;
    }
    let fa: Feature = vec![f32x8::new(a)];
    assert!(cosine(&fa, &vec![f32x8::new(p)]) == 1.0, "small parallel vectors: cosine 1");
    assert!(cosine(&fa, &vec![f32x8::new(n)]) == -1.0, "small opposite vectors: cosine -1");
    assert!(cosine(&fa, &vec![f32x8::new(base)]) == 1.0, "invariant under positive scaling by 2^10");
});
