use similari::utils::bbox::{BoundingBox, Universal2DBox};

/// A harness: body + end-of-body `kani::cover!` (reachability witness; the driver requires it SATISFIED).
#[macro_export]
macro_rules! harness {
    ($name:ident, unwind = $u:expr, $body:block) => {
        #[kani::proof]
        #[kani::unwind($u)]
        pub fn $name() {
            $body;
            kani::cover!(true, "reachable-end");
        }
    };
}

pub fn any_f32_in(lo: f32, hi: f32) -> f32 {
    let x: f32 = kani::any();
    kani::assume(x >= lo && x <= hi);
    x
}

pub fn any_finite_f32() -> f32 {
    let x: f32 = kani::any();
    kani::assume(x.is_finite());
    x
}

/// k / 2^shift for an arbitrary integer k in [lo, hi]  (exact in f32)
pub fn any_grid(lo: i32, hi: i32, shift: u32) -> f32 {
    let k: i32 = kani::any();
    kani::assume(k >= lo && k <= hi);
    (k as f32) / ((1u32 << shift) as f32)
}

pub fn any_bbox(lim: f32) -> BoundingBox {
    BoundingBox {
        left: any_f32_in(-lim, lim),
        top: any_f32_in(-lim, lim),
        width: any_f32_in(-lim, lim),
        height: any_f32_in(-lim, lim),
        confidence: any_f32_in(0.0, 1.0),
    }
}

pub fn any_angle(lim: f32) -> Option<f32> {
    if kani::any() {
        Some(any_f32_in(-lim, lim))
    } else {
        None
    }
}

pub fn any_ubox(lim: f32) -> Universal2DBox {
    Universal2DBox::new_with_confidence(
        any_f32_in(-lim, lim),
        any_f32_in(-lim, lim),
        any_angle(lim),
        any_f32_in(-lim, lim),
        any_f32_in(-lim, lim),
        any_f32_in(0.0, 1.0),
    )
}
