//! Kani harnesses (engine K) over the real `similari` crate.
//! Every harness ends in `kani::cover!(true, "reachable-end")`; the driver requires it SATISFIED
//! (reachability / non-vacuity witness).
#![allow(clippy::all)]
#![allow(dead_code)]

#[cfg(kani)]
mod util;
#[cfg(kani)]
mod c19_bbox;
#[cfg(kani)]
mod c20_constraints;
#[cfg(kani)]
mod c07_kalman;
#[cfg(kani)]
mod c16_features;
#[cfg(kani)]
mod c08_geometry;
#[cfg(all(kani, test))]
mod playback;
