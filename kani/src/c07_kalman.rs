//! C07 — Kalman filters (engine K): cost conversions, stationary prediction, vector filter independence,
//! state -> box conversion.
use crate::harness;
use crate::util::*;
use nalgebra::Point2;
use similari::utils::bbox::Universal2DBox;
use similari::utils::kalman::kalman_2d_box::Universal2DBoxKalmanFilter;
use similari::utils::kalman::kalman_2d_point::Point2DKalmanFilter;
use similari::utils::kalman::kalman_2d_point_vec::Vec2DKalmanFilter;
use similari::utils::kalman::{KalmanState, CHI2INV95, CHI2_UPPER_BOUND};

fn cost_oracle(d: f32, gate: f32) -> (f32, f32) {
    let direct = if d > gate { CHI2_UPPER_BOUND } else { d };
    (direct, CHI2_UPPER_BOUND - direct)
}

// box filter: 5 degrees of freedom -> CHI2INV95[4]
harness!(c07_box_cost, unwind = 2, {
    let d: f32 = kani::any();
    kani::assume(d >= 0.0);
    let (direct, inv) = cost_oracle(d, CHI2INV95[4]);
    assert!(Universal2DBoxKalmanFilter::calculate_cost(d, false) == direct, "box direct cost gates at chi2inv95(5)");
    assert!(Universal2DBoxKalmanFilter::calculate_cost(d, true) == inv, "box inverted cost = upper bound - direct cost");
});

// point filter: 2 degrees of freedom -> CHI2INV95[1]
harness!(c07_point_cost, unwind = 2, {
    let d: f32 = kani::any();
    kani::assume(d >= 0.0);
    let (direct, inv) = cost_oracle(d, CHI2INV95[1]);
    assert!(Point2DKalmanFilter::calculate_cost(d, false) == direct, "point direct cost gates at chi2inv95(2)");
    assert!(Point2DKalmanFilter::calculate_cost(d, true) == inv, "point inverted cost = upper bound - direct cost");
});

// vector version = pointwise map of the point version, lengths 0..=3
harness!(c07_vec_cost, unwind = 5, {
    let n: usize = kani::any();
    kani::assume(n <= 3);
    let ds: [f32; 3] = kani::any();
    kani::assume(ds[0] >= 0.0 && ds[1] >= 0.0 && ds[2] >= 0.0);
    let inverted: bool = kani::any();
    let out = Vec2DKalmanFilter::calculate_cost(&ds[..n], inverted);
    assert!(out.len() == n);
    let mut i = 0;
    while i < n {
        let (direct, inv) = cost_oracle(ds[i], CHI2INV95[1]);
        assert!(out[i] == if inverted { inv } else { direct }, "vector cost is the pointwise point cost");
        i += 1;
    }
});

// a stationary point keeps being predicted where it is (bit-exact), velocity stays 0
harness!(c07_point_stationary, unwind = 18, {
    let x = any_f32_in(-10000.0, 10000.0);
    let y = any_f32_in(-10000.0, 10000.0);
    let f = Point2DKalmanFilter::default();
    let s0 = f.initiate(&Point2::new(x, y));
    let s1 = f.predict(&s0);
    let (m, _) = s1.verif_raw();
    assert!(m[0] == x && m[1] == y, "stationary point predicted in place");
    assert!(m[2] == 0.0 && m[3] == 0.0, "velocity stays zero");
    let p = Point2::from(s1);
    assert!(p.x == x && p.y == y);
});

// the same after two predictions (thorough)
harness!(c07_point_stationary2, unwind = 18, {
    let x = any_f32_in(-10000.0, 10000.0);
    let y = any_f32_in(-10000.0, 10000.0);
    let f = Point2DKalmanFilter::default();
    let s = f.predict(&f.predict(&f.initiate(&Point2::new(x, y))));
    let (m, _) = s.verif_raw();
    assert!(m[0] == x && m[1] == y && m[2] == 0.0 && m[3] == 0.0, "stationary point predicted in place twice");
});

// stationary box: position symbolic, aspect/height/angle from a small concrete family (noise model constant-folds)
harness!(c07_box_stationary, unwind = 102, {
    let x = any_f32_in(-10000.0, 10000.0);
    let y = any_f32_in(-10000.0, 10000.0);
    let which: u8 = kani::any();
    kani::assume(which < 3);
    let (aspect, height, angle) = match which {
        0 => (1.0f32, 10.0f32, None),
        1 => (0.5f32, 64.0f32, Some(0.75f32)),
        _ => (2.0f32, 3.0f32, None),
    };
    let f = Universal2DBoxKalmanFilter::default();
    let b = Universal2DBox::new(x, y, angle, aspect, height);
    let s1 = f.predict(&f.initiate(&b));
    let (m, _) = s1.verif_raw();
    assert!(m[0] == x && m[1] == y, "stationary box centre predicted in place");
    assert!(m[2] == angle.unwrap_or(0.0) && m[3] == aspect && m[4] == height, "stationary box shape kept");
    assert!(m[5] == 0.0 && m[6] == 0.0 && m[7] == 0.0 && m[8] == 0.0 && m[9] == 0.0);
});

// vector filter = point filter per element, complete states compared (initiate, predict)
harness!(c07_vec_independent, unwind = 18, {
    let pts = [
        Point2::new(any_f32_in(-10000.0, 10000.0), any_f32_in(-10000.0, 10000.0)),
        Point2::new(any_f32_in(-10000.0, 10000.0), any_f32_in(-10000.0, 10000.0)),
    ];
    let vf = Vec2DKalmanFilter::default();
    let pf = Point2DKalmanFilter::default();
    let vs = vf.initiate(&pts);
    assert!(vs.len() == 2);
    let vp = vf.predict(&vs);
    assert!(vp.len() == 2);
    let mut i = 0;
    while i < 2 {
        let s = pf.initiate(&pts[i]);
        let (m0, c0) = s.verif_raw();
        let (m1, c1) = vs[i].verif_raw();
        let mut k = 0;
        while k < 4 {
            assert!(m0[k] == m1[k], "vector initiate = point initiate (mean)");
            k += 1;
        }
        k = 0;
        while k < 16 {
            assert!(c0[k] == c1[k], "vector initiate = point initiate (covariance)");
            k += 1;
        }
        let p = pf.predict(&s);
        let (m0, c0) = p.verif_raw();
        let (m1, c1) = vp[i].verif_raw();
        k = 0;
        while k < 4 {
            assert!(m0[k] == m1[k], "vector predict = point predict (mean)");
            k += 1;
        }
        k = 0;
        while k < 16 {
            assert!(c0[k] == c1[k], "vector predict = point predict (covariance)");
            k += 1;
        }
        i += 1;
    }
});

// state -> box: angle 0 maps to None, five components copied
harness!(c07_state_to_box, unwind = 102, {
    let mean: [f32; 10] = kani::any();
    let mut i = 0;
    while i < 10 {
        kani::assume(mean[i].is_finite());
        i += 1;
    }
    let cov = [0.0f32; 100];
    let s: KalmanState<10> = KalmanState::verif_from_raw(&mean, &cov);
    assert!(s.mean_pos_xc() == mean[0] && s.mean_pos_yc() == mean[1]);
    assert!(s.mean_vel_xc() == mean[5] && s.mean_vel_yc() == mean[6]);
    let b = Universal2DBox::try_from(s).unwrap();
    assert!(b.xc == mean[0] && b.yc == mean[1] && b.aspect == mean[3] && b.height == mean[4]);
    assert!(b.confidence == 1.0);
    if mean[2] == 0.0 {
        assert!(b.angle.is_none(), "angle 0 -> None");
    } else {
        assert!(b.angle == Some(mean[2]), "non-zero angle kept");
    }
});
