//! C20 — SpatioTemporalConstraints table semantics (engine K).
use crate::harness;
use crate::util::*;
use similari::trackers::spatio_temporal_constraints::SpatioTemporalConstraints;

/// reference: the limit configured for the smallest gap >= d; a gap configured twice keeps its first limit
fn reference(entries: &[(usize, f32)], n: usize, d: usize, x: f32) -> bool {
    let mut best_gap = usize::MAX;
    let mut best_lim = 0.0f32;
    let mut found = false;
    let mut i = 0;
    while i < n {
        let (g, l) = entries[i];
        if g >= d && (!found || g < best_gap) {
            best_gap = g;
            best_lim = l;
            found = true;
        }
        i += 1;
    }
    if found {
        x <= best_lim
    } else {
        true
    }
}

fn any_entry() -> (usize, f32) {
    let g: usize = kani::any();
    kani::assume(g <= 8);
    let l = any_f32_in(0.001, 1000.0);
    (g, l)
}

// one add_constraints call with exactly N entries (lengths are concrete per harness: slice::sort_by on a
// symbolic-length Vec does not terminate in CBMC)
fn one_call<const N: usize>() {
    let entries = [any_entry(), any_entry(), any_entry()];
    let mut c = SpatioTemporalConstraints::new();
    c.add_constraints(entries[..N].to_vec());
    let d: usize = kani::any();
    kani::assume(d <= 9);
    let x = any_f32_in(0.0, 2000.0);
    let got = c.validate(d, x);
    assert!(got == reference(&entries, N, d, x), "validate = limit of the smallest configured gap >= d, first wins");
    // monotone in the distance
    let y = any_f32_in(0.0, 2000.0);
    if y <= x && got {
        assert!(c.validate(d, y), "admission is monotone in the distance");
    }
    std::mem::forget(c);
}

harness!(c20_table_one_call_1, unwind = 6, { one_call::<1>() });
harness!(c20_table_one_call_2, unwind = 6, { one_call::<2>() });
harness!(c20_table_one_call_3, unwind = 6, { one_call::<3>() });

// two add_constraints calls (A then B entries): an earlier configuration of the same gap wins
fn two_calls<const A: usize, const B: usize>() {
    let entries = [any_entry(), any_entry(), any_entry()];
    let mut c = SpatioTemporalConstraints::new();
    c.add_constraints(entries[..A].to_vec());
    c.add_constraints(entries[A..A + B].to_vec());
    let d: usize = kani::any();
    kani::assume(d <= 9);
    let x = any_f32_in(0.0, 2000.0);
    assert!(c.validate(d, x) == reference(&entries, A + B, d, x), "two calls: first configured limit of a gap wins");
    std::mem::forget(c);
}

harness!(c20_table_two_calls_1_1, unwind = 6, { two_calls::<1, 1>() });
harness!(c20_table_two_calls_1_2, unwind = 6, { two_calls::<1, 2>() });
harness!(c20_table_two_calls_2_1, unwind = 6, { two_calls::<2, 1>() });

// the empty table admits everything
harness!(c20_empty_table, unwind = 3, {
    let c = SpatioTemporalConstraints::new();
    let d: usize = kani::any();
    let x: f32 = kani::any();
    kani::assume(x >= 0.0);
    assert!(c.validate(d, x));
});
