//! C19 — box representations and equality (engine K).
use crate::harness;
use crate::util::*;
use similari::utils::bbox::{normalize_angle, BoundingBox, Universal2DBox};
use similari::EPS;

const LIM: f32 = 10000.0;

fn close(a: f32, b: f32) -> bool {
    (a - b).abs() < EPS
}

fn bbox_oracle(a: &BoundingBox, b: &BoundingBox) -> bool {
    close(a.left, b.left)
        && close(a.top, b.top)
        && close(a.width, b.width)
        && close(a.height, b.height)
        && close(a.confidence, b.confidence)
}

fn ubox_oracle(a: &Universal2DBox, b: &Universal2DBox) -> bool {
    close(a.xc, b.xc)
        && close(a.yc, b.yc)
        && close(a.angle.unwrap_or(0.0), b.angle.unwrap_or(0.0))
        && close(a.aspect, b.aspect)
        && close(a.height, b.height)
}

// equality is exactly "every coordinate differs by less than EPS" (free floats, |x| <= 1e4):
// implies reflexive, symmetric, true when close, false when any coordinate is off in either direction.
harness!(c19_bbox_eq_tolerance, unwind = 2, {
    let a = any_bbox(LIM);
    let b = any_bbox(LIM);
    let r = a == b;
    assert!(r == bbox_oracle(&a, &b), "BoundingBox == is the EPS-tolerance relation");
    assert!(r == (b == a), "BoundingBox == symmetric");
    assert!(a == a, "BoundingBox == reflexive");
});

harness!(c19_ubox_eq_tolerance, unwind = 2, {
    let a = any_ubox(LIM);
    let b = any_ubox(LIM);
    let r = a == b;
    assert!(r == ubox_oracle(&a, &b), "Universal2DBox == is the EPS-tolerance relation");
    assert!(r == (b == a), "Universal2DBox == symmetric");
    assert!(a == a, "Universal2DBox == reflexive");
});

// ltwh -> xyaah -> ltwh on the exact grid: left/top k/4 in [-64,64], width/height k/4 in (0,16]
harness!(c19_roundtrip_grid, unwind = 2, {
    let left = any_grid(-256, 256, 2);
    let top = any_grid(-256, 256, 2);
    let width = any_grid(1, 64, 2);
    let height = any_grid(1, 64, 2);
    let conf = any_grid(0, 4, 2);
    let b = BoundingBox::new_with_confidence(left, top, width, height, conf);
    let u = b.as_xyaah();
    assert!(u.angle.is_none());
    assert!(u.height == height && u.confidence == conf);
    assert!(u.xc == left + width / 2.0 && u.yc == top + height / 2.0); // exact on the grid
    let back = BoundingBox::try_from(&u).unwrap();
    assert!(back.height == height && back.confidence == conf && back.top == top);
    let tol_w = width * (1.0 / 4194304.0); // 2^-22 relative: two roundings (div, mul)
    assert!((back.width - width).abs() <= tol_w);
    assert!((back.left - left).abs() <= (left.abs() + width + 1.0) * (1.0 / 2097152.0));
});

// area on the grid: height k/4 in (0,16], aspect k/4 in (0,8]
harness!(c19_area_grid, unwind = 2, {
    let h = any_grid(1, 64, 2);
    let a = any_grid(1, 32, 2);
    let b = Universal2DBox::new(any_grid(-64, 64, 2), any_grid(-64, 64, 2), None, a, h);
    let exact_area = (h as f64) * (h as f64) * (a as f64);
    assert!(b.area() as f64 == exact_area, "area = aspect * height^2 (exact on grid)");
});

fn radius_check(h: f32, a: f32) {
    let b = Universal2DBox::new(0.0, 0.0, None, a, h);
    let hw = (a as f64) * (h as f64) / 2.0;
    let hh = (h as f64) / 2.0;
    let r2 = hw * hw + hh * hh;
    let r = b.get_radius() as f64;
    assert!(r > 0.0);
    let rel = 1.0 / 2097152.0; // 2^-21: sqrt rounding squared + f32 accumulation
    assert!(r * r >= r2 * (1.0 - rel) && r * r <= r2 * (1.0 + rel), "radius^2 = hw^2 + hh^2");
}

harness!(c19_radius_grid, unwind = 2, {
    radius_check(any_grid(1, 64, 2), any_grid(1, 32, 2));
});

harness!(c19_radius_small, unwind = 2, {
    radius_check(any_grid(1, 8, 1), any_grid(1, 8, 1));
});

// vertices of an unrotated box: the axis-aligned rectangle around the centre (exact on grid)
harness!(c19_vertices_axis_aligned, unwind = 7, {
    let h = any_grid(1, 64, 2);
    let a = any_grid(1, 32, 2);
    let xc = any_grid(-256, 256, 2);
    let yc = any_grid(-256, 256, 2);
    let b = Universal2DBox::new(xc, yc, None, a, h);
    let p = b.get_vertices();
    let pts = &p.exterior().0;
    assert!(pts.len() == 5);
    let hw = (a as f64) * (h as f64) / 2.0;
    let hh = (h as f64) / 2.0;
    let (x, y) = (xc as f64, yc as f64);
    assert!(pts[0].x == x - hw && pts[0].y == y + hh);
    assert!(pts[1].x == x + hw && pts[1].y == y + hh);
    assert!(pts[2].x == x + hw && pts[2].y == y - hh);
    assert!(pts[3].x == x - hw && pts[3].y == y - hh);
    assert!(pts[4].x == pts[0].x && pts[4].y == pts[0].y);
    std::mem::forget(p);
});

// normalize_angle: result in [0, 2pi] and congruent to the input modulo 2pi (|a| <= 1000)
harness!(c19_normalize_angle, unwind = 2, {
    let a = any_f32_in(-1000.0, 1000.0);
    let r = normalize_angle(a);
    let pix2 = 2.0 * std::f32::consts::PI;
    assert!(r >= 0.0 && r <= pix2, "normalized angle in [0, 2pi]");
    // congruence: (a - r) / 2pi is within rounding of an integer
    let turns = ((a as f64) - (r as f64)) / (pix2 as f64);
    let nearest = turns.round();
    assert!((turns - nearest).abs() <= 1e-4, "normalized angle is congruent to the input mod 2pi");
});

// vertices far from the origin with tiny sizes: the sums centre +- half-size need more than f32 precision
// (xc = 8192 + k/4, half sizes multiples of 2^-12), exact in f64 - the polygon must be generated in f64
harness!(c19_vertices_far_small, unwind = 6, {
    let xc = 8192.0 + any_grid(-16, 16, 2);
    let yc = -4096.0 + any_grid(-16, 16, 2);
    let m: i32 = kani::any();
    kani::assume(m >= 1 && m <= 8);
    let n: i32 = kani::any();
    kani::assume(n >= 1 && n <= 4);
    let h = (m as f32) / 2048.0;
    let aspect = n as f32;
    let b = Universal2DBox::new(xc, yc, None, aspect, h);
    let p = b.get_vertices();
    let hw = (aspect as f64) * (h as f64) / 2.0;
    let hh = (h as f64) / 2.0;
    let (x, y) = (xc as f64, yc as f64);
    let pts: Vec<_> = p.exterior().coords().cloned().collect();
    assert!(pts.len() == 5);
    assert!(pts[0].x == x - hw && pts[0].y == y + hh, "vertex 0 exact in f64");
    assert!(pts[1].x == x + hw && pts[1].y == y + hh, "vertex 1 exact in f64");
    assert!(pts[2].x == x + hw && pts[2].y == y - hh, "vertex 2 exact in f64");
    assert!(pts[3].x == x - hw && pts[3].y == y - hh, "vertex 3 exact in f64");
    assert!(pts[1].x - pts[0].x == 2.0 * hw && pts[0].y - pts[3].y == 2.0 * hh, "side lengths exact");
});
