//! C08 — axis-aligned intersection / IoU and the "too far" pre-filter (engine K), exact grid k/4.
use crate::harness;
use crate::util::*;
use similari::track::ObservationAttributes;
use similari::utils::bbox::{BoundingBox, Universal2DBox};

/// exact overlap area of two ltwh boxes on the grid (integers scaled by 4 -> exact in i64)
fn overlap16(l: (i32, i32, i32, i32), r: (i32, i32, i32, i32)) -> i64 {
    let (ax0, ay0, ax1, ay1) = (l.0, l.1, l.0 + l.2, l.1 + l.3);
    let (bx0, by0, bx1, by1) = (r.0, r.1, r.0 + r.2, r.1 + r.3);
    let w = ax1.min(bx1) - ax0.max(bx0);
    let h = ay1.min(by1) - ay0.max(by0);
    if w > 0 && h > 0 {
        (w as i64) * (h as i64)
    } else {
        0
    }
}

fn any_k(lo: i32, hi: i32) -> i32 {
    let k: i32 = kani::any();
    kani::assume(k >= lo && k <= hi);
    k
}

fn q(k: i32) -> f32 {
    (k as f32) / 4.0
}

fn grid_ltwh(pos: i32, size: i32) -> ((i32, i32, i32, i32), BoundingBox) {
    let k = (any_k(-pos, pos), any_k(-pos, pos), any_k(1, size), any_k(1, size));
    (k, BoundingBox::new(q(k.0), q(k.1), q(k.2), q(k.3)))
}

// BoundingBox::intersection = exact overlap area, symmetric, 0 <=> no overlap
harness!(c08_bbox_intersection_grid, unwind = 2, {
    let (ka, a) = grid_ltwh(64, 64);
    let (kb, b) = grid_ltwh(64, 64);
    let i = BoundingBox::intersection(&a, &b);
    let exact = overlap16(ka, kb);
    assert!(i == (exact as f64) / 16.0, "axis-aligned intersection equals the exact overlap area");
    assert!(i == BoundingBox::intersection(&b, &a), "intersection symmetric");
    assert!((i == 0.0) == (exact == 0), "zero exactly when the boxes do not overlap");
});

// BoundingBox IoU: in [0,1], symmetric, 1 for identical boxes, 0 exactly when disjoint, = I/(A1+A2-I)
fn iou_check(pos: i32, size: i32) {
    let (ka, a) = grid_ltwh(pos, size);
    let (kb, b) = grid_ltwh(pos, size);
    let iou = BoundingBox::calculate_metric_object(&Some(&a), &Some(&b)).unwrap();
    let iou_r = BoundingBox::calculate_metric_object(&Some(&b), &Some(&a)).unwrap();
    let inter = overlap16(ka, kb);
    let union = (ka.2 as i64) * (ka.3 as i64) + (kb.2 as i64) * (kb.3 as i64) - inter;
    assert!(iou >= 0.0 && iou <= 1.0, "IoU in [0,1]");
    assert!(iou == iou_r, "IoU symmetric");
    assert!((iou == 0.0) == (inter == 0), "IoU 0 exactly when disjoint");
    // exact rational value inter/union: one f64 rounding + one f32 rounding, the same operations on the same operands
    let exact = (inter as f64) / (union as f64);
    assert!(iou == (exact as f32), "IoU = intersection / union");
    let same = BoundingBox::calculate_metric_object(&Some(&a), &Some(&a)).unwrap();
    assert!(same == 1.0, "IoU of a box with itself is 1");
    assert!(BoundingBox::calculate_metric_object(&None, &Some(&a)).is_none());
    assert!(BoundingBox::calculate_metric_object(&Some(&a), &None).is_none());
}
harness!(c08_bbox_iou_small, unwind = 2, {
    iou_check(6, 6);
});
harness!(c08_bbox_iou_grid, unwind = 2, {
    iou_check(16, 16);
});

fn grid_ubox(pos: i32, size: i32) -> ((i32, i32, i32, i32), Universal2DBox) {
    // centre/size form generated from an ltwh grid box with even sizes so that the centre is on the grid too
    let k = (any_k(-pos, pos), any_k(-pos, pos), 2 * any_k(1, size), 2 * any_k(1, size));
    let (l, t, w, h) = (q(k.0), q(k.1), q(k.2), q(k.3));
    (k, Universal2DBox::new(l + w / 2.0, t + h / 2.0, None, w / h, h))
}

// the cheap pre-filter never rejects a pair of axis-aligned boxes that overlap
harness!(c08_too_far_sound_grid, unwind = 2, {
    let (ka, a) = grid_ubox(16, 8);
    let (kb, b) = grid_ubox(16, 8);
    // aspect = w/h is rounded; only use pairs where it is exact (w = aspect * h bit-exactly)
    kani::assume(a.aspect * a.height == q(ka.2) && b.aspect * b.height == q(kb.2));
    let far = Universal2DBox::too_far(&a, &b);
    if overlap16(ka, kb) > 0 {
        assert!(!far, "too_far must not reject overlapping boxes");
    }
    assert!(far == Universal2DBox::too_far(&b, &a), "too_far symmetric");
    assert!(!Universal2DBox::too_far(&a, &a), "a box is never too far from itself");
});
