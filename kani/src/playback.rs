// overwritten by the driver with Kani concrete-playback tests when a counterexample is replayed natively
