"""Library models: documented behaviour of std / itertools / misc callees over VM values.
An unmodelled callee is never skipped: VM.call raises Unmodelled -> query INCONCLUSIVE."""
import itertools, re
import z3
from values import *
from vm import Unmodelled, Panic, PathEnd, INT_TYPES, subst
from decls import base_name, generic_args
from mirparse import split_top


def OK(v):
    return Adt('Result', 0, (v,))


def ERR(e):
    return Adt('Result', 1, (e,))


NONE = Adt('Option', 0, ())


def SOME(v):
    return Adt('Option', 1, (v,))


def BOOL(b):
    return z3.BoolVal(bool(b))


def ORDERING(k):  # -1, 0, 1
    return Adt('Ordering', k, ())


class Models:
    def __init__(self):
        self.table = {}
        self.opts = {"map_order": "insertion"}

    def reg(self, *keys):
        def deco(f):
            for k in keys:
                self.table[k] = f
            return f
        return deco

    def lookup(self, cal):
        t = self.table
        sb = cal.self_base
        for key in ((sb, cal.trait, cal.method), ('*', cal.trait, cal.method)):
            if cal.trait is not None and key in t:
                return t[key]
        if cal.trait is None:
            if (sb, None, cal.method) in t:
                return t[(sb, None, cal.method)]
            if cal.kind in ('free', 'path'):
                if (None, None, cal.method) in t:
                    return t[(None, None, cal.method)]
        return None


M = Models()
reg = M.reg


# ===================================================================== helpers
def as_ref(v):
    if not isinstance(v, Ref):
        raise Unmodelled("expected a reference, got %r" % (v,))
    return v


def seq_of(vm, v):
    """sequence contents of a Vec / slice / array value or a reference to one"""
    while isinstance(v, Ref):
        v = vm.deref(v)
    if isinstance(v, Adt) and v.ty == 'Cow' and len(v.fields) == 1:
        return seq_of(vm, v.fields[0])     # Cow<[T]> derefs to the borrowed / owned slice
    if isinstance(v, VecV):
        return v.items
    if isinstance(v, tuple):
        return v
    raise Unmodelled("not a sequence: %r" % (v,))


def truthy(vm, b):
    return vm.branch(b)


def key_eq(vm, a, b):
    """z3 condition for equality of two map keys (ints, or tuples of ints)"""
    if isinstance(a, Ref):
        a = vm.deref(a)
    if isinstance(b, Ref):
        b = vm.deref(b)
    if isinstance(a, I) and isinstance(b, I):
        return a.e == b.e
    if isinstance(a, tuple) and isinstance(b, tuple) and len(a) == len(b):
        return z3.And([key_eq(vm, x, y) for x, y in zip(a, b)]) if a else z3.BoolVal(True)
    if isinstance(a, Adt) and isinstance(b, Adt) and a.ty == b.ty:
        if a.variant != b.variant:
            return z3.BoolVal(False)
        return z3.And([key_eq(vm, x, y) for x, y in zip(a.fields, b.fields)]) if a.fields else z3.BoolVal(True)
    if z3.is_bool(a) and z3.is_bool(b):
        return a == b
    raise Unmodelled("key equality on %r / %r" % (a, b))


def map_find(vm, m, key):
    """index of key in MapV m or None (forks on symbolic keys)"""
    conds = []
    prev = []
    for (k, _v) in m.items:
        e = key_eq(vm, k, key)
        conds.append(z3.And(prev + [e]) if prev else e)
        prev.append(z3.Not(e))
    conds.append(z3.And(prev) if prev else z3.BoolVal(True))
    k = vm.choose(conds, "map key")
    return None if k == len(m.items) else k


def default_like(v):
    if isinstance(v, VecV):
        return VecV((), v.kind)
    if isinstance(v, MapV):
        return MapV((), v.kind)
    if isinstance(v, Adt) and v.ty == 'Option':
        return NONE
    if isinstance(v, I):
        return I(z3.BitVecVal(0, v.bits), v.signed)
    if z3.is_fp(v):
        return z3.FPVal(0.0, v.sort())
    if z3.is_bool(v):
        return z3.BoolVal(False)
    if isinstance(v, str):
        return '""'
    raise Unmodelled("mem::take default of %r" % (v,))


def default_of_type(vm, ty):
    ty = ty.strip()
    if ty in INT_TYPES:
        b, s = INT_TYPES[ty]
        return I(z3.BitVecVal(0, b), s)
    if ty == 'f32':
        return z3.FPVal(0.0, F32)
    if ty == 'f64':
        return z3.FPVal(0.0, F64)
    if ty == 'bool':
        return z3.BoolVal(False)
    if ty == '()':
        return ()
    b = base_name(ty)
    if b in ('Vec', 'VecDeque', 'String'):
        return VecV((), b)
    if b in ('HashMap', 'HashSet', 'BTreeMap', 'BTreeSet'):
        return MapV((), b)
    if b == 'Option':
        return NONE
    if b in ('Arc', 'Box', 'Rc'):
        return Ref(Cell(default_of_type(vm, generic_args(ty)[0]), "arc"))
    if b in ('Mutex', 'RwLock'):
        return default_of_type(vm, generic_args(ty)[0])
    if b == 'PhantomData':
        return ()
    raise Unmodelled("Default::default for %s" % ty)


# ===================================================================== panics / fmt / log
@reg((None, None, 'panic'), (None, None, 'panic_fmt'), (None, None, 'begin_panic'), (None, None, 'panic_explicit'),
     (None, None, 'unwrap_failed'), (None, None, 'expect_failed'), (None, None, 'assert_failed'),
     (None, None, 'panic_bounds_check'), (None, None, 'panic_display'), (None, None, 'unreachable_display'),
     (None, None, 'panic_nounwind'))
def _panic(vm, cal, args):
    raise Panic("%s(%s)" % (cal.method, ", ".join(str(a)[:60] for a in args)))


@reg(('Arguments', None, 'from_str'), ('Arguments', None, 'new'), ('Arguments', None, 'new_const'),
     ('Arguments', None, 'new_v1'), ('Arguments', None, 'new_v1_formatted'),
     ('Argument', None, 'new_display'), ('Argument', None, 'new_debug'), ('Argument', None, 'new_lower_exp'),
     (None, None, 'loc'), (None, None, 'max_level'))
def _fmt_opaque(vm, cal, args):
    return Opaque('fmt', cal.method)


@reg((None, None, 'format'), (None, None, 'must_use'))
def _format(vm, cal, args):
    if cal.method == 'must_use':
        return args[0]
    return '"<formatted>"'


@reg(('Level', 'PartialOrd', 'le'), ('Level', 'PartialOrd', 'lt'))
def _log_level(vm, cal, args):
    return BOOL(False)  # logging disabled: log bodies are formatting only


@reg((None, None, 'log'), (None, None, '_eprint'), (None, None, '_print'))
def _log(vm, cal, args):
    return ()


# ===================================================================== wrappers: Deref, Clone, Arc, Mutex ...
@reg(('*', 'Deref', 'deref'), ('*', 'DerefMut', 'deref_mut'), ('*', 'AsRef', 'as_ref'), ('*', 'AsMut', 'as_mut'),
     ('*', 'Borrow', 'borrow'), ('*', 'BorrowMut', 'borrow_mut'))
def _deref(vm, cal, args):
    r = as_ref(args[0])
    v = vm.deref(r)
    if isinstance(v, Ref):
        return v
    if isinstance(v, Adt) and v.ty == 'Cow' and len(v.fields) == 1:
        inner = v.fields[0]
        return inner if isinstance(inner, Ref) else Ref(r.cell, r.path + (0,))
    if isinstance(v, Adt) and v.ty == 'OPoint' and len(v.fields) == 1:
        return Ref(r.cell, r.path + (0,))      # nalgebra points deref to their named coordinates (x, y, ..)
    return r


@reg(('*', 'Clone', 'clone'), ('*', 'ToOwned', 'to_owned'))
def _clone(vm, cal, args):
    v = vm.deref(as_ref(args[0]))
    if cal.method == 'to_owned' and isinstance(v, tuple):
        return VecV(v)
    return v


@reg(('Arc', None, 'new'), ('Box', None, 'new'), ('Rc', None, 'new'))
def _arc_new(vm, cal, args):
    return Ref(Cell(args[0], cal.self_base.lower()))


@reg(('Box', None, 'new_uninit'))
def _box_uninit(vm, cal, args):
    return Ref(Cell(UNINIT, "rawbox"), (), transparent=True)


@reg((None, None, 'box_assume_init_into_vec_unsafe'))
def _box_into_vec(vm, cal, args):
    v = vm.deref(as_ref(args[0]))
    return VecV(tuple(v))


@reg(('Mutex', None, 'new'), ('RwLock', None, 'new'), ('RefCell', None, 'new'), ('Cell', None, 'new'))
def _lock_new(vm, cal, args):
    return args[0]


@reg(('Mutex', None, 'lock'), ('RwLock', None, 'read'), ('RwLock', None, 'write'))
def _lock(vm, cal, args):
    return OK(as_ref(args[0]))


@reg(('Mutex', None, 'into_inner'), ('RwLock', None, 'into_inner'))
def _lock_into_inner(vm, cal, args):
    return OK(args[0])


@reg(('*', 'Default', 'default'))
def _default(vm, cal, args):
    return default_of_type(vm, cal.self_ty)


@reg(('*', 'From', 'from'), ('*', 'Into', 'into'))
def _from(vm, cal, args):
    v = args[0]
    if cal.method == 'into':
        target = generic_args(cal.trait_full)[0] if generic_args(cal.trait_full) else ''
        src = cal.self_ty
    else:
        target = cal.self_ty
        src = generic_args(cal.trait_full)[0] if generic_args(cal.trait_full) else ''
    tb = base_name(target)
    if tb == 'Error' and 'anyhow' in target:
        if isinstance(v, Adt) and v.ty == 'anyhow::Error':
            return v
        return Adt('anyhow::Error', 0, (v,))
    if ''.join(target.split()) == ''.join(src.split()):
        return v
    if tb in ('HashMap', 'BTreeMap', 'HashSet') and isinstance(v, (tuple, VecV)):
        return collect_into(vm, list(seq_of(vm, v)), target)
    if tb in ('Vec',) and isinstance(v, (tuple, VecV)):
        return VecV(seq_of(vm, v))
    if tb in INT_TYPES and isinstance(v, I):
        return vm.cast(v, tb, 'IntToInt')
    if tb in INT_TYPES and z3.is_bool(v):
        return vm.cast(v, tb, 'IntToInt')
    if tb == 'f64' and z3.is_fp(v):
        return vm.cast(v, 'f64', 'FloatToFloat')
    if tb == 'OPoint' and isinstance(v, (tuple, VecV)) and len(seq_of(vm, v)) == 2:
        x, y = seq_of(vm, v)      # nalgebra Point2::from([x, y])
        return Adt('OPoint', 0, (Adt('XY', 0, (x, y)),))
    if cal.method == 'into':
        # std's blanket `impl<T, U: From<T>> Into<U> for T`: into() is U::from(self); use the crate's From impl if any
        from vm import Callee
        c2 = Callee("<%s as From<%s>>::from" % (target, src))
        c2.dest_ty, c2.env = None, getattr(cal, 'env', {})
        r = vm.resolve(c2)
        if r is not None:
            fn, cenv = r
            return vm.exec_fn(fn, [v], cenv)
    raise Unmodelled("conversion %s -> %s" % (src, target))


@reg(('*', 'TryInto', 'try_into'), ('*', 'TryFrom', 'try_from'))
def _try_into(vm, cal, args):
    v = args[0]
    if cal.method == 'try_into':
        target = generic_args(cal.trait_full)[0]
    else:
        target = cal.self_ty
    tb = base_name(target)
    if isinstance(v, I) and tb in INT_TYPES:
        bits, signed = INT_TYPES[tb]
        conv = vm.cast(v, tb, 'IntToInt')
        back = vm.cast(conv, None, 'IntToInt') if False else None
        # fits iff converting back (with the target's signedness) gives the same mathematical value
        wide = max(bits, v.bits) + 1
        def ext(x):
            return z3.SignExt(wide - x.bits, x.e) if x.signed else z3.ZeroExt(wide - x.bits, x.e)
        fits = ext(v) == ext(conv)
        if vm.branch(fits):
            return OK(conv)
        return ERR(Opaque('TryFromIntError', 'e'))
    raise Unmodelled("try_into %r -> %s" % (v, target))


@reg(('Error', None, 'downcast_ref'))
def _downcast_ref(vm, cal, args):
    r = as_ref(args[0])
    v = vm.deref(r)
    want = base_name(cal.method_generics or '')
    if isinstance(v, Adt) and v.ty == 'anyhow::Error' and isinstance(v.fields[0], Adt) and v.fields[0].ty == want:
        return SOME(Ref(r.cell, r.path + (0,)))
    return NONE


@reg(('Error', None, 'msg'), ('Error', None, 'new'))
def _anyhow_new(vm, cal, args):
    return Adt('anyhow::Error', 0, (args[0],))


# ===================================================================== Try / ?
@reg(('Result', 'Try', 'branch'), ('Option', 'Try', 'branch'))
def _branch(vm, cal, args):
    v = args[0]
    if v.ty == 'Result':
        if v.variant == 0:
            return Adt('ControlFlow', 0, (v.fields[0],))
        return Adt('ControlFlow', 1, (Adt('Result', 1, (v.fields[0],)),))
    if v.variant == 1:
        return Adt('ControlFlow', 0, (v.fields[0],))
    return Adt('ControlFlow', 1, (NONE,))


@reg(('Result', 'FromResidual', 'from_residual'), ('Option', 'FromResidual', 'from_residual'))
def _from_residual(vm, cal, args):
    v = args[0]
    if v.ty == 'Option':
        return NONE
    e = v.fields[0]
    ga = generic_args(cal.self_ty)
    if len(ga) == 2 and 'anyhow' in ga[1] and not (isinstance(e, Adt) and e.ty == 'anyhow::Error') and not isinstance(e, Opaque):
        e = Adt('anyhow::Error', 0, (e,))
    return ERR(e)


# ===================================================================== Option / Result
def _opt(v):
    if not (isinstance(v, Adt) and v.ty in ('Option', 'Result')):
        raise Unmodelled("expected Option/Result, got %r" % (v,))
    return v


def _is_some(v):
    return (v.ty == 'Option' and v.variant == 1) or (v.ty == 'Result' and v.variant == 0)


@reg(('Option', None, 'is_some'), ('Result', None, 'is_ok'))
def _o_is_some(vm, cal, args):
    return BOOL(_is_some(_opt(vm.deref(as_ref(args[0])))))


@reg(('Option', None, 'is_none'), ('Result', None, 'is_err'))
def _o_is_none(vm, cal, args):
    return BOOL(not _is_some(_opt(vm.deref(as_ref(args[0])))))


@reg(('Option', None, 'unwrap'), ('Result', None, 'unwrap'), ('Option', None, 'expect'), ('Result', None, 'expect'))
def _o_unwrap(vm, cal, args):
    v = _opt(args[0])
    if _is_some(v):
        return v.fields[0]
    raise Panic("%s::%s on %r" % (v.ty, cal.method, v))


@reg(('Result', None, 'unwrap_err'), ('Result', None, 'expect_err'))
def _r_unwrap_err(vm, cal, args):
    v = _opt(args[0])
    if not _is_some(v):
        return v.fields[0]
    raise Panic("unwrap_err on Ok")


@reg(('Option', None, 'unwrap_or'), ('Result', None, 'unwrap_or'))
def _o_unwrap_or(vm, cal, args):
    v = _opt(args[0])
    return v.fields[0] if _is_some(v) else args[1]


@reg(('Option', None, 'unwrap_or_default'), ('Result', None, 'unwrap_or_default'))
def _o_unwrap_or_default(vm, cal, args):
    v = _opt(args[0])
    if _is_some(v):
        return v.fields[0]
    return default_of_type(vm, generic_args(cal.self_ty)[0])


@reg(('Option', None, 'unwrap_or_else'), ('Result', None, 'unwrap_or_else'))
def _o_unwrap_or_else(vm, cal, args):
    v = _opt(args[0])
    if _is_some(v):
        return v.fields[0]
    return vm.call_value(args[1], [] if v.ty == 'Option' else [v.fields[0]])


@reg(('Option', None, 'map'), ('Result', None, 'map'))
def _o_map(vm, cal, args):
    v = _opt(args[0])
    if _is_some(v):
        return Adt(v.ty, v.variant, (vm.call_value(args[1], [v.fields[0]]),))
    return v


@reg(('Result', None, 'map_err'))
def _r_map_err(vm, cal, args):
    v = _opt(args[0])
    if _is_some(v):
        return v
    return ERR(vm.call_value(args[1], [v.fields[0]]))


@reg(('Option', None, 'and_then'), ('Result', None, 'and_then'))
def _o_and_then(vm, cal, args):
    v = _opt(args[0])
    if _is_some(v):
        return vm.call_value(args[1], [v.fields[0]])
    return v


@reg(('Option', None, 'ok_or'))
def _o_ok_or(vm, cal, args):
    v = _opt(args[0])
    return OK(v.fields[0]) if _is_some(v) else ERR(args[1])


@reg(('Option', None, 'ok_or_else'))
def _o_ok_or_else(vm, cal, args):
    v = _opt(args[0])
    return OK(v.fields[0]) if _is_some(v) else ERR(vm.call_value(args[1], []))


@reg(('Result', None, 'ok'))
def _r_ok(vm, cal, args):
    v = _opt(args[0])
    return SOME(v.fields[0]) if _is_some(v) else NONE


@reg(('Result', None, 'err'))
def _r_err(vm, cal, args):
    v = _opt(args[0])
    return NONE if _is_some(v) else SOME(v.fields[0])


@reg(('Option', None, 'as_ref'), ('Option', None, 'as_mut'), ('Result', None, 'as_ref'), ('Result', None, 'as_mut'),
     ('Option', None, 'as_deref'))
def _o_as_ref(vm, cal, args):
    r = as_ref(args[0])
    v = _opt(vm.deref(r))
    if v.fields:
        inner = Ref(r.cell, r.path + (0,))
        if cal.method == 'as_deref' and isinstance(v.fields[0], Ref):
            inner = v.fields[0]
        return Adt(v.ty, v.variant, (inner,))
    return v


@reg(('Option', None, 'take'))
def _o_take(vm, cal, args):
    r = as_ref(args[0])
    v = vm.deref(r)
    vm.store(r, NONE)
    return v


@reg(('Option', None, 'replace'))
def _o_replace(vm, cal, args):
    r = as_ref(args[0])
    v = vm.deref(r)
    vm.store(r, SOME(args[1]))
    return v


@reg(('Option', None, 'cloned'), ('Option', None, 'copied'))
def _o_cloned(vm, cal, args):
    v = _opt(args[0])
    if _is_some(v):
        return SOME(vm.deref(as_ref(v.fields[0])))
    return v


@reg(('Option', None, 'filter'))
def _o_filter(vm, cal, args):
    v = _opt(args[0])
    if _is_some(v):
        keep = vm.call_value(args[1], [vm.new_ref(v.fields[0])])
        return v if truthy(vm, keep) else NONE
    return v


@reg(('Option', None, 'or'))
def _o_or(vm, cal, args):
    v = _opt(args[0])
    return v if _is_some(v) else args[1]


@reg(('Option', None, 'map_or'))
def _o_map_or(vm, cal, args):
    v = _opt(args[0])
    if _is_some(v):
        return vm.call_value(args[2], [v.fields[0]])
    return args[1]


@reg(('Option', 'PartialEq', 'eq'), ('Option', 'PartialEq', 'ne'))
def _o_eq(vm, cal, args):
    a = vm.deref(as_ref(args[0]))
    b = vm.deref(as_ref(args[1]))
    e = key_eq(vm, a, b)
    return z3.Not(e) if cal.method == 'ne' else e


# ===================================================================== mem
@reg((None, None, 'take'))
def _mem_take(vm, cal, args):
    r = as_ref(args[0])
    v = vm.deref(r)
    vm.store(r, default_like(v))
    return v


@reg((None, None, 'replace'))
def _mem_replace(vm, cal, args):
    r = as_ref(args[0])
    v = vm.deref(r)
    vm.store(r, args[1])
    return v


@reg((None, None, 'swap'))
def _mem_swap(vm, cal, args):
    a, b = as_ref(args[0]), as_ref(args[1])
    va, vb = vm.deref(a), vm.deref(b)
    vm.store(a, vb)
    vm.store(b, va)
    return ()


@reg((None, None, 'drop'), (None, None, 'forget'))
def _mem_drop(vm, cal, args):
    return ()


# ===================================================================== numeric leaf methods
def _f(args):
    return args[0]


def _f_unary(op):
    def g(vm, cal, args):
        return f_un(op, args[0])
    return g


for _ty in ('f32', 'f64'):
    for _op in ('abs', 'sqrt', 'floor'):
        M.table[(_ty, None, _op)] = _f_unary(_op)


def _f_binary(op):
    def g(vm, cal, args):
        return f_arith(op, args[0], args[1])
    return g


# transcendental functions have no bit-precise semantics in z3: they are uninterpreted but FUNCTIONAL (same argument ->
# same value) with their elementary range facts; a counterexample that depends on their values will not reproduce natively
_UF = {}


def _uf(name, sort, arity=1):
    key = (name, str(sort), arity)
    if key not in _UF:
        _UF[key] = z3.Function('%s_%s' % (name, 'f32' if sort == F32 else 'f64'), *([sort] * arity + [sort]))
    return _UF[key]


def _f_transcendental(name, lo=None, hi=None):
    def g(vm, cal, args):
        x = fp_plain(args[0])
        srt = x.sort()
        y = _uf(name, srt)(x)
        vm.add_pc(z3.Not(z3.fpIsNaN(y)) if lo is None else z3.And(z3.fpGEQ(y, z3.FPVal(lo, srt)), z3.fpLEQ(y, z3.FPVal(hi, srt))))
        if name in ('sin', 'cos') and z3.is_fp_value(x) and z3.simplify(z3.fpIsZero(x)).__bool__() if False else False:
            pass
        return y
    return g


for _ty in ('f32', 'f64'):
    M.table[(_ty, None, 'sin')] = _f_transcendental('sin', -1.0, 1.0)
    M.table[(_ty, None, 'cos')] = _f_transcendental('cos', -1.0, 1.0)
    for _n in ('tan', 'exp', 'ln', 'atan', 'asin', 'acos', 'tanh', 'log10', 'log2', 'cbrt'):
        M.table[(_ty, None, _n)] = _f_transcendental(_n)


@reg(('f32', None, 'sin_cos'), ('f64', None, 'sin_cos'))
def _f_sin_cos(vm, cal, args):
    return (M.table[('f32', None, 'sin')](vm, cal, args), M.table[('f32', None, 'cos')](vm, cal, args))


@reg(('f32', None, 'atan2'), ('f64', None, 'atan2'), ('f32', None, 'powf'), ('f64', None, 'powf'), ('f32', None, 'hypot'), ('f64', None, 'hypot'))
def _f_binary_uf(vm, cal, args):
    a, b = fp_plain(args[0]), fp_plain(args[1])
    return _uf(cal.method, a.sort(), 2)(a, b)


@reg(('f32', None, 'powi'), ('f64', None, 'powi'))
def _f_powi(vm, cal, args):
    n = args[1].concrete()
    if n is None or n < 0 or n > 4:
        raise Unmodelled("powi with exponent %r" % (n,))
    r = None
    for _ in range(n):
        r = args[0] if r is None else f_arith('mul', r, args[0])
    return r if r is not None else (z3.FPVal(1.0, fp_plain(args[0]).sort()))


@reg(('f32', None, 'mul_add'), ('f64', None, 'mul_add'))
def _f_mul_add(vm, cal, args):
    a, b, c = fp_plain(args[0]), fp_plain(args[1]), fp_plain(args[2])
    return z3.fpFMA(RNE, a, b, c)


@reg(('f32', None, 'ceil'), ('f64', None, 'ceil'), ('f32', None, 'round'), ('f64', None, 'round'), ('f32', None, 'trunc'), ('f64', None, 'trunc'))
def _f_rounding(vm, cal, args):
    x = fp_plain(args[0])
    mode = {'ceil': z3.RTP(), 'round': z3.RNA(), 'trunc': z3.RTZ()}[cal.method]
    return z3.fpRoundToIntegral(mode, x)


@reg(('f32', None, 'signum'), ('f64', None, 'signum'))
def _f_signum(vm, cal, args):
    x = fp_plain(args[0])
    srt = x.sort()
    return z3.If(z3.fpIsNaN(x), x, z3.If(z3.fpIsNegative(x), z3.FPVal(-1.0, srt), z3.FPVal(1.0, srt)))


@reg(('f32', None, 'clamp'), ('f64', None, 'clamp'))
def _f_clamp(vm, cal, args):
    x, lo, hi = args
    return f_ite(f_rel('lt', x, lo), lo, f_ite(f_rel('gt', x, hi), hi, x))


@reg(('f32', None, 'is_finite'), ('f64', None, 'is_finite'), ('f32', None, 'is_infinite'), ('f64', None, 'is_infinite'))
def _f_is_finite(vm, cal, args):
    x = fp_plain(args[0])
    fin = z3.And(z3.Not(z3.fpIsNaN(x)), z3.Not(z3.fpIsInf(x)))
    return fin if cal.method == 'is_finite' else z3.fpIsInf(x)


@reg(('f32', None, 'to_bits'), ('f64', None, 'to_bits'))
def _f_to_bits(vm, cal, args):
    return I(z3.fpToIEEEBV(fp_plain(args[0])), False)


for _ty in ('f32', 'f64'):
    M.table[(_ty, None, 'max')] = _f_binary('max')
    M.table[(_ty, None, 'min')] = _f_binary('min')


@reg(('f32', None, 'is_nan'), ('f64', None, 'is_nan'))
def _f_isnan(vm, cal, args):
    x = args[0]
    if isinstance(x, FSet):
        return z3.Or([c for v, c in x.cases if v != v] + [z3.BoolVal(False)])
    return z3.fpIsNaN(x)


@reg(('f32', 'PartialOrd', 'partial_cmp'), ('f64', 'PartialOrd', 'partial_cmp'))
def _f_partial_cmp(vm, cal, args):
    a = vm.deref(as_ref(args[0]))
    b = vm.deref(as_ref(args[1]))
    lt, eq, gt = f_rel('lt', a, b), f_rel('eq', a, b), f_rel('gt', a, b)
    k = vm.choose([lt, eq, gt, z3.Not(z3.Or(lt, eq, gt))], "partial_cmp")
    if k == 3:
        return NONE
    return SOME(ORDERING((-1, 0, 1)[k]))


def _int_cmp(vm, a, b):
    if a.signed:
        k = vm.choose([a.e < b.e, a.e == b.e, a.e > b.e], "cmp")
    else:
        k = vm.choose([z3.ULT(a.e, b.e), a.e == b.e, z3.UGT(a.e, b.e)], "cmp")
    return ORDERING((-1, 0, 1)[k])


@reg(('*', 'Ord', 'cmp'))
def _ord_cmp(vm, cal, args):
    a = vm.deref(as_ref(args[0]))
    b = vm.deref(as_ref(args[1]))
    while isinstance(a, Ref):
        a = vm.deref(a)
    while isinstance(b, Ref):
        b = vm.deref(b)
    if isinstance(a, I):
        return _int_cmp(vm, a, b)
    raise Unmodelled("Ord::cmp on %r" % (a,))


@reg(('*', 'PartialOrd', 'partial_cmp'))
def _pord(vm, cal, args):
    a = vm.deref(as_ref(args[0]))
    b = vm.deref(as_ref(args[1]))
    while isinstance(a, Ref):
        a = vm.deref(a)
    while isinstance(b, Ref):
        b = vm.deref(b)
    if isinstance(a, I):
        return SOME(_int_cmp(vm, a, b))
    if isfp(a):
        return _f_partial_cmp(vm, cal, [vm.new_ref(a), vm.new_ref(b)])
    raise Unmodelled("partial_cmp on %r" % (a,))


@reg(('*', 'PartialEq', 'eq'), ('*', 'PartialEq', 'ne'))
def _peq(vm, cal, args):
    a = vm.deref(as_ref(args[0]))
    b = vm.deref(as_ref(args[1]))
    while isinstance(a, Ref):
        a = vm.deref(a)
    while isinstance(b, Ref):
        b = vm.deref(b)
    if isfp(a):
        e = f_rel('eq', a, b)
    else:
        e = key_eq(vm, a, b)
    return z3.Not(e) if cal.method == 'ne' else e


@reg(('u64', None, 'abs_diff'), ('usize', None, 'abs_diff'))
def _abs_diff(vm, cal, args):
    a, b = args
    return I(z3.If(z3.UGE(a.e, b.e), a.e - b.e, b.e - a.e), False)


@reg(('i128', None, 'abs'), ('i64', None, 'abs'), ('i32', None, 'abs'), ('isize', None, 'abs'))
def _i_abs(vm, cal, args):
    a = args[0]
    return I(z3.If(a.e < 0, -a.e, a.e), True)


@reg(('usize', None, 'min'), ('u64', None, 'min'), ('*', 'Ord', 'min'))
def _u_min(vm, cal, args):
    a, b = args
    if a.signed:
        return I(z3.If(a.e <= b.e, a.e, b.e), True)
    return I(z3.If(z3.ULE(a.e, b.e), a.e, b.e), False)


@reg(('usize', None, 'max'), ('u64', None, 'max'), ('*', 'Ord', 'max'))
def _u_max(vm, cal, args):
    a, b = args
    if a.signed:
        return I(z3.If(a.e >= b.e, a.e, b.e), True)
    return I(z3.If(z3.UGE(a.e, b.e), a.e, b.e), False)


_INT_TYS = ('u8', 'u16', 'u32', 'u64', 'u128', 'usize', 'i8', 'i16', 'i32', 'i64', 'i128', 'isize')


def _int_keys(*methods):
    return [(t, None, m) for t in _INT_TYS for m in methods]


def _ovf(op, a, b, signed):
    """(wrapped result, overflow condition) of a machine-integer operation"""
    if op == 'add':
        r = a + b
        ok = z3.And(z3.BVAddNoOverflow(a, b, signed), z3.BVAddNoUnderflow(a, b)) if signed else z3.BVAddNoOverflow(a, b, False)
    elif op == 'sub':
        r = a - b
        ok = z3.And(z3.BVSubNoOverflow(a, b), z3.BVSubNoUnderflow(a, b, signed)) if signed else z3.UGE(a, b)
    else:
        r = a * b
        ok = z3.And(z3.BVMulNoOverflow(a, b, signed), z3.BVMulNoUnderflow(a, b)) if signed else z3.BVMulNoOverflow(a, b, False)
    return r, z3.Not(ok)


@reg(*_int_keys('saturating_add', 'saturating_sub', 'saturating_mul'))
def _saturating(vm, cal, args):
    a, b = args
    op = cal.method.split('_')[1]
    r, ovf = _ovf(op, a.e, b.e, a.signed)
    bits = a.bits
    if not a.signed:
        sat = z3.BitVecVal(0, bits) if op == 'sub' else z3.BitVecVal(2 ** bits - 1, bits)
    else:
        mx, mn = z3.BitVecVal(2 ** (bits - 1) - 1, bits), z3.BitVecVal(-(2 ** (bits - 1)), bits)
        if op == 'add':
            sat = z3.If(b.e < 0, mn, mx)
        elif op == 'sub':
            sat = z3.If(b.e < 0, mx, mn)
        else:
            sat = z3.If((a.e < 0) != (b.e < 0), mn, mx)
    return I(z3.If(ovf, sat, r), a.signed)


@reg(*_int_keys('wrapping_add', 'wrapping_sub', 'wrapping_mul'))
def _wrapping(vm, cal, args):
    a, b = args
    r, _ = _ovf(cal.method.split('_')[1], a.e, b.e, a.signed)
    return I(r, a.signed)


@reg(*_int_keys('checked_add', 'checked_sub', 'checked_mul'))
def _checked(vm, cal, args):
    a, b = args
    r, ovf = _ovf(cal.method.split('_')[1], a.e, b.e, a.signed)
    if vm.branch(ovf):
        return NONE
    return SOME(I(r, a.signed))


@reg(*_int_keys('overflowing_add', 'overflowing_sub', 'overflowing_mul'))
def _overflowing(vm, cal, args):
    a, b = args
    r, ovf = _ovf(cal.method.split('_')[1], a.e, b.e, a.signed)
    return (I(r, a.signed), ovf)


@reg(*_int_keys('abs_diff'))
def _abs_diff_any(vm, cal, args):
    a, b = args
    if a.signed:
        return I(z3.If(a.e >= b.e, a.e - b.e, b.e - a.e), False)
    return I(z3.If(z3.UGE(a.e, b.e), a.e - b.e, b.e - a.e), False)


@reg(*_int_keys('min', 'max'))
def _int_minmax(vm, cal, args):
    return (_u_min if cal.method == 'min' else _u_max)(vm, cal, args)


@reg(*_int_keys('clamp'))
def _int_clamp(vm, cal, args):
    x, lo, hi = args
    lt = (lambda p, q: p < q) if x.signed else z3.ULT
    return I(z3.If(lt(x.e, lo.e), lo.e, z3.If(lt(hi.e, x.e), hi.e, x.e)), x.signed)


@reg(*_int_keys('pow'))
def _int_pow(vm, cal, args):
    a, n = args
    c = n.concrete()
    if c is None or c > 8:
        raise Unmodelled("integer pow with a symbolic / large exponent")
    r = z3.BitVecVal(1, a.bits)
    for _ in range(c):
        r = r * a.e
    return I(r, a.signed)


@reg(*[(t, None, 'is_positive') for t in _INT_TYS] + [(t, None, 'is_negative') for t in _INT_TYS])
def _int_sign(vm, cal, args):
    a = args[0]
    return (a.e > 0) if cal.method == 'is_positive' else (a.e < 0)


@reg(*[(t, None, 'signum') for t in _INT_TYS])
def _int_signum(vm, cal, args):
    a = args[0]
    return I(z3.If(a.e > 0, z3.BitVecVal(1, a.bits), z3.If(a.e < 0, z3.BitVecVal(-1, a.bits), z3.BitVecVal(0, a.bits))), True)


@reg(*[(t, None, 'unsigned_abs') for t in _INT_TYS])
def _int_uabs(vm, cal, args):
    a = args[0]
    return I(z3.If(a.e < 0, -a.e, a.e), False)


@reg(('RangeInclusive', None, 'new'))
def _ri_new(vm, cal, args):
    return Adt('RangeInclusive', 0, (args[0], args[1]))


@reg(('RangeInclusive', None, 'contains'), ('Range', None, 'contains'))
def _r_contains(vm, cal, args):
    r = vm.deref(as_ref(args[0]))
    x = vm.deref(as_ref(args[1]))
    lo, hi = r.fields[0], r.fields[1]
    incl = r.ty == 'RangeInclusive'
    if isfp(x):
        return z3.And(f_rel('le', lo, x), f_rel('le', x, hi) if incl else f_rel('lt', x, hi))
    if x.signed:
        return z3.And(lo.e <= x.e, (x.e <= hi.e) if incl else (x.e < hi.e))
    return z3.And(z3.ULE(lo.e, x.e), z3.ULE(x.e, hi.e) if incl else z3.ULT(x.e, hi.e))


# ===================================================================== Vec / slices / VecDeque
def vec_at(vm, r):
    v = vm.deref(r)
    if isinstance(v, tuple):
        v = VecV(v, 'array')
    if not isinstance(v, VecV):
        raise Unmodelled("expected Vec, got %r" % (v,))
    return v


def to_slice_ref(vm, r):
    """a reference to a Vec/array/slice place -> the same place (slices share the representation)"""
    v = vm.deref(r)
    if isinstance(v, Ref):
        return to_slice_ref(vm, v)
    return r


@reg(('Vec', None, 'new'), ('VecDeque', None, 'new'), ('String', None, 'new'))
def _vec_new(vm, cal, args):
    return VecV((), cal.self_base)


@reg(('Vec', None, 'with_capacity'), ('VecDeque', None, 'with_capacity'))
def _vec_with_cap(vm, cal, args):
    return VecV((), cal.self_base)


@reg(('Vec', None, 'len'), ('VecDeque', None, 'len'), ('[T]', None, 'len'))
def _vec_len(vm, cal, args):
    return usize(len(seq_of(vm, args[0])))


@reg(('Vec', None, 'is_empty'), ('VecDeque', None, 'is_empty'), ('[T]', None, 'is_empty'))
def _vec_is_empty(vm, cal, args):
    return BOOL(len(seq_of(vm, args[0])) == 0)


@reg(('Vec', None, 'push'), ('VecDeque', None, 'push_back'))
def _vec_push(vm, cal, args):
    r = as_ref(args[0])
    v = vec_at(vm, r)
    vm.store(r, VecV(v.items + (args[1],), v.kind))
    return ()


@reg(('VecDeque', None, 'push_front'))
def _vd_push_front(vm, cal, args):
    r = as_ref(args[0])
    v = vec_at(vm, r)
    vm.store(r, VecV((args[1],) + v.items, v.kind))
    return ()


@reg(('Vec', None, 'pop'), ('VecDeque', None, 'pop_back'))
def _vec_pop(vm, cal, args):
    r = as_ref(args[0])
    v = vec_at(vm, r)
    if not v.items:
        return NONE
    vm.store(r, VecV(v.items[:-1], v.kind))
    return SOME(v.items[-1])


@reg(('VecDeque', None, 'pop_front'))
def _vd_pop_front(vm, cal, args):
    r = as_ref(args[0])
    v = vec_at(vm, r)
    if not v.items:
        return NONE
    vm.store(r, VecV(v.items[1:], v.kind))
    return SOME(v.items[0])


@reg(('VecDeque', None, 'back'), ('[T]', None, 'last'), ('Vec', None, 'last'))
def _vd_back(vm, cal, args):
    r = to_slice_ref(vm, as_ref(args[0]))
    n = len(seq_of(vm, r))
    if n == 0:
        return NONE
    return SOME(Ref(r.cell, r.path + (('idx', n - 1),)))


@reg(('VecDeque', None, 'front'), ('[T]', None, 'first'), ('Vec', None, 'first'))
def _vd_front(vm, cal, args):
    r = to_slice_ref(vm, as_ref(args[0]))
    n = len(seq_of(vm, r))
    if n == 0:
        return NONE
    return SOME(Ref(r.cell, r.path + (('idx', 0),)))


@reg(('Vec', None, 'clear'), ('VecDeque', None, 'clear'))
def _vec_clear(vm, cal, args):
    r = as_ref(args[0])
    v = vec_at(vm, r)
    vm.store(r, VecV((), v.kind))
    return ()


@reg(('Vec', None, 'truncate'))
def _vec_truncate(vm, cal, args):
    r = as_ref(args[0])
    v = vec_at(vm, r)
    n = args[1].concrete()
    if n is None:
        L = len(v.items)
        n = vm.choose([args[1].e == k for k in range(L)] + [z3.UGE(args[1].e, L)], "truncate length")
    vm.store(r, VecV(v.items[:n], v.kind))
    return ()


@reg(('Vec', None, 'insert'))
def _vec_insert(vm, cal, args):
    r = as_ref(args[0])
    v = vec_at(vm, r)
    i = vm.concretize_index(args[1], len(v.items) + 1)
    vm.store(r, VecV(v.items[:i] + (args[2],) + v.items[i:], v.kind))
    return ()


@reg(('Vec', None, 'remove'))
def _vec_remove(vm, cal, args):
    r = as_ref(args[0])
    v = vec_at(vm, r)
    i = vm.concretize_index(args[1], len(v.items))
    vm.store(r, VecV(v.items[:i] + v.items[i + 1:], v.kind))
    return v.items[i]


@reg(('Vec', None, 'swap_remove'))
def _vec_swap_remove(vm, cal, args):
    r = as_ref(args[0])
    v = vec_at(vm, r)
    i = vm.concretize_index(args[1], len(v.items))
    items = list(v.items)
    x = items[i]
    items[i] = items[-1]
    items.pop()
    vm.store(r, VecV(items, v.kind))
    return x


@reg(('Vec', None, 'extend_from_slice'), ('Vec', None, 'append'))
def _vec_extend_from_slice(vm, cal, args):
    r = as_ref(args[0])
    v = vec_at(vm, r)
    other = seq_of(vm, args[1])
    vm.store(r, VecV(v.items + tuple(other), v.kind))
    if cal.method == 'append':
        r2 = as_ref(args[1])
        vm.store(r2, VecV((), 'Vec'))
    return ()


@reg(('Vec', 'Extend', 'extend'), ('VecDeque', 'Extend', 'extend'))
def _vec_extend(vm, cal, args):
    r = as_ref(args[0])
    v = vec_at(vm, r)
    items = drain_iter(vm, into_iter(vm, args[1]))
    # extending from a by-reference iterator copies the elements
    items = [vm.deref(x) if isinstance(x, Ref) and 'Iter<' in (cal.trait_full or '') and False else x for x in items]
    ga = generic_args(cal.trait_full or '')
    if ga and ga[0].startswith('&'):
        items = [vm.deref(x) for x in items]
    vm.store(r, VecV(v.items + tuple(items), v.kind))
    return ()


@reg(('Vec', 'Index', 'index'), ('Vec', 'IndexMut', 'index_mut'), ('VecDeque', 'Index', 'index'),
     ('[T]', 'Index', 'index'), ('[T]', 'IndexMut', 'index_mut'), ('VecDeque', 'IndexMut', 'index_mut'))
def _vec_index(vm, cal, args):
    r = to_slice_ref(vm, as_ref(args[0]))
    items = seq_of(vm, r)
    idx = args[1]
    if isinstance(idx, Adt):
        # slice[a..b] by shared reference: a read-only view (copy of the element values)
        if cal.trait != 'Index':
            raise Unmodelled("mutable range indexing")
        n = len(items)
        lo, hi = 0, n
        if idx.ty == 'RangeFrom':
            lo = vm.concretize_index(idx.fields[0], n + 1)
        elif idx.ty == 'RangeTo':
            hi = vm.concretize_index(idx.fields[0], n + 1)
        elif idx.ty == 'Range':
            lo = vm.concretize_index(idx.fields[0], n + 1)
            hi = vm.concretize_index(idx.fields[1], n + 1)
        elif idx.ty != 'RangeFull':
            raise Unmodelled("range indexing with " + idx.ty)
        if lo > hi:
            raise Panic("slice index starts after its end")
        return Ref(Cell(VecV(tuple(items[lo:hi])), "subslice"))
    i = vm.concretize_index(idx, len(items))
    return Ref(r.cell, r.path + (('idx', i),))


@reg(('Vec', None, 'get'), ('[T]', None, 'get'), ('VecDeque', None, 'get'), ('Vec', None, 'get_mut'), ('[T]', None, 'get_mut'))
def _vec_get(vm, cal, args):
    r = to_slice_ref(vm, as_ref(args[0]))
    items = seq_of(vm, r)
    idx = args[1]
    c = idx.concrete()
    if c is None:
        conds = [idx.e == k for k in range(len(items))] + [z3.UGE(idx.e, len(items))]
        c = vm.choose(conds, "get idx")
    if c >= len(items):
        return NONE
    return SOME(Ref(r.cell, r.path + (('idx', c),)))


@reg(('[T]', None, 'to_vec'), ('Vec', None, 'to_vec'))
def _to_vec(vm, cal, args):
    return VecV(seq_of(vm, args[0]))


@reg(('[T]', None, 'reverse'), ('Vec', None, 'reverse'))
def _reverse(vm, cal, args):
    r = to_slice_ref(vm, as_ref(args[0]))
    v = vm.deref(r)
    if isinstance(v, VecV):
        vm.store(r, VecV(v.items[::-1], v.kind))
    else:
        vm.store(r, tuple(v[::-1]))
    return ()


@reg(('[T]', None, 'swap'), ('Vec', None, 'swap'))
def _slice_swap(vm, cal, args):
    r = to_slice_ref(vm, as_ref(args[0]))
    v = vm.deref(r)
    items = list(seq_of(vm, r))
    i = vm.concretize_index(args[1], len(items))
    j = vm.concretize_index(args[2], len(items))
    items[i], items[j] = items[j], items[i]
    vm.store(r, VecV(items, v.kind) if isinstance(v, VecV) else tuple(items))
    return ()


@reg(('[T]', None, 'contains'), ('Vec', None, 'contains'), ('VecDeque', None, 'contains'))
def _slice_contains(vm, cal, args):
    items = seq_of(vm, args[0])
    x = args[1]
    return z3.Or([key_eq(vm, it, x) for it in items]) if items else BOOL(False)


def insertion_sort(vm, items, less_or_equal):
    """stable sort; comparator decides via forks"""
    out = []
    for it in items:
        pos = len(out)
        # insert after the last element that is <= it  (scan from the right: stable)
        while pos > 0 and not less_or_equal(out[pos - 1], it):
            pos -= 1
        out.insert(pos, it)
    return out


def _cmp_le(vm, cmp, tmpcells=True):
    def le(a, b):
        o = vm.call_value(cmp, [vm.new_ref(a), vm.new_ref(b)])
        if not (isinstance(o, Adt) and o.ty == 'Ordering'):
            raise Unmodelled("comparator returned %r" % (o,))
        return o.variant <= 0
    return le


@reg(('[T]', None, 'sort_by'), ('Vec', None, 'sort_by'), ('[T]', None, 'sort_unstable_by'))
def _sort_by(vm, cal, args):
    r = to_slice_ref(vm, as_ref(args[0]))
    v = vm.deref(r)
    items = insertion_sort(vm, list(seq_of(vm, r)), _cmp_le(vm, args[1]))
    vm.store(r, VecV(items, v.kind) if isinstance(v, VecV) else tuple(items))
    return ()


@reg(('[T]', None, 'sort'), ('Vec', None, 'sort'), ('[T]', None, 'sort_unstable'))
def _sort(vm, cal, args):
    r = to_slice_ref(vm, as_ref(args[0]))
    v = vm.deref(r)

    def le(a, b):
        return _int_cmp(vm, a, b).variant <= 0
    items = insertion_sort(vm, list(seq_of(vm, r)), le)
    vm.store(r, VecV(items, v.kind) if isinstance(v, VecV) else tuple(items))
    return ()


@reg(('Vec', None, 'dedup_by'))
def _dedup_by(vm, cal, args):
    r = as_ref(args[0])
    v = vec_at(vm, r)
    out = []
    for it in v.items:
        if out:
            # same_bucket(&mut current, &mut previous_retained) -> remove current if true
            cur = vm.new_ref(it)
            prev = vm.new_ref(out[-1])
            same = vm.call_value(args[1], [cur, prev])
            if truthy(vm, same):
                out[-1] = vm.deref(prev)
                continue
            it = vm.deref(cur)
        out.append(it)
    vm.store(r, VecV(out, v.kind))
    return ()


@reg(('Vec', None, 'dedup_by_key'))
def _dedup_by_key(vm, cal, args):
    """removes all but the first of CONSECUTIVE elements whose keys are equal (std contract)"""
    r = as_ref(args[0])
    v = vec_at(vm, r)
    out = []
    prev_key = None
    for it in v.items:
        cur = vm.new_ref(it)
        k = vm.call_value(args[1], [cur])
        it = vm.deref(cur)
        if out and truthy(vm, key_eq(vm, k, prev_key)):
            continue
        out.append(it)
        prev_key = k
    vm.store(r, VecV(out, v.kind))
    return ()


@reg(('Vec', None, 'dedup'))
def _dedup(vm, cal, args):
    r = as_ref(args[0])
    v = vec_at(vm, r)
    out = []
    for it in v.items:
        if out and truthy(vm, key_eq(vm, it, out[-1])):
            continue
        out.append(it)
    vm.store(r, VecV(out, v.kind))
    return ()


# ---- HashMap entry API: an Entry is (reference to the map, key, index of the entry or None)
@reg(('HashMap', None, 'entry'), ('BTreeMap', None, 'entry'))
def _map_entry(vm, cal, args):
    r = as_ref(args[0])
    m = vm.deref(r)
    while isinstance(m, Ref):
        r = m
        m = vm.deref(r)
    i = map_find(vm, m, args[1])
    return Adt('MapEntry', 0 if i is None else 1, (r, args[1]))


def _entry_insert_default(vm, e, make):
    r, key = e.fields
    m = vm.deref(r)
    i = map_find(vm, m, key)
    if i is None:
        vm.store(r, MapV(m.items + ((key, make()),), m.kind))
        i = len(m.items)
    return Ref(r.cell, r.path + (('idx', i), 1))


@reg(('Entry', None, 'or_insert'))
def _entry_or_insert(vm, cal, args):
    return _entry_insert_default(vm, args[0], lambda: args[1])


@reg(('Entry', None, 'or_insert_with'))
def _entry_or_insert_with(vm, cal, args):
    return _entry_insert_default(vm, args[0], lambda: vm.call_value(args[1], []))


@reg(('Entry', None, 'or_default'))
def _entry_or_default(vm, cal, args):
    return _entry_insert_default(vm, args[0], lambda: default_of_type(vm, (cal.dest_ty or '').replace('&mut ', '').strip() or 'usize'))


@reg(('Entry', None, 'and_modify'))
def _entry_and_modify(vm, cal, args):
    e = args[0]
    r, key = e.fields
    m = vm.deref(r)
    i = map_find(vm, m, key)
    if i is not None:
        vm.call_value(args[1], [Ref(r.cell, r.path + (('idx', i), 1))])
    return e


@reg(('Vec', None, 'retain'), ('VecDeque', None, 'retain'))
def _retain(vm, cal, args):
    r = as_ref(args[0])
    v = vec_at(vm, r)
    out = []
    for it in v.items:
        if truthy(vm, vm.call_value(args[1], [vm.new_ref(it)])):
            out.append(it)
    vm.store(r, VecV(out, v.kind))
    return ()


@reg((None, None, 'from_elem'))
def _from_elem(vm, cal, args):
    n = args[1].concrete()
    if n is None:
        raise Unmodelled("vec![x; n] with symbolic n")
    return VecV([args[0]] * n)


@reg(('[T]', None, 'join'), ('[T]', None, 'concat'))
def _join(vm, cal, args):
    return '"<joined>"'


# ===================================================================== HashMap / HashSet
def map_at(vm, r):
    v = vm.deref(r)
    if not isinstance(v, MapV):
        raise Unmodelled("expected map, got %r" % (v,))
    return v


@reg(('HashMap', None, 'new'), ('HashSet', None, 'new'), ('BTreeMap', None, 'new'), ('HashMap', None, 'with_capacity'),
     ('HashSet', None, 'with_capacity'))
def _map_new(vm, cal, args):
    return MapV((), cal.self_base)


@reg(('HashMap', None, 'len'), ('HashSet', None, 'len'))
def _map_len(vm, cal, args):
    return usize(len(map_at(vm, as_ref(args[0])).items))


@reg(('HashMap', None, 'is_empty'), ('HashSet', None, 'is_empty'))
def _map_is_empty(vm, cal, args):
    return BOOL(len(map_at(vm, as_ref(args[0])).items) == 0)


@reg(('HashMap', None, 'insert'))
def _map_insert(vm, cal, args):
    r = as_ref(args[0])
    m = map_at(vm, r)
    i = map_find(vm, m, args[1])
    if i is None:
        vm.store(r, MapV(m.items + ((args[1], args[2]),), m.kind))
        return NONE
    old = m.items[i][1]
    items = list(m.items)
    items[i] = (items[i][0], args[2])
    vm.store(r, MapV(items, m.kind))
    return SOME(old)


@reg(('HashSet', None, 'insert'))
def _set_insert(vm, cal, args):
    r = as_ref(args[0])
    m = map_at(vm, r)
    i = map_find(vm, m, args[1])
    if i is None:
        vm.store(r, MapV(m.items + ((args[1], ()),), m.kind))
        return BOOL(True)
    return BOOL(False)


@reg(('HashMap', None, 'get'), ('HashMap', None, 'get_mut'))
def _map_get(vm, cal, args):
    r = as_ref(args[0])
    m = map_at(vm, r)
    i = map_find(vm, m, args[1])
    if i is None:
        return NONE
    return SOME(Ref(r.cell, r.path + (('idx', i), 1)))


@reg(('HashMap', None, 'contains_key'), ('HashSet', None, 'contains'))
def _map_contains(vm, cal, args):
    m = map_at(vm, as_ref(args[0]))
    return BOOL(map_find(vm, m, args[1]) is not None)


@reg(('HashMap', None, 'remove'))
def _map_remove(vm, cal, args):
    r = as_ref(args[0])
    m = map_at(vm, r)
    i = map_find(vm, m, args[1])
    if i is None:
        return NONE
    vm.store(r, MapV(m.items[:i] + m.items[i + 1:], m.kind))
    return SOME(m.items[i][1])


@reg(('HashSet', None, 'remove'))
def _set_remove(vm, cal, args):
    r = as_ref(args[0])
    m = map_at(vm, r)
    i = map_find(vm, m, args[1])
    if i is None:
        return BOOL(False)
    vm.store(r, MapV(m.items[:i] + m.items[i + 1:], m.kind))
    return BOOL(True)


@reg(('HashMap', None, 'clear'), ('HashSet', None, 'clear'))
def _map_clear(vm, cal, args):
    r = as_ref(args[0])
    m = map_at(vm, r)
    vm.store(r, MapV((), m.kind))
    return ()


@reg(('HashMap', 'Index', 'index'))
def _map_index(vm, cal, args):
    r = as_ref(args[0])
    m = map_at(vm, r)
    i = map_find(vm, m, args[1])
    if i is None:
        raise Panic("HashMap index: key not found")
    return Ref(r.cell, r.path + (('idx', i), 1))


@reg(('HashMap', 'Extend', 'extend'), ('HashSet', 'Extend', 'extend'))
def _map_extend(vm, cal, args):
    r = as_ref(args[0])
    for it in drain_iter(vm, into_iter(vm, args[1])):
        if map_at(vm, r).kind == 'HashSet':
            _set_insert(vm, cal, [r, it])
        else:
            _map_insert(vm, cal, [r, it[0], it[1]])
    return ()


# ===================================================================== iterators
def map_order(vm, n):
    """order in which a hash map's entries are visited: std promises none"""
    if M.opts.get("map_order") == "nondet" and n > 1:
        perms = list(itertools.permutations(range(n)))
        return list(perms[vm.choose_n(len(perms), "map iteration order")])
    return list(range(n))


def into_iter(vm, v, by_ref=False):
    """IntoIterator::into_iter on a value"""
    if isinstance(v, Iter):
        return v
    if isinstance(v, VecV):
        return Iter('list', items=tuple(v.items), pos=0)
    if isinstance(v, tuple):
        return Iter('list', items=tuple(v), pos=0)
    if isinstance(v, MapV):
        order = map_order(vm, len(v.items))
        if v.kind in ('HashSet', 'BTreeSet'):
            return Iter('list', items=tuple(v.items[i][0] for i in order), pos=0)
        return Iter('list', items=tuple((v.items[i][0], v.items[i][1]) for i in order), pos=0)
    if isinstance(v, Ref):
        tgt = vm.deref(v)
        if isinstance(tgt, Ref):
            return into_iter(vm, tgt)
        if isinstance(tgt, Iter):   # &mut iterator
            return Iter('byref', ref=v)
        if isinstance(tgt, VecV) or isinstance(tgt, tuple):
            n = len(seq_of(vm, v))
            return Iter('list', items=tuple(Ref(v.cell, v.path + (('idx', i),)) for i in range(n)), pos=0)
        if isinstance(tgt, MapV):
            order = map_order(vm, len(tgt.items))
            if tgt.kind in ('HashSet', 'BTreeSet'):
                return Iter('list', items=tuple(Ref(v.cell, v.path + (('idx', i), 0)) for i in order), pos=0)
            return Iter('list', items=tuple((Ref(v.cell, v.path + (('idx', i), 0)), Ref(v.cell, v.path + (('idx', i), 1)))
                                            for i in order), pos=0)
        if isinstance(tgt, Adt) and tgt.ty == 'Option':
            return Iter('list', items=(Ref(v.cell, v.path + (0,)),) if tgt.variant == 1 else (), pos=0)
        if isinstance(tgt, Adt) and tgt.ty == 'GroupBy':      # `&GroupBy` yields (key, group) pairs by value
            return Iter('list', items=tuple(tgt.fields[0].items), pos=0)
    if isinstance(v, Adt) and v.ty == 'GroupBy':
        return Iter('list', items=tuple(v.fields[0].items), pos=0)
    if isinstance(v, Adt) and v.ty == 'Range':
        return Iter('range', cur=v.fields[0], end=v.fields[1], incl=False)
    if isinstance(v, Adt) and v.ty == 'RangeInclusive':
        return Iter('range', cur=v.fields[0], end=v.fields[1], incl=True, done=False)
    if isinstance(v, Adt) and v.ty == 'Option':
        return Iter('list', items=(v.fields[0],) if v.variant == 1 else (), pos=0)
    if isinstance(v, Adt) and (v.ty, 'Iterator', 'next') in vm.prog.impl_methods:
        return v      # std's blanket `impl<I: Iterator> IntoIterator for I`: a crate iterator is its own IntoIter
    raise Unmodelled("into_iter on %r" % (v,))


def iter_next(vm, it):
    """-> (item or None, new iterator)"""
    if isinstance(it, Adt) and it.ty in ('Range', 'RangeInclusive'):
        it = into_iter(vm, it)       # a range used as an iterator directly (`(0..n).map(..)`)
    if isinstance(it, Adt):
        # an iterator type of the crate (e.g. TrackDistanceOkIterator): run its own Iterator::next
        c = vm.prog.impl_methods.get((it.ty, 'Iterator', 'next'))
        if not c:
            raise Unmodelled("iterator %r" % (it,))
        cell = Cell(it, 'crate_iter')
        r = vm.exec_fn(c[0][0], [Ref(cell)], {})
        return (r.fields[0] if r.variant == 1 else None), cell.v
    k = it.kind
    a = it.a
    if k == 'list':
        if a['pos'] >= len(a['items']):
            return None, it
        return a['items'][a['pos']], Iter('list', items=a['items'], pos=a['pos'] + 1)
    if k == 'range':
        cur, end = a['cur'], a['end']
        if a.get('incl'):
            cond = (cur.e <= end.e) if cur.signed else z3.ULE(cur.e, end.e)
        else:
            cond = (cur.e < end.e) if cur.signed else z3.ULT(cur.e, end.e)
        if truthy(vm, cond):
            nxt = I(cur.e + 1, cur.signed)
            return cur, Iter('range', cur=I(z3.simplify(nxt.e), cur.signed), end=end, incl=a.get('incl'))
        return None, it
    if k == 'byref':
        inner = vm.deref(a['ref'])
        x, new = iter_next(vm, inner)
        vm.store(a['ref'], new)
        return x, it
    if k == 'map':
        x, src = iter_next(vm, a['src'])
        if x is None:
            return None, Iter('map', src=src, f=a['f'])
        return vm.call_value(a['f'], [x]), Iter('map', src=src, f=a['f'])
    if k == 'filter':
        src = a['src']
        while True:
            x, src = iter_next(vm, src)
            if x is None:
                return None, Iter('filter', src=src, f=a['f'])
            if truthy(vm, vm.call_value(a['f'], [vm.new_ref(x)])):
                return x, Iter('filter', src=src, f=a['f'])
    if k == 'filter_map':
        src = a['src']
        while True:
            x, src = iter_next(vm, src)
            if x is None:
                return None, Iter('filter_map', src=src, f=a['f'])
            o = vm.call_value(a['f'], [x])
            if o.variant == 1:
                return o.fields[0], Iter('filter_map', src=src, f=a['f'])
    if k == 'enumerate':
        x, src = iter_next(vm, a['src'])
        if x is None:
            return None, Iter('enumerate', src=src, n=a['n'])
        return (usize(a['n']), x), Iter('enumerate', src=src, n=a['n'] + 1)
    if k == 'zip':
        x, s1 = iter_next(vm, a['a'])
        if x is None:
            return None, Iter('zip', a=s1, b=a['b'])
        y, s2 = iter_next(vm, a['b'])
        if y is None:
            return None, Iter('zip', a=s1, b=s2)
        return (x, y), Iter('zip', a=s1, b=s2)
    if k == 'chain':
        if a['a'] is not None:
            x, s1 = iter_next(vm, a['a'])
            if x is not None:
                return x, Iter('chain', a=s1, b=a['b'])
        y, s2 = iter_next(vm, a['b'])
        return y, Iter('chain', a=None, b=s2)
    if k == 'take':
        if a['n'] == 0:
            return None, it
        x, src = iter_next(vm, a['src'])
        return x, Iter('take', src=src, n=a['n'] - 1 if x is not None else 0)
    if k == 'skip':
        src = a['src']
        for _ in range(a['n']):
            x, src = iter_next(vm, src)
            if x is None:
                return None, Iter('skip', src=src, n=0)
        x, src = iter_next(vm, src)
        return x, Iter('skip', src=src, n=0)
    if k == 'cloned':
        x, src = iter_next(vm, a['src'])
        if x is None:
            return None, Iter('cloned', src=src)
        return vm.deref(as_ref(x)), Iter('cloned', src=src)
    if k == 'flat_map':
        cur, src, f = a['cur'], a['src'], a['f']
        while True:
            if cur is not None:
                x, cur = iter_next(vm, cur)
                if x is not None:
                    return x, Iter('flat_map', cur=cur, src=src, f=f)
                cur = None
            y, src = iter_next(vm, src)
            if y is None:
                return None, Iter('flat_map', cur=None, src=src, f=f)
            cur = into_iter(vm, vm.call_value(f, [y]) if f is not None else y)
    if k == 'take_while':
        if a.get('done'):
            return None, it
        x, src = iter_next(vm, a['src'])
        if x is None or not truthy(vm, vm.call_value(a['f'], [vm.new_ref(x)])):
            return None, Iter('take_while', src=src, f=a['f'], done=True)
        return x, Iter('take_while', src=src, f=a['f'])
    if k == 'inspect':
        x, src = iter_next(vm, a['src'])
        if x is not None:
            vm.call_value(a['f'], [vm.new_ref(x)])
        return x, Iter('inspect', src=src, f=a['f'])
    if k == 'map_while':
        if a.get('done'):
            return None, it
        x, src = iter_next(vm, a['src'])
        if x is None:
            return None, Iter('map_while', src=src, f=a['f'], done=True)
        y = vm.call_value(a['f'], [x])
        if y.variant == 0:
            return None, Iter('map_while', src=src, f=a['f'], done=True)
        return y.fields[0], Iter('map_while', src=src, f=a['f'])
    if k == 'skip_while':
        src = a['src']
        if not a.get('started'):
            while True:
                x, src = iter_next(vm, src)
                if x is None:
                    return None, Iter('skip_while', src=src, f=a['f'], started=True)
                if not truthy(vm, vm.call_value(a['f'], [vm.new_ref(x)])):
                    return x, Iter('skip_while', src=src, f=a['f'], started=True)
        x, src = iter_next(vm, src)
        return x, Iter('skip_while', src=src, f=a['f'], started=True)
    if k == 'scan':
        x, src = iter_next(vm, a['src'])
        if x is None:
            return None, it
        y = vm.call_value(a['f'], [Ref(a['state']), x])
        if y.variant == 0:
            return None, Iter('list', items=(), pos=0)
        return y.fields[0], Iter('scan', src=src, f=a['f'], state=a['state'])
    raise Unmodelled("iterator kind " + k)


def drain_iter(vm, it, limit=10000):
    out = []
    while True:
        x, it = iter_next(vm, it)
        if x is None:
            return out
        out.append(x)
        if len(out) > limit:
            raise Unmodelled("iterator does not terminate within bound")


@reg(('*', 'IntoIterator', 'into_iter'))
def _into_iter(vm, cal, args):
    v = args[0]
    if isinstance(v, Adt):
        # a crate type reached through an unbound method-level generic (`<T as IntoIterator>::into_iter`): use its impl
        c = vm.prog.impl_methods.get((v.ty, 'IntoIterator', 'into_iter'))
        if c:
            fn, info = c[0]
            return vm.exec_fn(fn, [v], {})
    return into_iter(vm, v)


@reg(('[T]', None, 'iter'), ('Vec', None, 'iter'), ('VecDeque', None, 'iter'), ('[T]', None, 'iter_mut'),
     ('Vec', None, 'iter_mut'), ('VecDeque', None, 'iter_mut'), ('HashMap', None, 'iter'), ('HashMap', None, 'iter_mut'),
     ('HashSet', None, 'iter'), ('Option', None, 'iter'))
def _iter(vm, cal, args):
    return into_iter(vm, to_slice_ref(vm, as_ref(args[0])))


@reg(('HashMap', None, 'keys'))
def _map_keys(vm, cal, args):
    r = as_ref(args[0])
    m = map_at(vm, r)
    return Iter('list', items=tuple(Ref(r.cell, r.path + (('idx', i), 0)) for i in map_order(vm, len(m.items))), pos=0)


@reg(('HashMap', None, 'values'), ('HashMap', None, 'values_mut'))
def _map_values(vm, cal, args):
    r = as_ref(args[0])
    m = map_at(vm, r)
    return Iter('list', items=tuple(Ref(r.cell, r.path + (('idx', i), 1)) for i in map_order(vm, len(m.items))), pos=0)


@reg(('HashMap', None, 'into_keys'))
def _map_into_keys(vm, cal, args):
    m = args[0]
    return Iter('list', items=tuple(m.items[i][0] for i in map_order(vm, len(m.items))), pos=0)


@reg(('HashMap', None, 'into_values'))
def _map_into_values(vm, cal, args):
    m = args[0]
    return Iter('list', items=tuple(m.items[i][1] for i in map_order(vm, len(m.items))), pos=0)


@reg(('Vec', None, 'drain'), ('HashMap', None, 'drain'))
def _drain(vm, cal, args):
    r = as_ref(args[0])
    v = vm.deref(r)
    if len(args) > 1 and not (isinstance(args[1], Adt) and args[1].ty == 'RangeFull'):
        raise Unmodelled("drain with a range")
    vm.store(r, default_like(v))
    return into_iter(vm, v)


@reg(('*', 'Iterator', 'next'))
def _next(vm, cal, args):
    r = as_ref(args[0])
    it = vm.deref(r)
    x, new = iter_next(vm, it)
    vm.store(r, new)
    return NONE if x is None else SOME(x)


def _adaptor(kind, **fixed):
    def f(vm, cal, args):
        return Iter(kind, src=args[0], f=args[1], **fixed)
    return f


M.table[('*', 'Iterator', 'map')] = _adaptor('map')
M.table[('*', 'Iterator', 'filter')] = _adaptor('filter')
M.table[('*', 'Iterator', 'filter_map')] = _adaptor('filter_map')
M.table[('*', 'Iterator', 'take_while')] = _adaptor('take_while')
M.table[('*', 'Iterator', 'inspect')] = _adaptor('inspect')
M.table[('*', 'Iterator', 'map_while')] = _adaptor('map_while')
M.table[('*', 'Iterator', 'skip_while')] = _adaptor('skip_while')


@reg(('*', 'Iterator', 'scan'))
def _scan(vm, cal, args):
    return Iter('scan', src=args[0], state=Cell(args[1], 'scan_state'), f=args[2])


@reg(('*', 'Iterator', 'rev'), ('*', 'DoubleEndedIterator', 'rev'))
def _rev(vm, cal, args):
    xs = drain_iter(vm, args[0])
    return Iter('list', items=tuple(reversed(xs)), pos=0)


@reg(('*', 'Iterator', 'peekable'), ('*', 'Iterator', 'fuse'), ('*', 'Iterator', 'by_ref'))
def _iter_identity_adaptors(vm, cal, args):
    if cal.method == 'peekable':
        raise Unmodelled("peekable")
    return args[0]


@reg(('*', 'Iterator', 'step_by'))
def _step_by(vm, cal, args):
    n = args[1].concrete()
    if n is None:
        raise Unmodelled("step_by with a symbolic step")
    xs = drain_iter(vm, args[0])
    return Iter('list', items=tuple(xs[::n]), pos=0)


@reg(('*', 'Iterator', 'min_by_key'), ('*', 'Iterator', 'max_by_key'))
def _extreme_by_key(vm, cal, args):
    xs = drain_iter(vm, args[0])
    if not xs:
        return NONE
    keys = [vm.call_value(args[1], [vm.new_ref(x)]) for x in xs]
    best = 0
    for i in range(1, len(xs)):
        a, b = keys[i], keys[best]
        if isfp(a):
            better = f_rel('ge' if cal.method == 'max_by_key' else 'lt', a, b)
        elif a.signed:
            better = (a.e >= b.e) if cal.method == 'max_by_key' else (a.e < b.e)
        else:
            better = z3.UGE(a.e, b.e) if cal.method == 'max_by_key' else z3.ULT(a.e, b.e)
        if vm.branch(better):
            best = i
    return SOME(xs[best])


@reg(('*', 'Iterator', 'flat_map'))
def _flat_map(vm, cal, args):
    return Iter('flat_map', cur=None, src=args[0], f=args[1])


@reg(('*', 'Iterator', 'flatten'))
def _flatten(vm, cal, args):
    return Iter('flat_map', cur=None, src=args[0], f=None)


@reg(('*', 'Iterator', 'enumerate'))
def _enumerate(vm, cal, args):
    return Iter('enumerate', src=args[0], n=0)


@reg(('*', 'Iterator', 'zip'))
def _zip(vm, cal, args):
    return Iter('zip', a=args[0], b=into_iter(vm, args[1]))


@reg(('*', 'Iterator', 'chain'))
def _chain(vm, cal, args):
    return Iter('chain', a=args[0], b=into_iter(vm, args[1]))


@reg(('*', 'Iterator', 'take'))
def _take(vm, cal, args):
    n = args[1].concrete()
    if n is None:
        raise Unmodelled("take(n) with symbolic n")
    return Iter('take', src=args[0], n=n)


@reg(('*', 'Iterator', 'skip'))
def _skip(vm, cal, args):
    n = args[1].concrete()
    if n is None:
        raise Unmodelled("skip(n) with symbolic n")
    return Iter('skip', src=args[0], n=n)


@reg(('*', 'Iterator', 'cloned'), ('*', 'Iterator', 'copied'))
def _cloned(vm, cal, args):
    return Iter('cloned', src=args[0])


@reg(('*', 'Iterator', 'rev'))
def _rev(vm, cal, args):
    return Iter('list', items=tuple(reversed(drain_iter(vm, args[0]))), pos=0)


@reg(('*', 'Iterator', 'by_ref'))
def _by_ref(vm, cal, args):
    return as_ref(args[0])


def collect_into(vm, items, target):
    b = base_name(target)
    if b in ('Vec', 'VecDeque'):
        return VecV(items, b)
    if b in ('HashMap', 'BTreeMap'):
        cell = Cell(MapV((), b))
        r = Ref(cell)
        for it in items:
            _map_insert(vm, None, [r, it[0], it[1]])
        return cell.v
    if b in ('HashSet', 'BTreeSet'):
        cell = Cell(MapV((), b))
        r = Ref(cell)
        for it in items:
            _set_insert(vm, None, [r, it])
        return cell.v
    if b == 'Result':
        inner = generic_args(target)[0]
        out = []
        for it in items:
            if it.variant == 1:
                return it
            out.append(it.fields[0])
        return OK(collect_into(vm, out, inner))
    if b == 'Option':
        inner = generic_args(target)[0]
        out = []
        for it in items:
            if it.variant == 0:
                return NONE
            out.append(it.fields[0])
        return SOME(collect_into(vm, out, inner))
    if b == 'String':
        return '"<collected>"'
    raise Unmodelled("collect into " + target)


@reg(('*', 'Iterator', 'collect'))
def _collect(vm, cal, args):
    target = cal.method_generics or cal.dest_ty
    if target is None:
        raise Unmodelled("collect target unknown")
    if target.strip() == '_':
        target = cal.dest_ty
    return collect_into(vm, drain_iter(vm, args[0]), subst(target, cal.env))


@reg(('*', 'FromIterator', 'from_iter'))
def _from_iter(vm, cal, args):
    return collect_into(vm, drain_iter(vm, into_iter(vm, args[0])), cal.self_ty)


@reg(('*', 'Iterator', 'for_each'))
def _for_each(vm, cal, args):
    for x in drain_iter(vm, args[0]):
        vm.call_value(args[1], [x])
    return ()


@reg(('*', 'Iterator', 'fold'))
def _fold(vm, cal, args):
    acc = args[1]
    for x in drain_iter(vm, args[0]):
        acc = vm.call_value(args[2], [acc, x])
    return acc


@reg(('*', 'Iterator', 'count'))
def _count(vm, cal, args):
    return usize(len(drain_iter(vm, args[0])))


@reg(('*', 'Iterator', 'last'))
def _last(vm, cal, args):
    xs = drain_iter(vm, args[0])
    return SOME(xs[-1]) if xs else NONE


@reg(('*', 'Iterator', 'nth'))
def _nth(vm, cal, args):
    r = as_ref(args[0])
    n = args[1].concrete()
    it = vm.deref(r)
    x = None
    for _ in range(n + 1):
        x, it = iter_next(vm, it)
        if x is None:
            break
    vm.store(r, it)
    return NONE if x is None else SOME(x)


@reg(('*', 'Iterator', 'sum'))
def _sum(vm, cal, args):
    xs = drain_iter(vm, args[0])
    ty = (cal.method_generics or cal.dest_ty or '').strip()
    if ty in ('f32', 'f64'):
        acc = z3.FPVal(0.0, F32 if ty == 'f32' else F64)  # std: starts from 0.0 (-0.0 in newer std is == for our uses)
        for x in xs:
            if isinstance(x, Ref):
                x = vm.deref(x)
            acc = vm.binop('Add', acc, x)
        return acc
    bits, signed = INT_TYPES[ty]
    acc = z3.BitVecVal(0, bits)
    for x in xs:
        if isinstance(x, Ref):
            x = vm.deref(x)
        acc = acc + x.e
    return I(acc, signed)


@reg(('*', 'Iterator', 'find'))
def _find(vm, cal, args):
    r = as_ref(args[0])
    it = vm.deref(r)
    while True:
        x, it = iter_next(vm, it)
        if x is None:
            vm.store(r, it)
            return NONE
        if truthy(vm, vm.call_value(args[1], [vm.new_ref(x)])):
            vm.store(r, it)
            return SOME(x)


@reg(('*', 'Iterator', 'position'))
def _position(vm, cal, args):
    r = as_ref(args[0])
    it = vm.deref(r)
    n = 0
    while True:
        x, it = iter_next(vm, it)
        if x is None:
            vm.store(r, it)
            return NONE
        if truthy(vm, vm.call_value(args[1], [x])):
            vm.store(r, it)
            return SOME(usize(n))
        n += 1


@reg(('*', 'Iterator', 'any'))
def _any(vm, cal, args):
    r = as_ref(args[0])
    it = vm.deref(r)
    while True:
        x, it = iter_next(vm, it)
        if x is None:
            vm.store(r, it)
            return BOOL(False)
        if truthy(vm, vm.call_value(args[1], [x])):
            vm.store(r, it)
            return BOOL(True)


@reg(('*', 'Iterator', 'all'))
def _all(vm, cal, args):
    r = as_ref(args[0])
    it = vm.deref(r)
    while True:
        x, it = iter_next(vm, it)
        if x is None:
            vm.store(r, it)
            return BOOL(True)
        if not truthy(vm, vm.call_value(args[1], [x])):
            vm.store(r, it)
            return BOOL(False)


def _extreme_by(vm, xs, cmp, want_max):
    best = None
    for x in xs:
        if best is None:
            best = x
            continue
        o = vm.call_value(cmp, [vm.new_ref(best), vm.new_ref(x)])
        # max_by: last max wins on ties; min_by: first min wins
        if want_max:
            if o.variant <= 0:
                best = x
        else:
            if o.variant > 0:
                best = x
    return NONE if best is None else SOME(best)


@reg(('*', 'Iterator', 'max_by'))
def _max_by(vm, cal, args):
    return _extreme_by(vm, drain_iter(vm, args[0]), args[1], True)


@reg(('*', 'Iterator', 'min_by'))
def _min_by(vm, cal, args):
    return _extreme_by(vm, drain_iter(vm, args[0]), args[1], False)


@reg(('*', 'Iterator', 'unzip'))
def _unzip(vm, cal, args):
    xs = drain_iter(vm, args[0])
    return (VecV([x[0] for x in xs]), VecV([x[1] for x in xs]))


@reg(('*', 'Iterator', 'size_hint'))
def _size_hint(vm, cal, args):
    return (usize(0), NONE)


# ---- itertools
@reg(('*', 'Itertools', 'into_group_map'))
def _into_group_map(vm, cal, args):
    cell = Cell(MapV((), 'HashMap'))
    r = Ref(cell)
    for (k, v) in drain_iter(vm, args[0]):
        m = cell.v
        i = map_find(vm, m, k)
        if i is None:
            cell.v = MapV(m.items + ((k, VecV((v,))),), 'HashMap')
        else:
            items = list(m.items)
            items[i] = (items[i][0], VecV(items[i][1].items + (v,)))
            cell.v = MapV(items, 'HashMap')
    return cell.v


@reg(('*', 'Itertools', 'sorted_by'))
def _sorted_by(vm, cal, args):
    items = insertion_sort(vm, drain_iter(vm, args[0]), _cmp_le(vm, args[1]))
    return Iter('list', items=tuple(items), pos=0)


@reg(('*', 'Itertools', 'collect_vec'))
def _collect_vec(vm, cal, args):
    return VecV(drain_iter(vm, args[0]))


@reg(('*', 'Itertools', 'cartesian_product'))
def _cartesian(vm, cal, args):
    a = drain_iter(vm, args[0])
    b = drain_iter(vm, into_iter(vm, args[1]))
    return Iter('list', items=tuple((x, y) for x in a for y in b), pos=0)


@reg(('*', 'Itertools', 'group_by'), ('*', 'Itertools', 'chunk_by'))
def _group_by(vm, cal, args):
    """itertools contract: CONSECUTIVE elements with equal keys form a group (no sorting)"""
    xs = drain_iter(vm, args[0])
    groups = []
    prev = None
    for x in xs:
        k = vm.call_value(args[1], [vm.new_ref(x)])
        if groups and truthy(vm, key_eq(vm, k, prev)):
            groups[-1][1].append(x)
        else:
            groups.append((k, [x]))
        prev = k
    return Adt('GroupBy', 0, (VecV(tuple((k, Iter('list', items=tuple(g), pos=0)) for k, g in groups)),))


@reg(('*', 'Itertools', 'tee'))
def _tee(vm, cal, args):
    xs = tuple(drain_iter(vm, args[0]))
    return (Iter('list', items=xs, pos=0), Iter('list', items=xs, pos=0))


@reg(('*', 'Fn', 'call'), ('*', 'FnMut', 'call_mut'), ('*', 'FnOnce', 'call_once'))
def _fn_call(vm, cal, args):
    f, packed = args[0], args[1]
    return vm.call_value(f, list(packed) if isinstance(packed, tuple) else [packed])


# ---- wide / ultraviolet f32x8: lanes are opaque here (packing and arithmetic are decided by engine K, C16)
@reg(('f32x8', None, 'as_array_ref'))
def _f32x8_as_array_ref(vm, cal, args):
    v = vm.deref(as_ref(args[0]))
    tag = v.tag if isinstance(v, Opaque) else str(v)
    return Ref(Cell(tuple(Opaque('f32', '%s[%d]' % (tag, i)) for i in range(8)), 'lanes'))


@reg(('VecDeque', None, 'as_slices'))
def _vd_as_slices(vm, cal, args):
    # std promises only that the two slices, concatenated, are the contents: the split point depends on the ring
    # buffer's history, so it is a fresh nondeterministic choice (a caller that reads only one slice is caught)
    r = to_slice_ref(vm, as_ref(args[0]))
    xs = seq_of(vm, r)
    k = vm.choose_n(len(xs) + 1, "as_slices split")
    return (Ref(Cell(VecV(tuple(xs[:k]), 'slice'), 'front')), Ref(Cell(VecV(tuple(xs[k:]), 'slice'), 'back')))


@reg(('VecDeque', None, 'make_contiguous'))
def _vd_make_contiguous(vm, cal, args):
    return to_slice_ref(vm, as_ref(args[0]))


# ---- rayon: par_iter().map().collect() has the contract of the sequential map
@reg(('*', 'IntoParallelRefIterator', 'par_iter'), ('*', 'IntoParallelIterator', 'into_par_iter'))
def _par_iter(vm, cal, args):
    v = args[0]
    return into_iter(vm, to_slice_ref(vm, v) if isinstance(v, Ref) else v)


M.table[('*', 'ParallelIterator', 'map')] = _adaptor('map')
M.table[('*', 'ParallelIterator', 'filter')] = _adaptor('filter')
M.table[('*', 'ParallelIterator', 'collect')] = _collect
M.table[('*', 'IndexedParallelIterator', 'enumerate')] = _enumerate


# ===================================================================== rand
@reg((None, None, 'thread_rng'))
def _thread_rng(vm, cal, args):
    return Opaque('ThreadRng', 'rng')


@reg(('ThreadRng', 'Rng', 'gen'), ('*', 'Rng', 'gen'))
def _rng_gen(vm, cal, args):
    ty = (cal.method_generics or 'u64').strip()
    return vm.fresh_of_type(ty, "rand")


# ===================================================================== crossbeam channels as FIFO queues
# A channel is a cell holding a queue. Blocking `recv` on an empty queue is a scheduling point: the spec's scheduler
# (vm.notes['sched']) may run store workers; if the queue is still empty the receive fails (disconnected / would
# block forever), which also ends a worker's `while let Ok(c) = recv()` loop after it drained its commands.
@reg((None, None, 'unbounded'), (None, None, 'bounded'))
def _chan_new(vm, cal, args):
    q = Cell(VecV((), 'queue'), vm.fresh_tag('chan'))
    return (Adt('Sender', 0, (Ref(q),)), Adt('Receiver', 0, (Ref(q),)))


def _chan_q(vm, v):
    while isinstance(v, Ref):
        v = vm.deref(v)
    if not (isinstance(v, Adt) and v.ty in ('Sender', 'Receiver')):
        raise Unmodelled("channel endpoint expected, got %r" % (v,))
    return v.fields[0]


@reg(('Sender', None, 'send'))
def _chan_send(vm, cal, args):
    q = _chan_q(vm, args[0])
    cur = vm.deref(q)
    vm.store(q, VecV(cur.items + (args[1],), 'queue'))
    s = vm.notes.get('sched')
    if s is not None:
        s.on_send(vm, q.cell)
    return OK(())


@reg(('Receiver', None, 'recv'))
def _chan_recv(vm, cal, args):
    q = _chan_q(vm, args[0])
    cur = vm.deref(q)
    if not cur.items:
        s = vm.notes.get('sched')
        if s is not None:
            s.on_block(vm, q.cell)
        cur = vm.deref(q)
    if not cur.items:
        return ERR(Adt('RecvError', 0, ()))
    vm.store(q, VecV(cur.items[1:], 'queue'))
    return OK(cur.items[0])


@reg(('Receiver', None, 'is_empty'))
def _chan_is_empty(vm, cal, args):
    return BOOL(len(vm.deref(_chan_q(vm, args[0])).items) == 0)


@reg(('Receiver', None, 'len'))
def _chan_len(vm, cal, args):
    return usize(len(vm.deref(_chan_q(vm, args[0])).items))


# ===================================================================== Condvar: a blocked waiter is a scheduling point
# wait_while(guard, cond): while cond(&mut *guard) holds the waiter sleeps; the spec's scheduler runs the other threads
# (vm.notes['sched'].on_block with the mutex cell); if the condition still holds when nobody else can run, the wait never
# ends: reported as a panic "deadlock" (the query decides what that means)
@reg(('Condvar', None, 'new'))
def _condvar_new(vm, cal, args):
    return Opaque('Condvar', vm.fresh_tag('condvar'))


@reg(('Condvar', None, 'notify_one'), ('Condvar', None, 'notify_all'))
def _condvar_notify(vm, cal, args):
    return ()


@reg(('Condvar', None, 'wait_while'))
def _condvar_wait_while(vm, cal, args):
    guard, cond = args[1], args[2]
    for attempt in range(2):
        c = vm.call_value(cond, [guard])
        if z3.is_expr(c):
            holds = vm.branch(c)
        else:
            holds = bool(c)
        if not holds:
            return OK(guard)
        if attempt == 0:
            s = vm.notes.get('sched')
            if s is not None:
                s.on_block(vm, as_ref(guard).cell)
    raise Panic("deadlock: Condvar::wait_while condition still holds when no other thread can run")


# std::thread::spawn: the thread body is recorded, not run; the spec's scheduler decides when it runs (vm.notes['threads'])
@reg((None, None, 'spawn'))
def _thread_spawn(vm, cal, args):
    if 'threads' not in vm.notes:
        raise Unmodelled("thread::spawn without a thread scheduler in the query")
    vm.notes['threads'].append(args[0])
    return Opaque('JoinHandle', vm.fresh_tag('thread'))


@reg(('JoinHandle', None, 'join'))
def _join_handle(vm, cal, args):
    return OK(())


# ===================================================================== pathfinding: Matrix + kuhn_munkres (contract model)
@reg(('Matrix', None, 'new'))
def _matrix_new(vm, cal, args):
    r, c = args[0].concrete(), args[1].concrete()
    if r is None or c is None:
        raise Unmodelled("Matrix::new with symbolic dimensions")
    return Adt('Matrix', 0, (usize(r), usize(c), VecV(tuple([args[2]] * (r * c)))))


@reg(('Matrix', None, 'get_mut'), ('Matrix', None, 'get'))
def _matrix_get(vm, cal, args):
    ref = as_ref(args[0])
    m = vm.deref(ref)
    rows, cols = m.fields[0].concrete(), m.fields[1].concrete()
    ri, ci = args[1]
    r = ri.concrete() if ri.concrete() is not None else vm.concretize_index(ri, rows + 1)
    c = ci.concrete() if ci.concrete() is not None else vm.concretize_index(ci, cols + 1)
    if r >= rows or c >= cols:
        return NONE
    return SOME(Ref(ref.cell, ref.path + (2, ('idx', r * cols + c))))


@reg(('Matrix', 'Index', 'index'), ('Matrix', 'IndexMut', 'index_mut'))
def _matrix_index(vm, cal, args):
    r = _matrix_get(vm, cal, args)
    if r.variant == 0:
        raise Panic("Matrix index out of bounds")
    return r.fields[0]


@reg(('Matrix', None, 'rows'), ('Matrix', None, 'columns'))
def _matrix_dims(vm, cal, args):
    m = vm.deref(as_ref(args[0]))
    return m.fields[0] if cal.method == 'rows' else m.fields[1]


@reg((None, None, 'kuhn_munkres'))
def _kuhn_munkres(vm, cal, args):
    """contract: returns an assignment row -> distinct column of MAXIMUM total weight (any optimal one).
    Encoded as a nondeterministic choice of the injection + the assumption that no alternative is better."""
    m = vm.deref(as_ref(args[0]))
    rows, cols = m.fields[0].concrete(), m.fields[1].concrete()
    if rows > cols:
        raise Panic("kuhn_munkres: number of rows must not be larger than number of columns")
    data = m.fields[2].items
    w = [[data[r * cols + c] for c in range(cols)] for r in range(rows)]
    injections = list(itertools.permutations(range(cols), rows))

    def total(inj):
        t = z3.BitVecVal(0, 128)
        for r, c in enumerate(inj):
            t = t + z3.SignExt(64, w[r][c].e)
        return t
    totals = [total(o) for o in injections]
    # one condition per injection: "it is optimal". Several may hold at once (ties): every feasible one is explored,
    # infeasible ones are pruned by a single solver query instead of a dead path.
    conds = [z3.And([totals[i] >= t for j, t in enumerate(totals) if j != i] + [z3.BoolVal(True)]) for i in range(len(injections))]
    k = vm.choose(conds, "kuhn_munkres optimum")
    sol = injections[k]
    mine = totals[k]
    return (I(z3.Extract(63, 0, mine), True), VecV(tuple(usize(c) for c in sol)))


@reg(('Vec', None, 'resize'))
def _vec_resize(vm, cal, args):
    r = as_ref(args[0])
    v = vec_at(vm, r)
    n = args[1].concrete()
    if n is None:
        raise Unmodelled("Vec::resize with symbolic length")
    items = list(v.items)[:n] + [args[2]] * max(0, n - len(v.items))
    vm.store(r, VecV(items, v.kind))
    return ()


@reg(('Option', None, 'copied'))
def _o_copied2(vm, cal, args):
    v = _opt(args[0])
    if _is_some(v):
        return SOME(vm.deref(as_ref(v.fields[0])))
    return v


# ===================================================================== nalgebra: matrices as TERMS
# Static matrices / vectors are not computed numerically (float linear algebra is out of reach for the solver): a matrix is
# either a column vector with explicit elements (VM scalar values) or an opaque term op(args). Products, sums, transposes,
# triangular solves, Cholesky factors build terms; element-wise products of explicit vectors are computed element by
# element (exact float terms); indexing an opaque term yields one functional symbolic scalar per (term, index).
# Equal terms denote equal values (soundness); different terms may still be equal (a counterexample built on that does not
# reproduce natively).
class MatT:
    __slots__ = ("op", "args")

    def __init__(self, op, args=()):
        self.op = op
        self.args = tuple(args)

    def key(self):
        return (self.op,) + tuple(a.key() if isinstance(a, MatT) else ('s', repr(a)) for a in self.args)

    def __eq__(self, o):
        return isinstance(o, MatT) and self.key() == o.key()

    def __hash__(self):
        return hash(self.key())

    def __repr__(self):
        return "%s(%s)" % (self.op, ", ".join(repr(a) for a in self.args))


def _mat(vm, v):
    while isinstance(v, Ref):
        v = vm.deref(v)
    if not isinstance(v, MatT):
        raise Unmodelled("matrix term expected, got %r" % (v,))
    return v


def mat_sym(name):
    return MatT('sym', (name,))


def mat_vec(elems):
    return MatT('vec', tuple(elems))


def _mat_elem(vm, m, idx):
    if m.op == 'vec':
        i = idx if isinstance(idx, int) else idx.concrete()
        if i is None:
            raise Unmodelled("symbolic index into an explicit vector")
        if i >= len(m.args):
            raise Panic("matrix index out of bounds")
        return m.args[i]
    cache = vm.notes.setdefault('mat_elems', {})
    ik = idx if isinstance(idx, (int, tuple)) else (idx.concrete() if hasattr(idx, 'concrete') else repr(idx))
    k = (m.key(), ik)
    if k not in cache:
        x = vm.fresh('f32', 'elem')
        vm.assume(z3.And(z3.Not(z3.fpIsNaN(x)), z3.Not(z3.fpIsInf(x))))
        cache[k] = x
    return cache[k]


@reg(('Cow', None, 'Borrowed'), ('Cow', None, 'Owned'))
def _cow_ctor(vm, cal, args):
    return Adt('Cow', 0 if cal.method == 'Borrowed' else 1, (args[0],))


@reg(('Matrix', None, 'len'))
def _mat_len(vm, cal, args):
    m = _mat(vm, args[0])
    if m.op == 'vec':
        return usize(len(m.args))
    n = vm.notes.get('mat_len', {}).get(m.args[0] if m.op == 'sym' else None)
    if n is None:
        raise Unmodelled("length of an opaque matrix term")
    return usize(n)


@reg(('Matrix', 'Index', 'index'))
def _mat_index(vm, cal, args):
    m = _mat(vm, args[0])
    idx = args[1]
    if isinstance(idx, tuple):
        idx = tuple(i.concrete() for i in idx)
    return Ref(Cell(_mat_elem(vm, m, idx), 'mat_elem'))


@reg(('Matrix', None, 'from_iterator'), ('Matrix', None, 'from_vec'), ('Matrix', None, 'from_row_slice'), ('Matrix', None, 'from_column_slice'))
def _mat_from_iter(vm, cal, args):
    xs = drain_iter(vm, into_iter(vm, args[0])) if not isinstance(args[0], (VecV, tuple)) else list(seq_of(vm, args[0]))
    out = []
    for x in xs:
        while isinstance(x, Ref):
            x = vm.deref(x)
        out.append(x)
    return mat_vec(out)


@reg(('Matrix', None, 'from_diagonal'))
def _mat_from_diag(vm, cal, args):
    return MatT('diag', (_mat(vm, args[0]),))


@reg(('Matrix', None, 'identity'))
def _mat_identity(vm, cal, args):
    return MatT('identity', (cal.self_ty or '',))


@reg(('Matrix', None, 'zeros'))
def _mat_zeros(vm, cal, args):
    return MatT('zeros', (cal.self_ty or '',))


@reg(('Matrix', None, 'component_mul'))
def _mat_component_mul(vm, cal, args):
    a, b = _mat(vm, args[0]), _mat(vm, args[1])
    if a.op == 'vec' and b.op == 'vec' and len(a.args) == len(b.args):
        return mat_vec([f_arith('mul', x, y) for x, y in zip(a.args, b.args)])
    return MatT('cmul', (a, b))


@reg(('Matrix', None, 'transpose'))
def _mat_transpose(vm, cal, args):
    a = _mat(vm, args[0])
    if a.op == 'T':
        return a.args[0]
    return MatT('T', (a,))


def _mat_binop(op):
    def g(vm, cal, args):
        return MatT(op, (_mat(vm, args[0]), _mat(vm, args[1])))
    return g


M.table[('Matrix', 'Mul', 'mul')] = _mat_binop('mul')
M.table[('Matrix', 'Add', 'add')] = _mat_binop('add')
M.table[('Matrix', 'Sub', 'sub')] = _mat_binop('sub')


@reg(('Matrix', 'SubAssign', 'sub_assign'), ('Matrix', 'AddAssign', 'add_assign'))
def _mat_op_assign(vm, cal, args):
    r = as_ref(args[0])
    vm.store(r, MatT('sub' if cal.method == 'sub_assign' else 'add', (_mat(vm, r), _mat(vm, args[1]))))
    return ()


@reg(('Matrix', None, 'solve_lower_triangular'), ('Matrix', None, 'solve_upper_triangular'))
def _mat_solve(vm, cal, args):
    return SOME(MatT(cal.method, (_mat(vm, args[0]), _mat(vm, args[1]))))


@reg(('Matrix', None, 'cholesky'))
def _mat_cholesky(vm, cal, args):
    return SOME(MatT('cholesky', (_mat(vm, args[0]),)))


@reg(('Cholesky', None, 'l'), ('Cholesky', None, 'unpack'))
def _chol_l(vm, cal, args):
    return MatT('chol_l', (_mat(vm, args[0]),))


@reg(('Matrix', None, 'sum'), ('Matrix', None, 'norm'), ('Matrix', None, 'norm_squared'), ('Matrix', None, 'determinant'), ('Matrix', None, 'trace'))
def _mat_scalar(vm, cal, args):
    a = _mat(vm, args[0])
    vm.notes['last_%s_term' % cal.method] = a
    return _mat_elem(vm, MatT(cal.method, (a,)), 0)


@reg(('Matrix', None, 'try_inverse'))
def _mat_inverse(vm, cal, args):
    return SOME(MatT('inverse', (_mat(vm, args[0]),)))
