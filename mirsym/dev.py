#!/usr/bin/env python3
"""Development helper (not used by registered checks): run mirsym queries of a property against a cached MIR dump.
usage: python3-vt mirsym/dev.py <Cxx> [substring] [--refresh]"""
import sys, os, time
HERE = os.path.dirname(os.path.abspath(__file__))
sys.path.insert(0, HERE)
sys.path.insert(0, os.path.join(HERE, "..", "vlib"))
sys.path.insert(0, os.path.join(HERE, "..", "props"))
import importlib, subprocess
import engine, mir_engine
CACHE = "/var/tmp/vs"
if "--refresh" in sys.argv:
    sys.argv.remove("--refresh")
    subprocess.check_call(["rsync", "-a", "--delete", "--exclude", "/target", "--exclude", ".git", "/repo/", CACHE + "/repo/"])
    engine.dump_mir(CACHE + "/repo", CACHE + "/similari.mir", CACHE + "/mirtarget")
pid = sys.argv[1]
sub = sys.argv[2] if len(sys.argv) > 2 else ""
mod = importlib.import_module(pid)
for q in mod.MIR:
    if sub in q.name:
        t = time.time()
        o = mir_engine._worker(CACHE + "/similari.mir", CACHE + "/repo", pid, q.name, 0)
        print("%-40s %-12s paths=%d z3=%d (%.1fs solver) %.1fs %s" % (q.name, o["status"], o["paths"], o["queries"], o["solver_s"], time.time() - t, o["detail"][-500:]))
        if o["status"] == "violated":
            print("   cex:", {k: v for k, v in list(o["cex"]["inputs"].items())[:12]}, o["cex"]["info"])
