#!/usr/bin/env python3
"""Development helper (not used by registered checks): run mirsym queries of a property against a cached MIR dump.
usage: python3-vt mirsym/dev.py <Cxx> [substring] [--refresh] [--seed <seed-id>] [--replay]
  --seed: use a cached copy of /repo with seeded/<seed-id>/patch.diff applied (cache /var/tmp/vs-<seed-id>)
  --selftest: render each query's native replay from a model of the first path of the tree as it is and run it: must PASS
  --replay: run the native replay of violated queries (dev + release) and say whether it reproduces"""
import sys, os, time
HERE = os.path.dirname(os.path.abspath(__file__))
sys.path.insert(0, HERE)
sys.path.insert(0, os.path.join(HERE, "..", "vlib"))
sys.path.insert(0, os.path.join(HERE, "..", "props"))
import importlib, subprocess
import engine, mir_engine
CACHE = "/var/tmp/vs"
args = sys.argv[1:]
seed = None
if "--seed" in args:
    i = args.index("--seed")
    seed = args[i + 1]
    del args[i:i + 2]
    CACHE = "/var/tmp/vs-" + seed
selftest = "--selftest" in args
if selftest:
    args.remove("--selftest")
    os.environ["VERIF_REPLAY_SELFTEST"] = "1"
do_replay = "--replay" in args
if do_replay:
    args.remove("--replay")
refresh = "--refresh" in args
if refresh:
    args.remove("--refresh")
pid = [a for a in args if not a.startswith("--")][0]
FEATS = getattr(importlib.import_module(pid), "MIR_FEATURES", None)
MIRFILE = CACHE + "/similari%s.mir" % ("-" + FEATS if FEATS else "")
if refresh or not os.path.exists(MIRFILE):
    os.makedirs(CACHE, exist_ok=True)
    subprocess.check_call(["rsync", "-a", "--delete", "--exclude", "/target", "--exclude", ".git", "/repo/", CACHE + "/repo/"])
    if seed:
        subprocess.check_call(["patch", "-s", "-p1", "-i", os.path.join(HERE, "..", "seeded", seed, "patch.diff")], cwd=CACHE + "/repo")
    engine.dump_mir(CACHE + "/repo", MIRFILE, CACHE + "/mirtarget", FEATS)
pid = args[0]
sub = args[1] if len(args) > 1 else ""
mod = importlib.import_module(pid)


class Sc:
    dir = CACHE
    repo = CACHE + "/repo"


for q in mod.MIR:
    if sub in q.name:
        t = time.time()
        o = mir_engine._worker(MIRFILE, CACHE + "/repo", pid, q.name, 0)
        print("%-40s %-12s paths=%d z3=%d (%.1fs solver) %.1fs %s" % (q.name, o["status"], o["paths"], o["queries"], o["solver_s"], time.time() - t, o["detail"][-500:]))
        if o["status"] == "selftest":
            n = mir_engine.native_replay(Sc, o["selftest_src"])
            print("   SELFTEST %s: replay rendered from a model of the unchanged tree fails in %s profile(s) -> %s" % (q.name, n, "OK" if n == 0 else "BROKEN TEMPLATE"))
            if n != 0:
                open(CACHE + "/broken_%s.rs" % q.name, "w").write(o["selftest_src"])
        if o["status"] == "violated":
            print("   cex:", {k: v for k, v in list(o["cex"]["inputs"].items())[:16]}, o["cex"]["info"])
            if do_replay:
                if not o["replay_src"]:
                    print("   NO REPLAY SOURCE")
                else:
                    open(CACHE + "/last_replay.rs", "w").write(o["replay_src"])
                    n = mir_engine.native_replay(Sc, o["replay_src"])
                    print("   native replay fails in %s profile(s) (source: %s/last_replay.rs)" % (n, CACHE))
