"""Light-weight reader of Rust source declarations (struct field order, enum variant order, impl headers,
trait names). Only what the MIR executor needs to name fields/variants and to resolve call sites."""
import os, re
from mirparse import find_matching, split_top


def strip_comments(src):
    out = []
    i = 0
    n = len(src)
    while i < n:
        if src.startswith('//', i):
            j = src.find('\n', i)
            if j < 0:
                j = n
            i = j
        elif src.startswith('/*', i):
            j = src.find('*/', i)
            out.append(' ' * 0)
            # keep newlines for line numbers
            out.append('\n' * src[i:j + 2].count('\n'))
            i = j + 2
        elif src[i] == '"':
            j = i + 1
            while j < n and src[j] != '"':
                if src[j] == '\\':
                    j += 1
                j += 1
            out.append('""' + '\n' * src[i:j + 1].count('\n'))
            i = j + 1
        else:
            out.append(src[i])
            i += 1
    return ''.join(out)


def base_name(ty):
    """last path segment of a type without generics / refs:  `&mut std::vec::Vec<u64>` -> `Vec`"""
    t = ty.strip()
    while True:
        if t.startswith('&'):
            t = t[1:].lstrip()
            if t.startswith("'"):
                t = t.split(' ', 1)[1] if ' ' in t else t
            if t.startswith('mut '):
                t = t[4:]
            continue
        if t.startswith('*const ') or t.startswith('*mut '):
            t = t.split(' ', 1)[1]
            continue
        if t.startswith('dyn '):
            t = t[4:]
            continue
        break
    if t.startswith('<'):
        return t
    if t.startswith('[') or t.startswith('(') or t.startswith('{'):
        return t
    i = 0
    depth = 0
    cut = len(t)
    for i, c in enumerate(t):
        if c == '<':
            cut = i
            break
    head = t[:cut]
    if head.endswith('::'):
        head = head[:-2]
    return head.split('::')[-1].strip()


def generic_args(ty):
    """top-level generic args of the last path segment: `Track<TA, M>` or `Track::<TA, M>` -> ['TA','M']"""
    t = ty.strip()
    i = t.find('<')
    if i < 0 or t.startswith('<'):
        return []
    j = find_matching(t, i)
    return [a for a in split_top(t[i + 1:j]) if not a.startswith("'")]


class Decls:
    def __init__(self, root):
        self.root = root
        self.structs = {}   # name -> [field names]  (tuple structs: ['0','1',..])
        self.struct_field_types = {}   # name -> [field type text] (same order)
        self.enums = {}     # name -> [(variant name, [field names])]
        self.traits = set()
        self.trait_generics = {}
        self.assoc_types = {}   # (self type base, trait, associated name) -> type text
        self.impls = {}     # (relfile, line) -> dict(generics=[..], trait=str|None, trait_full, self_ty=str, self_base)
        self.files = {}
        for dp, dn, fn in os.walk(os.path.join(root, 'src')):
            for f in fn:
                if f.endswith('.rs'):
                    p = os.path.join(dp, f)
                    rel = os.path.relpath(p, root)
                    raw = open(p).read()
                    self.files[rel] = raw
                    self._scan(rel, strip_comments(raw))
        # builtin enums
        self.enums.setdefault('Option', [('None', []), ('Some', ['0'])])
        self.enums.setdefault('Result', [('Ok', ['0']), ('Err', ['0'])])
        self.enums.setdefault('Ordering', [('Less', []), ('Equal', []), ('Greater', [])])
        self.enums.setdefault('Cow', [('Borrowed', ['0']), ('Owned', ['0'])])

    def _scan(self, rel, src):
        for m in re.finditer(r'\b(pub(\([a-z]+\))?\s+)?struct\s+(\w+)', src):
            name = m.group(3)
            i = m.end()
            # skip generics
            while i < len(src) and src[i].isspace():
                i += 1
            if i < len(src) and src[i] == '<':
                i = find_matching(src, i) + 1
            # find body start: '{' , '(' or ';'
            j = i
            depth = 0
            while j < len(src) and src[j] not in '{(;':
                j += 1
            if j >= len(src) or src[j] == ';':
                self.structs.setdefault(name, [])
                continue
            if src[j] == '(':
                k = find_matching(src, j)
                parts = split_top(src[j + 1:k])
                n = len(parts)
                if name not in self.structs:
                    self.struct_field_types[name] = [re.sub(r'^\s*(#\[[^\]]*\]\s*)*(pub(\([a-z]+\))?\s+)?', '', x).strip() for x in parts]
                self.structs.setdefault(name, [str(x) for x in range(n)])
                continue
            # could be a where clause before '{'
            k = find_matching(src, j)
            body = src[j + 1:k]
            fields = []
            ftypes = []
            for f in split_top(body):
                f = re.sub(r'#\[[^\]]*\]', '', f).strip()
                mm = re.match(r'(pub(\([a-z]+\))?\s+)?(\w+)\s*:', f)
                if mm:
                    fields.append(mm.group(3))
                    ftypes.append(' '.join(f[mm.end():].split()))
            if name not in self.structs:
                self.struct_field_types[name] = ftypes
            self.structs.setdefault(name, fields)
        for m in re.finditer(r'\b(pub(\([a-z]+\))?\s+)?enum\s+(\w+)', src):
            name = m.group(3)
            j = src.find('{', m.end())
            k = find_matching(src, j)
            body = src[j + 1:k]
            variants = []
            for v in split_top(body):
                v = re.sub(r'#\[[^\]]*\]', '', v, flags=re.S).strip()
                if not v:
                    continue
                mm = re.match(r'(\w+)\s*(.*)$', v, re.S)
                vname = mm.group(1)
                rest = mm.group(2).strip()
                if rest.startswith('('):
                    kk = find_matching(rest, 0)
                    n = len(split_top(rest[1:kk]))
                    variants.append((vname, [str(x) for x in range(n)]))
                elif rest.startswith('{'):
                    kk = find_matching(rest, 0)
                    fs = []
                    for f in split_top(rest[1:kk]):
                        mm2 = re.match(r'\s*(\w+)\s*:', f)
                        if mm2:
                            fs.append(mm2.group(1))
                    variants.append((vname, fs))
                else:
                    variants.append((vname, []))
            self.enums.setdefault(name, variants)
        for m in re.finditer(r'\b(pub(\([a-z]+\))?\s+)?trait\s+(\w+)', src):
            self.traits.add(m.group(3))
            i = m.end()
            gens = []
            if i < len(src) and src[i] == '<':
                k = find_matching(src, i)
                for g in split_top(src[i + 1:k]):
                    g = g.strip()
                    if not g.startswith("'"):
                        gens.append(re.split(r'[:\s=]', g)[0])
            self.trait_generics[m.group(3)] = gens
        # impl headers
        for m in re.finditer(r'(?m)^\s*(unsafe\s+)?impl\b', src):
            start = m.start() + (len(m.group(0)) - len(m.group(0).lstrip()))
            line = src.count('\n', 0, start) + 1
            j = src.find('{', m.end())
            if j < 0:
                continue
            head = src[m.end():j]
            head = head.split(' where ')[0].split('\nwhere')[0].strip()
            generics = []
            if head.startswith('<'):
                k = find_matching(head, 0)
                for g in split_top(head[1:k]):
                    g = g.strip()
                    if g.startswith("'"):
                        continue
                    if g.startswith('const '):
                        g = g[6:]
                    generics.append(re.split(r'[:\s=]', g)[0])
                head = head[k + 1:].strip()
            trait = None
            trait_full = None
            parts = re.split(r'\s+for\s+', head)
            if len(parts) == 2:
                trait_full = ' '.join(parts[0].split())
                trait = base_name(trait_full)
                self_ty = ' '.join(parts[1].split())
            else:
                self_ty = ' '.join(head.split())
            assoc = {}
            try:
                k = find_matching(src, j)
                for am in re.finditer(r'\btype\s+(\w+)\s*=\s*([^;]+);', src[j + 1:k]):
                    assoc[am.group(1)] = ' '.join(am.group(2).split())
            except Exception:
                pass
            self.impls[(rel, line)] = dict(generics=generics, trait=trait, trait_full=trait_full, self_ty=self_ty,
                                           self_base=base_name(self_ty), assoc=assoc)
            if trait is not None:
                for an, av in assoc.items():
                    self.assoc_types[(base_name(self_ty), trait, an)] = av

    def derive_at(self, rel, line, col):
        """an `<impl at file:line:col>` that points into #[derive(...)]: returns (trait, self type name)"""
        src = self.files.get(rel)
        if src is None:
            return None
        lines = src.split('\n')
        text = lines[line - 1]
        m = re.match(r'\w+', text[col - 1:])
        if not m or 'derive' not in text:
            return None
        trait = m.group()
        for l in lines[line:]:
            mm = re.search(r'\b(struct|enum)\s+(\w+)', l)
            if mm:
                return trait, mm.group(2)
        return None

    def variant_index(self, enum, vname):
        for i, (n, _) in enumerate(self.enums[enum]):
            if n == vname:
                return i
        raise KeyError((enum, vname))

    def field_index(self, struct, fname):
        return self.structs[struct].index(fname)
