"""Value domain of the MIR symbolic VM. All values are immutable; only Cells are mutable."""
import z3

RNE = z3.RNE()
F32 = z3.Float32()
F64 = z3.Float64()


class Cell:
    __slots__ = ("v", "name")
    _n = 0

    def __init__(self, v=None, name=""):
        self.v = v
        self.name = name

    def __repr__(self):
        return "Cell(%s)" % (self.name,)


class Uninit:
    def __repr__(self):
        return "Uninit"


UNINIT = Uninit()


class Ref:
    """pointer/reference to a place = (cell, path). Box/Arc/Rc/raw pointers are Refs as well."""
    __slots__ = ("cell", "path", "transparent")

    def __init__(self, cell, path=(), transparent=False):
        self.cell = cell
        self.path = tuple(path)
        self.transparent = transparent  # raw box being initialised: field projections are ignored

    def __repr__(self):
        return "Ref(%s%s)" % (self.cell, "".join("/%s" % (p,) for p in self.path))


class I:
    """machine integer: z3 bit-vector + signedness"""
    __slots__ = ("e", "signed")

    def __init__(self, e, signed):
        self.e = e
        self.signed = signed

    @property
    def bits(self):
        return self.e.size()

    def concrete(self):
        s = z3.simplify(self.e)
        if z3.is_bv_value(s):
            return s.as_signed_long() if self.signed else s.as_long()
        return None

    def __repr__(self):
        c = self.concrete()
        return ("%d" % c) if c is not None else "I(%s)" % self.e


def mk_int(v, bits=64, signed=False):
    return I(z3.BitVecVal(v, bits), signed)


def usize(v):
    return mk_int(v, 64, False)


class Adt:
    """struct (variant 0) or enum value"""
    __slots__ = ("ty", "variant", "fields")

    def __init__(self, ty, variant, fields=()):
        self.ty = ty
        self.variant = variant  # python int
        self.fields = tuple(fields)

    def __repr__(self):
        return "%s#%s%s" % (self.ty, self.variant, list(self.fields))


class VecV:
    """Vec / slice contents / VecDeque / arrays-on-heap: an immutable sequence"""
    __slots__ = ("items", "kind")

    def __init__(self, items=(), kind="Vec"):
        self.items = tuple(items)
        self.kind = kind

    def __repr__(self):
        return "%s%s" % (self.kind, list(self.items))


class MapV:
    """HashMap/HashSet/BTreeMap as an association list with *distinct* keys (distinctness is part of the path
    condition: key comparisons fork). For sets the value is ()."""
    __slots__ = ("items", "kind")

    def __init__(self, items=(), kind="HashMap"):
        self.items = tuple(items)
        self.kind = kind

    def __repr__(self):
        return "%s%s" % (self.kind, list(self.items))


class Opaque:
    """value of a generic (unresolved) type; `ver` changes when an environment callback may have mutated it"""
    __slots__ = ("ty", "tag", "ver")

    def __init__(self, ty, tag, ver=0):
        self.ty = ty
        self.tag = tag
        self.ver = ver

    def __eq__(self, o):
        return isinstance(o, Opaque) and (self.ty, self.tag, self.ver) == (o.ty, o.tag, o.ver)

    def __hash__(self):
        return hash((self.ty, self.tag, self.ver))

    def __repr__(self):
        return "<%s:%s.%s>" % (self.ty, self.tag, self.ver)


class Closure:
    __slots__ = ("name", "caps", "env")

    def __init__(self, name, caps, env):
        self.name = name
        self.caps = tuple(caps)
        self.env = env

    def __repr__(self):
        return "Closure(%s)" % self.name


class FnItem:
    __slots__ = ("path", "env")

    def __init__(self, path, env):
        self.path = path
        self.env = env

    def __repr__(self):
        return "FnItem(%s)" % self.path


class Iter:
    """lazy iterator pipeline: source items (python list, already materialised) + position, or a generator-like
    adaptor chain evaluated on demand by the models."""
    __slots__ = ("kind", "a")

    def __init__(self, kind, **a):
        self.kind = kind
        self.a = a

    def __repr__(self):
        return "Iter(%s)" % self.kind


def is_scalar(v):
    return isinstance(v, I) or z3.is_expr(v)


# ------------------------------------------------------------------ navigation
def get_path(v, path):
    for p in path:
        v = step(v, p)
    return v


def step(v, p):
    if isinstance(p, int):
        if isinstance(v, Adt):
            return v.fields[p]
        if isinstance(v, tuple):
            return v[p]
        if isinstance(v, Closure):
            return v.caps[p]
        if isinstance(v, (Ref,)):
            return v  # Unique/NonNull/Box internals: transparent
        raise TypeError("field %s of %r" % (p, v))
    if p[0] == 'idx':
        if isinstance(v, (VecV, MapV)):
            return v.items[p[1]]
        return v[p[1]]
    raise TypeError("step %r" % (p,))


def set_path(v, path, new):
    if not path:
        return new
    p = path[0]
    if isinstance(p, int):
        if isinstance(v, Adt):
            f = list(v.fields)
            f[p] = set_path(f[p], path[1:], new)
            return Adt(v.ty, v.variant, f)
        if isinstance(v, tuple):
            f = list(v)
            f[p] = set_path(f[p], path[1:], new)
            return tuple(f)
        if isinstance(v, Closure):
            f = list(v.caps)
            f[p] = set_path(f[p], path[1:], new)
            return Closure(v.name, f, v.env)
        if v is UNINIT or v is None:
            # partially initialised aggregate: grow a tuple
            f = [UNINIT] * (p + 1)
            f[p] = set_path(UNINIT, path[1:], new)
            return tuple(f)
        raise TypeError("set field %s of %r" % (p, v))
    if p[0] == 'idx':
        if isinstance(v, VecV):
            f = list(v.items)
            f[p[1]] = set_path(f[p[1]], path[1:], new)
            return VecV(f, v.kind)
        if isinstance(v, MapV):
            f = list(v.items)
            f[p[1]] = set_path(f[p[1]], path[1:], new)
            return MapV(f, v.kind)
        f = list(v)
        f[p[1]] = set_path(f[p[1]], path[1:], new)
        return tuple(f)
    raise TypeError("set step %r" % (p,))
