"""Value domain of the MIR symbolic VM. All values are immutable; only Cells are mutable."""
import z3

RNE = z3.RNE()
F32 = z3.Float32()
F64 = z3.Float64()


class Cell:
    __slots__ = ("v", "name")
    _n = 0

    def __init__(self, v=None, name=""):
        self.v = v
        self.name = name

    def __repr__(self):
        return "Cell(%s)" % (self.name,)


class Uninit:
    def __repr__(self):
        return "Uninit"


UNINIT = Uninit()


class Ref:
    """pointer/reference to a place = (cell, path). Box/Arc/Rc/raw pointers are Refs as well."""
    __slots__ = ("cell", "path", "transparent")

    def __init__(self, cell, path=(), transparent=False):
        self.cell = cell
        self.path = tuple(path)
        self.transparent = transparent  # raw box being initialised: field projections are ignored

    def __repr__(self):
        return "Ref(%s%s)" % (self.cell, "".join("/%s" % (p,) for p in self.path))


class I:
    """machine integer: z3 bit-vector + signedness"""
    __slots__ = ("e", "signed")

    def __init__(self, e, signed):
        self.e = e
        self.signed = signed

    @property
    def bits(self):
        return self.e.size()

    def concrete(self):
        s = z3.simplify(self.e)
        if z3.is_bv_value(s):
            return s.as_signed_long() if self.signed else s.as_long()
        return None

    def __repr__(self):
        c = self.concrete()
        return ("%d" % c) if c is not None else "I(%s)" % self.e


def mk_int(v, bits=64, signed=False):
    return I(z3.BitVecVal(v, bits), signed)


def usize(v):
    return mk_int(v, 64, False)


class Adt:
    """struct (variant 0) or enum value"""
    __slots__ = ("ty", "variant", "fields")

    def __init__(self, ty, variant, fields=()):
        self.ty = ty
        self.variant = variant  # python int
        self.fields = tuple(fields)

    def __repr__(self):
        return "%s#%s%s" % (self.ty, self.variant, list(self.fields))


class VecV:
    """Vec / slice contents / VecDeque / arrays-on-heap: an immutable sequence"""
    __slots__ = ("items", "kind")

    def __init__(self, items=(), kind="Vec"):
        self.items = tuple(items)
        self.kind = kind

    def __repr__(self):
        return "%s%s" % (self.kind, list(self.items))


class MapV:
    """HashMap/HashSet/BTreeMap as an association list with *distinct* keys (distinctness is part of the path
    condition: key comparisons fork). For sets the value is ()."""
    __slots__ = ("items", "kind")

    def __init__(self, items=(), kind="HashMap"):
        self.items = tuple(items)
        self.kind = kind

    def __repr__(self):
        return "%s%s" % (self.kind, list(self.items))


class Opaque:
    """value of a generic (unresolved) type; `ver` changes when an environment callback may have mutated it"""
    __slots__ = ("ty", "tag", "ver")

    def __init__(self, ty, tag, ver=0):
        self.ty = ty
        self.tag = tag
        self.ver = ver

    def __eq__(self, o):
        return isinstance(o, Opaque) and (self.ty, self.tag, self.ver) == (o.ty, o.tag, o.ver)

    def __hash__(self):
        return hash((self.ty, self.tag, self.ver))

    def __repr__(self):
        return "<%s:%s.%s>" % (self.ty, self.tag, self.ver)


class Closure:
    __slots__ = ("name", "caps", "env")

    def __init__(self, name, caps, env):
        self.name = name
        self.caps = tuple(caps)
        self.env = env

    def __repr__(self):
        return "Closure(%s)" % self.name


class FnItem:
    __slots__ = ("path", "env")

    def __init__(self, path, env):
        self.path = path
        self.env = env

    def __repr__(self):
        return "FnItem(%s)" % self.path


class Iter:
    """lazy iterator pipeline: source items (python list, already materialised) + position, or a generator-like
    adaptor chain evaluated on demand by the models."""
    __slots__ = ("kind", "a")

    def __init__(self, kind, **a):
        self.kind = kind
        self.a = a

    def __repr__(self):
        return "Iter(%s)" % self.kind


def is_scalar(v):
    return isinstance(v, I) or z3.is_expr(v)


# ------------------------------------------------------------------ navigation
def get_path(v, path):
    for p in path:
        v = step(v, p)
    return v


def step(v, p):
    if isinstance(p, int):
        if isinstance(v, Adt):
            return v.fields[p]
        if isinstance(v, tuple):
            return v[p]
        if isinstance(v, Closure):
            return v.caps[p]
        if isinstance(v, (Ref,)):
            return v  # Unique/NonNull/Box internals: transparent
        raise TypeError("field %s of %r" % (p, v))
    if p[0] == 'idx':
        if isinstance(v, (VecV, MapV)):
            return v.items[p[1]]
        return v[p[1]]
    raise TypeError("step %r" % (p,))


def set_path(v, path, new):
    if not path:
        return new
    p = path[0]
    if isinstance(p, int):
        if isinstance(v, Adt):
            f = list(v.fields)
            f[p] = set_path(f[p], path[1:], new)
            return Adt(v.ty, v.variant, f)
        if isinstance(v, tuple):
            f = list(v)
            f[p] = set_path(f[p], path[1:], new)
            return tuple(f)
        if isinstance(v, Closure):
            f = list(v.caps)
            f[p] = set_path(f[p], path[1:], new)
            return Closure(v.name, f, v.env)
        if v is UNINIT or v is None:
            # partially initialised aggregate: grow a tuple
            f = [UNINIT] * (p + 1)
            f[p] = set_path(UNINIT, path[1:], new)
            return tuple(f)
        raise TypeError("set field %s of %r" % (p, v))
    if p[0] == 'idx':
        if isinstance(v, VecV):
            f = list(v.items)
            f[p[1]] = set_path(f[p[1]], path[1:], new)
            return VecV(f, v.kind)
        if isinstance(v, MapV):
            f = list(v.items)
            f[p[1]] = set_path(f[p[1]], path[1:], new)
            return MapV(f, v.kind)
        f = list(v)
        f[p[1]] = set_path(f[p[1]], path[1:], new)
        return tuple(f)
    raise TypeError("set step %r" % (p,))


# ------------------------------------------------------------------ exact finite-valued floats ("grid floats")
import numpy as _np
import struct as _struct

_np.seterr(all='ignore')


def _npty(sort):
    return _np.float32 if sort == F32 else _np.float64


def _bits(v):
    if isinstance(v, _np.float32):
        return (32, _struct.unpack('<I', _struct.pack('<f', float(v)))[0])
    return (64, _struct.unpack('<Q', _struct.pack('<d', float(v)))[0])


def np_to_z3(v, sort):
    f = float(v)
    if f != f:
        return z3.fpNaN(sort)
    if f == float('inf'):
        return z3.fpPlusInfinity(sort)
    if f == float('-inf'):
        return z3.fpMinusInfinity(sort)
    if f == 0.0 and _np.signbit(v):
        return z3.fpMinusZero(sort)
    return z3.FPVal(f, sort)


def z3_to_np(v, sort):
    """z3 FP numeral -> numpy scalar (exact)"""
    s = z3.simplify(z3.fpToIEEEBV(v))
    if not z3.is_bv_value(s):
        return None
    n = s.as_long()
    if sort == F32:
        return _np.float32(_struct.unpack('<f', _struct.pack('<I', n))[0])
    return _np.float64(_struct.unpack('<d', _struct.pack('<Q', n))[0])


FS_ARITH = {'add': lambda a, b: a + b, 'sub': lambda a, b: a - b, 'mul': lambda a, b: a * b, 'div': lambda a, b: a / b,
            'max': lambda a, b: b if a != a else (a if b != b else (a if a >= b else b)),
            'min': lambda a, b: b if a != a else (a if b != b else (a if a <= b else b))}
FS_REL = {'lt': lambda a, b: bool(a < b), 'le': lambda a, b: bool(a <= b), 'gt': lambda a, b: bool(a > b),
          'ge': lambda a, b: bool(a >= b), 'eq': lambda a, b: bool(a == b), 'ne': lambda a, b: bool(a != b)}
FS_UN = {'neg': lambda a: -a, 'abs': lambda a: abs(a), 'sqrt': lambda a: _np.sqrt(a), 'floor': lambda a: _np.floor(a)}
Z3_ARITH = {'add': lambda a, b: z3.fpAdd(RNE, a, b), 'sub': lambda a, b: z3.fpSub(RNE, a, b), 'mul': lambda a, b: z3.fpMul(RNE, a, b),
            'div': lambda a, b: z3.fpDiv(RNE, a, b),
            'max': lambda a, b: z3.If(z3.fpIsNaN(a), b, z3.If(z3.fpIsNaN(b), a, z3.If(z3.fpGEQ(a, b), a, b))),
            'min': lambda a, b: z3.If(z3.fpIsNaN(a), b, z3.If(z3.fpIsNaN(b), a, z3.If(z3.fpLEQ(a, b), a, b)))}
Z3_REL = {'lt': z3.fpLT, 'le': z3.fpLEQ, 'gt': z3.fpGT, 'ge': z3.fpGEQ, 'eq': z3.fpEQ, 'ne': lambda a, b: z3.Not(z3.fpEQ(a, b))}
Z3_UN = {'neg': z3.fpNeg, 'abs': z3.fpAbs, 'sqrt': lambda a: z3.fpSqrt(RNE, a), 'floor': lambda a: z3.fpRoundToIntegral(z3.RTN(), a)}


class FSet:
    """a float that takes one of finitely many concrete values, each under a z3 condition (mutually exclusive,
    jointly exhaustive). Arithmetic is folded per value with IEEE-754 binary32/binary64 operations (numpy scalars,
    round-to-nearest-even: the same results z3's FP theory gives on numerals), so the solver only sees the Boolean
    structure over the selector variables - exact float semantics without bit-blasting floating point."""
    __slots__ = ("sort", "cases")
    LIMIT = 20000

    def __init__(self, sort, cases):
        self.sort = sort
        merged = {}
        order = []
        for v, c in cases:
            if z3.is_false(c):
                continue
            key = _bits(v)
            if key in merged:
                merged[key] = (v, z3.Or(merged[key][1], c))
            else:
                merged[key] = (v, c)
                order.append(key)
        self.cases = [merged[k] for k in order]
        if len(self.cases) > FSet.LIMIT:
            raise OverflowError("FSet with %d distinct values" % len(self.cases))

    @staticmethod
    def const(v):
        sort = v.sort()
        return FSet(sort, [(z3_to_np(v, sort), z3.BoolVal(True))])

    @staticmethod
    def select(sel, values, sort=None):
        """value values[i] when bit-vector sel == i (last value otherwise)"""
        sort = F32 if sort is None else sort
        ty = _npty(sort)
        cases = []
        rest = []
        for i, x in enumerate(values[:-1]):
            assert float(ty(x)) == float(x), "grid value %r is not exactly representable" % (x,)
            cases.append((ty(x), sel == i))
            rest.append(sel != i)
        cases.append((ty(values[-1]), z3.And(rest) if rest else z3.BoolVal(True)))
        return FSet(sort, cases)

    def to_z3(self):
        e = np_to_z3(self.cases[-1][0], self.sort)
        for v, c in reversed(self.cases[:-1]):
            e = z3.If(c, np_to_z3(v, self.sort), e)
        return e

    def map(self, op, sort=None):
        sort = self.sort if sort is None else sort
        ty = _npty(sort)
        if op == 'to':
            return FSet(sort, [(ty(v), c) for v, c in self.cases])
        return FSet(sort, [(ty(FS_UN[op](v)), c) for v, c in self.cases])

    def __repr__(self):
        return "FSet(%s)" % ", ".join(str(v) for v, _ in self.cases[:8])


def as_fset(x):
    if isinstance(x, FSet):
        return x
    if z3.is_fp_value(x):
        return FSet.const(x)
    return None


def both_fset(a, b):
    return (isinstance(a, FSet) or isinstance(b, FSet)) and (isinstance(a, FSet) or z3.is_fp_value(a)) and (isinstance(b, FSet) or z3.is_fp_value(b))


def fs_bin(op, a, b):
    """arithmetic on two grid floats -> grid float"""
    A, B = as_fset(a), as_fset(b)
    f = FS_ARITH[op]
    ty = _npty(A.sort)
    out = []
    for va, ca in A.cases:
        for vb, cb in B.cases:
            out.append((ty(f(va, vb)), _and(ca, cb)))
    return FSet(A.sort, out)


def _and(a, b):
    if z3.is_true(a):
        return b
    if z3.is_true(b):
        return a
    return z3.And(a, b)


def fs_rel(op, a, b):
    """relation on two grid floats -> z3 Bool"""
    A, B = as_fset(a), as_fset(b)
    f = FS_REL[op]
    out = []
    for va, ca in A.cases:
        for vb, cb in B.cases:
            if f(va, vb):
                out.append(_and(ca, cb))
    if not out:
        return z3.BoolVal(False)
    return z3.simplify(z3.Or(out)) if len(out) > 1 else out[0]


def fs_ite(cond, a, b):
    A, B = as_fset(a), as_fset(b)
    nc = z3.Not(cond)
    return FSet(A.sort, [(v, _and(cond, c)) for v, c in A.cases] + [(v, _and(nc, c)) for v, c in B.cases])


def isfp(x):
    return isinstance(x, FSet) or z3.is_fp(x)


def fp_plain(x):
    return x.to_z3() if isinstance(x, FSet) else x


def f_arith(op, a, b):
    if both_fset(a, b):
        return fs_bin(op, a, b)
    return Z3_ARITH[op](fp_plain(a), fp_plain(b))


def f_rel(op, a, b):
    if both_fset(a, b):
        return fs_rel(op, a, b)
    return Z3_REL[op](fp_plain(a), fp_plain(b))


def f_un(op, a):
    if isinstance(a, FSet):
        return a.map(op)
    return Z3_UN[op](a)


def f_ite(c, a, b):
    if both_fset(a, b):
        return fs_ite(c, a, b)
    return z3.If(c, fp_plain(a), fp_plain(b))


def f_to(a, sort):
    if isinstance(a, FSet):
        return a.map('to', sort)
    return z3.fpFPToFP(RNE, a, sort)
