"""Parser for rustc's -Zunpretty=mir text dump (the subset that appears for this crate)."""
import re

# ---------------------------------------------------------------- balanced helpers
OPEN = {'(': ')', '[': ']', '{': '}', '<': '>'}
CLOSE = {')', ']', '}', '>'}


def find_matching(s, i):
    """s[i] is an opening bracket; return index of the matching closing one ('->' and '=>' do not close '<')."""
    stack = []
    n = len(s)
    j = i
    instr = False
    while j < n:
        c = s[j]
        if instr:
            if c == '\\':
                j += 2
                continue
            if c == '"':
                instr = False
        elif c == '"':
            instr = True
        elif c in OPEN:
            stack.append(OPEN[c])
        elif c in CLOSE:
            if c == '>' and j > 0 and s[j - 1] in '-=':
                pass
            elif c == '>' and (not stack or stack[-1] != '>'):
                pass  # comparison / shift in const exprs; ignore
            else:
                # tolerate unbalanced '<' (e.g. `a < b` in types does not occur); pop until match
                while stack and stack[-1] != c:
                    stack.pop()
                if stack:
                    stack.pop()
                if not stack:
                    return j
        j += 1
    raise ValueError("unbalanced: " + s[i:i + 80])


def split_top(s, sep=','):
    """split at top-level separators"""
    out = []
    depth = 0
    cur = []
    instr = False
    i = 0
    n = len(s)
    while i < n:
        c = s[i]
        if instr:
            cur.append(c)
            if c == '\\' and i + 1 < n:
                cur.append(s[i + 1])
                i += 2
                continue
            if c == '"':
                instr = False
        elif c == '"':
            instr = True
            cur.append(c)
        elif c in '([{':
            depth += 1
            cur.append(c)
        elif c in ')]}':
            depth -= 1
            cur.append(c)
        elif c == '<':
            depth += 1
            cur.append(c)
        elif c == '>':
            if i > 0 and s[i - 1] in '-=':
                cur.append(c)
            else:
                depth -= 1
                cur.append(c)
        elif c == sep and depth == 0:
            out.append(''.join(cur).strip())
            cur = []
        else:
            cur.append(c)
        i += 1
    last = ''.join(cur).strip()
    if last:
        out.append(last)
    return out


# ---------------------------------------------------------------- AST
class Place:
    __slots__ = ("local", "proj")

    def __init__(self, local, proj=()):
        self.local = local
        self.proj = tuple(proj)  # elements: ('deref',) ('field', i, ty) ('variant', name) ('index', local) ('constindex', i, fromend) ('subslice', a, b, fromend)

    def __repr__(self):
        return "Place(_%s%s)" % (self.local, "".join("." + str(p) for p in self.proj))


class Operand:
    __slots__ = ("kind", "place", "const")

    def __init__(self, kind, place=None, const=None):
        self.kind = kind  # copy | move | const
        self.place = place
        self.const = const

    def __repr__(self):
        return "%s %s" % (self.kind, self.place if self.place is not None else self.const)


class Rvalue:
    __slots__ = ("kind", "a")

    def __init__(self, kind, **a):
        self.kind = kind
        self.a = a

    def __repr__(self):
        return "Rv(%s %s)" % (self.kind, self.a)


class Stmt:
    __slots__ = ("kind", "place", "rv", "text", "extra")

    def __init__(self, kind, place=None, rv=None, text="", extra=None):
        self.kind = kind
        self.place = place
        self.rv = rv
        self.text = text
        self.extra = extra


class Term:
    __slots__ = ("kind", "a", "text")

    def __init__(self, kind, text="", **a):
        self.kind = kind
        self.a = a
        self.text = text


class Block:
    def __init__(self, idx, cleanup):
        self.idx = idx
        self.cleanup = cleanup
        self.stmts = []
        self.term = None


class Fn:
    def __init__(self, name, params, ret):
        self.name = name
        self.params = params  # list of (local, type)
        self.ret = ret
        self.locals = {}  # idx -> type
        self.blocks = {}
        self.line = 0
        self.debug = {}  # source name -> place text

    def __repr__(self):
        return "Fn(%s)" % self.name


# ---------------------------------------------------------------- places / operands
_num = re.compile(r'\d+')


def parse_place(s):
    s = s.strip()
    p, rest = _place(s, 0)
    if rest != len(s):
        raise ValueError("trailing place text: %r in %r" % (s[rest:], s))
    return p


def _place(s, i):
    """returns (Place, next index)"""
    if s[i] == '_':
        m = _num.match(s, i + 1)
        base = Place(int(m.group()))
        i = m.end()
    elif s[i] == '(':
        if s[i + 1] == '*':
            inner, j = _place(s, i + 2)
            assert s[j] == ')', s
            base = Place(inner.local, inner.proj + (('deref',),))
            i = j + 1
        else:
            inner, j = _place(s, i + 1)
            if s.startswith(' as ', j):
                k = s.index(')', j)
                base = Place(inner.local, inner.proj + (('variant', s[j + 4:k].strip()),))
                i = k + 1
            elif s[j] == '.':
                m = _num.match(s, j + 1)
                fld = int(m.group())
                k = m.end()
                assert s.startswith(': ', k), s
                close = find_matching(s, i)
                ty = s[k + 2:close]
                base = Place(inner.local, inner.proj + (('field', fld, ty),))
                i = close + 1
            else:
                raise ValueError("place? " + s[i:])
    else:
        raise ValueError("place? " + s[i:])
    # postfix index
    while i < len(s) and s[i] == '[':
        k = find_matching(s, i)
        inside = s[i + 1:k]
        if inside.startswith('_'):
            base = Place(base.local, base.proj + (('index', int(inside[1:])),))
        elif ' of ' in inside:
            a, b = inside.split(' of ')
            fromend = a.startswith('-')
            base = Place(base.local, base.proj + (('constindex', int(a.lstrip('-')), fromend),))
        elif ':' in inside or '..' in inside:
            a, b = re.split(r':|\.\.', inside)
            fromend = b.startswith('-')
            base = Place(base.local, base.proj + (('subslice', int(a), int(b.lstrip('-') or 0), fromend),))
        else:
            raise ValueError("index? " + s)
        i = k + 1
    return base, i


def parse_operand(s):
    s = s.strip()
    if s.startswith('copy '):
        return Operand('copy', place=parse_place(s[5:]))
    if s.startswith('move '):
        return Operand('move', place=parse_place(s[5:]))
    if s.startswith('const '):
        return Operand('const', const=s[6:].strip())
    if re.match(r'^[A-Za-z<{]', s):
        return Operand('const', const=s)  # bare function item / constructor used as a value
    raise ValueError("operand? " + s)


BINOPS = {"Add", "Sub", "Mul", "Div", "Rem", "BitAnd", "BitOr", "BitXor", "Shl", "Shr", "Eq", "Ne", "Lt", "Le", "Gt",
          "Ge", "Cmp", "Offset", "AddWithOverflow", "SubWithOverflow", "MulWithOverflow", "AddUnchecked",
          "SubUnchecked", "MulUnchecked", "ShlUnchecked", "ShrUnchecked"}
UNOPS = {"Not", "Neg", "PtrMetadata"}


def parse_rvalue(s):
    s = s.strip()
    if s.startswith('no_retag '):
        s = s[9:]
    if s.startswith(('copy ', 'move ', 'const ')):
        # maybe a cast:  <operand> as TYPE (Kind)
        m = re.match(r'^(.*) as (.*) \((\w+)(\(.*\))?\)$', s)
        if m and not s.startswith('const "'):
            try:
                op = parse_operand(m.group(1))
                return Rvalue('cast', op=op, ty=m.group(2), ck=m.group(3))
            except ValueError:
                pass
        return Rvalue('use', op=parse_operand(s))
    if s.startswith('&'):
        rest = s[1:]
        mut = False
        raw = False
        if rest.startswith('raw const '):
            rest = rest[10:]
            raw = True
        elif rest.startswith('raw mut '):
            rest = rest[8:]
            raw = True
            mut = True
        elif rest.startswith('mut '):
            rest = rest[4:]
            mut = True
        elif rest.startswith('fake shallow '):
            rest = rest[13:]
        elif rest.startswith('fake '):
            rest = rest[5:]
        return Rvalue('ref', place=parse_place(rest), mut=mut, raw=raw)
    m = re.match(r'^(\w+)\((.*)\)$', s)
    if m and m.group(1) in BINOPS:
        a, b = split_top(m.group(2))
        return Rvalue('binop', op=m.group(1), l=parse_operand(a), r=parse_operand(b))
    if m and m.group(1) in UNOPS:
        return Rvalue('unop', op=m.group(1), x=parse_operand(m.group(2)))
    if m and m.group(1) == 'discriminant':
        return Rvalue('discriminant', place=parse_place(m.group(2)))
    if m and m.group(1) == 'Len':
        return Rvalue('len', place=parse_place(m.group(2)))
    if m and m.group(1) == 'CopyForDeref':
        return Rvalue('use', op=Operand('copy', place=parse_place(m.group(2))))
    if m and m.group(1) == 'ShallowInitBox':
        a, b = split_top(m.group(2))
        return Rvalue('shallowbox', op=parse_operand(a), ty=b)
    if m and m.group(1) in ('NullOp', 'UbChecks', 'SizeOf', 'AlignOf', 'ThreadLocalRef', 'OffsetOf'):
        return Rvalue('nullop', text=s)
    if s.startswith('['):
        k = find_matching(s, 0)
        inside = s[1:k]
        parts = split_top(inside, ';')
        if len(parts) == 2 and k == len(s) - 1:
            return Rvalue('repeat', op=parse_operand(parts[0]), count=parts[1].strip())
        return Rvalue('array', ops=[parse_operand(x) for x in split_top(inside)])
    if s.startswith('('):
        k = find_matching(s, 0)
        if k == len(s) - 1:
            inside = s[1:k].strip()
            if inside.endswith(','):
                inside = inside[:-1]
            return Rvalue('tuple', ops=[parse_operand(x) for x in split_top(inside)] if inside else [])
    if s.startswith('{closure@') or s.startswith('{coroutine@') or s.startswith('{async'):
        k = find_matching(s, 0)
        name = s[:k + 1]
        rest = s[k + 1:].strip()
        caps = []
        if rest.startswith('{'):
            body = rest[1:find_matching(rest, 0)].strip()
            for f in split_top(body):
                fname, val = f.split(': ', 1)
                caps.append((fname.strip(), parse_operand(val)))
        return Rvalue('closure', name=name, caps=caps)
    # ADT aggregate:  Path::<..>::Variant(ops) | Path::<..> { f: op } | Path::<..>::Unit
    if s.endswith('}'):
        # struct-like
        i = _top_level_brace(s)
        if i is not None:
            path = s[:i].strip()
            body = s[i + 1:-1].strip()
            fields = []
            for f in split_top(body):
                fname, val = f.split(': ', 1)
                fields.append((fname.strip(), parse_operand(val)))
            return Rvalue('adt', path=path, fields=fields, style='struct')
    if s.endswith(')'):
        i = _last_group_start(s)
        path = s[:i].strip()
        inside = s[i + 1:-1]
        ops = [parse_operand(x) for x in split_top(inside)]
        return Rvalue('adt', path=path, fields=[(str(n), o) for n, o in enumerate(ops)], style='tuple')
    return Rvalue('adt', path=s, fields=[], style='unit')


def _top_level_brace(s):
    depth = 0
    i = 0
    n = len(s)
    while i < n:
        c = s[i]
        if c in '<([':
            depth += 1
        elif c in ')]':
            depth -= 1
        elif c == '>' and not (i > 0 and s[i - 1] in '-='):
            depth -= 1
        elif c == '{' and depth == 0:
            return i
        elif c == '{':
            depth += 1
        elif c == '}':
            depth -= 1
        i += 1
    return None


def _last_group_start(s):
    """s ends with ')': index of its matching '(' scanning from the left at top level"""
    depth = 0
    i = 0
    n = len(s)
    last = None
    instr = False
    while i < n:
        c = s[i]
        if instr:
            if c == '\\':
                i += 2
                continue
            if c == '"':
                instr = False
        elif c == '"':
            instr = True
        elif c in '<[{':
            depth += 1
        elif c in ']}':
            depth -= 1
        elif c == '>' and not (i > 0 and s[i - 1] in '-='):
            depth -= 1
        elif c == '(':
            if depth == 0:
                last = i
            depth += 1
        elif c == ')':
            depth -= 1
        i += 1
    if last is None:
        raise ValueError("no group: " + s)
    return last


# ---------------------------------------------------------------- statements / terminators
_targets = re.compile(r'(\w+): (bb\d+|continue|unreachable|terminate\([a-z]*\))')


def _parse_targets(s):
    """'[return: bb1, unwind: bb2]' or '[0: bb1, otherwise: bb3]' -> list of (key, target)"""
    s = s.strip()
    out = []
    if s.startswith('['):
        for part in split_top(s[1:-1]):
            if ': ' in part:
                k, v = part.split(': ', 1)
                out.append((k.strip(), v.strip()))
    return out


def parse_line(line):
    """returns Stmt or Term"""
    s = line.strip()
    assert s.endswith(';'), s
    s = s[:-1]
    if s.startswith('StorageLive(') or s.startswith('StorageDead(') or s == 'nop' or s.startswith('FakeRead(') \
            or s.startswith('AscribeUserType(') or s.startswith('PlaceMention(') or s.startswith('Retag(') \
            or s.startswith('Coverage::') or s.startswith('ConstEvalCounter') or s.startswith('BackwardIncompatibleDropHint'):
        return Stmt('nop', text=s)
    if s.startswith('Deinit('):
        return Stmt('nop', text=s)
    if s.startswith('goto -> '):
        return Term('goto', s, target=s[8:].strip())
    if s == 'return':
        return Term('return', s)
    if s == 'unreachable':
        return Term('unreachable', s)
    if s.startswith('resume') or s.startswith('terminate'):
        return Term('resume', s)
    if s.startswith('switchInt('):
        k = find_matching(s, 9)
        op = parse_operand(s[10:k])
        tg = _parse_targets(s[k + 1:].replace('->', '', 1))
        return Term('switch', s, op=op, targets=tg)
    if s.startswith('drop('):
        k = find_matching(s, 4)
        tg = dict(_parse_targets(s[k + 1:].replace('->', '', 1)))
        return Term('drop', s, place=parse_place(s[5:k]), target=tg.get('return'))
    if s.startswith('assert('):
        k = find_matching(s, 6)
        inside = split_top(s[7:k])
        cond = inside[0]
        neg = cond.startswith('!')
        if neg:
            cond = cond[1:]
        tg = dict(_parse_targets(s[k + 1:].replace('->', '', 1)))
        return Term('assert', s, cond=parse_operand(cond), expected=not neg, msg=inside[1] if len(inside) > 1 else '',
                    target=tg.get('success'))
    if s.startswith('discriminant('):
        k = find_matching(s, 12)
        return Stmt('setdiscr', place=parse_place(s[13:k]), extra=int(s[k + 1:].split('=')[1].strip()), text=s)
    # falseEdge / falseUnwind
    if s.startswith('falseEdge') or s.startswith('falseUnwind'):
        m = re.search(r'bb\d+', s)
        return Term('goto', s, target=m.group())
    # assignment or call
    arrow = _find_arrow(s)
    if arrow is not None:
        head = s[:arrow].rstrip()
        tail = s[arrow + 2:].strip()
        if tail.startswith('['):
            tg = dict(_parse_targets(tail))
            ret = tg.get('return')
        else:
            ret = None  # diverging (unwind continue / unwind: bbN)
        eq = _find_assign(head)
        if eq is not None:
            dest = parse_place(head[:eq])
            callexpr = head[eq + 3:].strip()
        else:
            dest = None
            callexpr = head
        gi = _last_group_start(callexpr)
        func = callexpr[:gi].strip()
        args = [parse_operand(x) for x in split_top(callexpr[gi + 1:-1])]
        return Term('call', s, dest=dest, func=func, args=args, target=ret)
    eq = _find_assign(s)
    if eq is None:
        raise ValueError("cannot parse statement: " + s)
    return Stmt('assign', place=parse_place(s[:eq]), rv=parse_rvalue(s[eq + 3:]), text=s)


def _find_assign(s):
    """index of the first top-level ' = ' (place side has no strings)"""
    depth = 0
    i = 0
    n = len(s)
    while i < n:
        c = s[i]
        if c == '"':
            return None
        if c in '([{<':
            depth += 1
        elif c in ')]}':
            depth -= 1
        elif c == '>' and not (i > 0 and s[i - 1] in '-='):
            depth -= 1
        elif depth == 0 and s.startswith(' = ', i):
            return i
        i += 1
    return None


def _find_arrow(s):
    """index of the top-level '->' that introduces call targets (last top-level ' -> ')"""
    depth = 0
    i = 0
    n = len(s)
    instr = False
    found = None
    while i < n:
        c = s[i]
        if instr:
            if c == '\\':
                i += 2
                continue
            if c == '"':
                instr = False
        elif c == '"':
            instr = True
        elif c in '([{':
            depth += 1
        elif c in ')]}':
            depth -= 1
        elif c == '<':
            depth += 1
        elif c == '>':
            if i > 0 and s[i - 1] == '-':
                if depth == 0 and s[i - 2] == ' ' and (s.startswith('> [', i) or s.startswith('> unwind', i) or s.startswith('> bb', i)):
                    found = i - 1
            elif i > 0 and s[i - 1] == '=':
                pass
            else:
                depth -= 1
        i += 1
    return found


# ---------------------------------------------------------------- file level
_fn_head = re.compile(r'^fn (.*) \{$')
_let = re.compile(r'^\s*let (mut )?_(\d+): (.*);$')
_bb = re.compile(r'^\s*bb(\d+)( \(cleanup\))?: \{$')
_debug = re.compile(r'^\s*debug (\S+) => (.*);$')


def parse_fn_header(h):
    """'NAME(_1: T, _2: U) -> RET'  -> name, params, ret"""
    # find the parameter list: the last top-level (...) group before ' -> ' or end
    arrow = None
    depth = 0
    i = 0
    n = len(h)
    # the parameter list starts at the first '(' that is followed by '_1: ' or is '()' at top-level outside <>
    # function names may contain '(' inside '<impl at ...>' or closures; scan for '(_1: ' or '()' at depth 0
    start = None
    while i < n:
        c = h[i]
        if c in '<[{':
            depth += 1
        elif c in ']}':
            depth -= 1
        elif c == '>' and not (i > 0 and h[i - 1] in '-='):
            depth -= 1
        elif c == '(' and depth == 0:
            if h.startswith('(_1: ', i) or h.startswith('()', i):
                start = i
                break
            depth += 1
        elif c == ')':
            depth -= 1
        i += 1
    if start is None:
        raise ValueError("fn header? " + h)
    end = find_matching(h, start)
    name = h[:start].strip()
    params = []
    for p in split_top(h[start + 1:end]):
        m = re.match(r'_(\d+): (.*)$', p)
        params.append((int(m.group(1)), m.group(2)))
    rest = h[end + 1:].strip()
    ret = rest[3:].strip() if rest.startswith('->') else '()'
    return name, params, ret


def parse_file(path):
    fns = {}
    consts = {}
    order = []
    cur = None
    blk = None
    lines = open(path).read().split('\n')
    i = 0
    n = len(lines)
    mode = None
    while i < n:
        line = lines[i]
        i += 1
        if cur is None:
            m = _fn_head.match(line)
            if m:
                name, params, ret = parse_fn_header(m.group(1))
                cur = Fn(name, params, ret)
                cur.line = i
                for idx, ty in params:
                    cur.locals[idx] = ty
                cur.locals[0] = ret
                mode = 'fn'
                continue
            if line.startswith('const ') or line.startswith('static '):
                body = line.split(' ', 1)[1]
                if body.endswith('= {'):
                    head = body[:-3].strip()
                    cname, cty = head.rsplit(': ', 1) if ': ' in head else (head, '')
                    cur = Fn(cname, [], cty)
                    cur.locals[0] = cty
                    cur.line = i
                    mode = 'const'
                    continue
                m2 = re.match(r'^(.*): ([^=]*) = const (.*);$', body)
                if m2:
                    consts[m2.group(1).strip()] = ('lit', m2.group(3).strip(), m2.group(2).strip())
                continue
            continue
        # inside a body
        if line == '}':
            if mode == 'fn':
                fns.setdefault(cur.name, []).append(cur)
                order.append(cur)
            else:
                consts[cur.name] = ('body', cur, cur.ret)
            cur = None
            blk = None
            continue
        m = _let.match(line)
        if m and blk is None:
            cur.locals[int(m.group(2))] = m.group(3)
            continue
        m = _bb.match(line)
        if m:
            blk = Block(int(m.group(1)), bool(m.group(2)))
            cur.blocks[blk.idx] = blk
            continue
        if blk is None:
            m = _debug.match(line)
            if m:
                cur.debug[m.group(1)] = m.group(2)
            continue
        s = line.strip()
        if s == '}':
            blk = None
            continue
        if not s:
            continue
        if blk.cleanup:
            continue  # panics end a path; cleanup blocks are never executed
        try:
            item = parse_line(s)
        except Exception as e:  # keep going; executing an unparsed statement is INCONCLUSIVE
            item = Stmt('unparsed', text=s, extra=str(e))
        if isinstance(item, Term):
            blk.term = item
        else:
            blk.stmts.append(item)
    return fns, consts, order


if __name__ == "__main__":
    import sys, collections
    fns, consts, order = parse_file(sys.argv[1])
    bad = collections.Counter()
    nst = 0
    for f in order:
        for b in f.blocks.values():
            for st in b.stmts:
                nst += 1
                if st.kind == 'unparsed':
                    bad[st.extra[:60]] += 1
                    if bad[st.extra[:60]] <= 2:
                        print("UNPARSED", f.name[:60], "|", st.text[:200], "|", st.extra[:100])
            if b.term is None and not b.cleanup:
                print("NO TERM", f.name, b.idx)
    print(len(order), "fns", len(consts), "consts", nst, "stmts", sum(bad.values()), "unparsed")
