"""Bounded symbolic execution of rustc MIR with z3 (engine M).

Exploration = depth-first over *decision sequences*: a path is re-executed from the start following a recorded
prefix of decisions; at the first new decision point every feasible alternative (z3 check of path condition AND
branch condition) is pushed on the worklist. No state copying, so Python-side state (cells, logs) needs no snapshots.
"""
import os, re, sys, time
import z3
from values import *
from mirparse import split_top, find_matching
from decls import base_name, generic_args

sys.setrecursionlimit(20000)


class Unmodelled(Exception):
    """a construct / callee without semantics in the VM: the query is INCONCLUSIVE, never skipped"""


class Panic(Exception):
    def __init__(self, msg):
        Exception.__init__(self, msg)
        self.msg = msg


class PathEnd(Exception):
    """path abandoned: infeasible branch or failed assumption"""


class Violation(Exception):
    def __init__(self, msg, model, info=None):
        Exception.__init__(self, msg)
        self.msg = msg
        self.model = model
        self.info = info or {}


class Budget(Exception):
    pass


INT_TYPES = {"u8": (8, False), "u16": (16, False), "u32": (32, False), "u64": (64, False), "u128": (128, False),
             "usize": (64, False), "i8": (8, True), "i16": (16, True), "i32": (32, True), "i64": (64, True),
             "i128": (128, True), "isize": (64, True), "char": (32, False)}

_lit_int = re.compile(r'^(-?\d+)_(u8|u16|u32|u64|u128|usize|i8|i16|i32|i64|i128|isize)$')
_lit_float = re.compile(r'^(-?[0-9.]+(?:[eE][+-]?\d+)?|-?inf|NaN)_?(f32|f64)$')


def subst(s, env):
    if not env or not s:
        return s
    return re.sub(r'\b([A-Z][A-Za-z0-9_]*)\b', lambda m: env.get(m.group(1), m.group(1)), s)


def split_path(s):
    """split `a::b::<X, Y>::c` at top-level '::' -> [(name, generics-or-None)]"""
    segs = []
    i = 0
    n = len(s)
    cur = ''
    while i < n:
        c = s[i]
        if c in '<[({':
            j = find_matching(s, i)
            cur += s[i:j + 1]
            i = j + 1
            continue
        if s.startswith('::', i):
            segs.append(cur)
            cur = ''
            i += 2
            continue
        cur += c
        i += 1
    segs.append(cur)
    out = []
    for seg in segs:
        if seg.startswith('<') and out and not seg.startswith('<impl'):
            # generic args of the previous segment
            out[-1] = (out[-1][0], seg[1:-1])
        else:
            out.append((seg, None))
    return out


def _ite_leaves(x, limit=32):
    """number of leaves if x is an if-then-else tree over numerals, else None"""
    if z3.is_app_of(x, z3.Z3_OP_ITE):
        a = _ite_leaves(x.arg(1), limit)
        b = _ite_leaves(x.arg(2), limit)
        if a is None or b is None or a + b > limit:
            return None
        return a + b
    if z3.is_fp_value(x) or z3.is_bv_value(x):
        return 1
    return None


def lift_ite(f, x):
    """apply f under an if-then-else tree with numeral leaves (constant folding per leaf): keeps grids of concrete
    floats out of the bit-blaster"""
    if z3.is_app_of(x, z3.Z3_OP_ITE):
        return z3.If(x.arg(0), lift_ite(f, x.arg(1)), lift_ite(f, x.arg(2)))
    return z3.simplify(f(x))


def fp_bin(f, l, r):
    if z3.is_fp_value(r) and _ite_leaves(l) not in (None, 1):
        return lift_ite(lambda a: f(a, r), l)
    if z3.is_fp_value(l) and _ite_leaves(r) not in (None, 1):
        return lift_ite(lambda b: f(l, b), r)
    return f(l, r)


class Callee:
    """parsed call-site callee"""

    def __init__(self, text):
        self.text = text
        self.kind = None
        self.self_ty = None
        self.trait = None
        self.trait_full = None
        self.method = None
        self.method_generics = None
        self.segs = None
        s = text
        if s.startswith('<') and not s.startswith('<impl'):
            j = find_matching(s, 0)
            inner = s[1:j]
            rest = s[j + 1:]
            parts = _split_as(inner)
            segs = split_path(rest.lstrip(':'))
            self.method = segs[-1][0]
            self.method_generics = segs[-1][1]
            if len(parts) == 2:
                self.kind = 'trait'
                self.self_ty = parts[0].strip()
                self.trait_full = parts[1].strip()
                self.trait = base_name(self.trait_full)
            else:
                self.kind = 'inherent'
                self.self_ty = inner.strip()
        else:
            segs = split_path(s)
            self.segs = segs
            self.method = segs[-1][0]
            self.method_generics = segs[-1][1]
            if len(segs) >= 2 and segs[-2][0].startswith('<impl '):
                self.kind = 'inherent'
                self.self_ty = segs[-2][0][6:-1].strip()
            elif len(segs) >= 2:
                self.kind = 'path'
                self.self_ty = segs[-2][0] + ('<' + segs[-2][1] + '>' if segs[-2][1] else '')
            else:
                self.kind = 'free'

    @property
    def self_base(self):
        if not self.self_ty:
            return None
        t = self.self_ty.strip()
        while t.startswith('&'):
            t = t[1:].lstrip()
            if t.startswith('mut '):
                t = t[4:]
        if t.startswith('['):
            return '[T]'
        return base_name(t)

    def key(self):
        return (self.self_base, self.trait, self.method)

    def __repr__(self):
        return "Callee(%s)" % self.text


def _split_as(inner):
    depth = 0
    i = 0
    n = len(inner)
    while i < n:
        c = inner[i]
        if c in '<([{':
            depth += 1
        elif c in ')]}':
            depth -= 1
        elif c == '>' and not (i > 0 and inner[i - 1] in '-='):
            depth -= 1
        elif depth == 0 and inner.startswith(' as ', i):
            return [inner[:i], inner[i + 4:]]
        i += 1
    return [inner]


class Program:
    """parsed MIR + declaration index + callee resolution"""

    def __init__(self, fns, consts, order, decls):
        self.fns = fns
        self.consts = consts
        self.order = order
        self.decls = decls
        self.impl_methods = {}   # (self_base, trait|None, method) -> [(Fn, implinfo)]
        self.trait_defaults = {}  # (trait, method) -> Fn
        self.free = {}           # name -> [Fn]
        self.closures = {}       # '{closure@...}' -> Fn
        self.const_by_last = {}
        for k, v in consts.items():
            self.const_by_last.setdefault(split_path(k)[-1][0] if '::' in k else k, []).append((k, v))
        imp = re.compile(r'^(.*?)<impl at (src/[^:]+):(\d+):(\d+): \d+:\d+>::(.*)$')
        for f in order:
            if f.params:
                t0 = f.params[0][1]
                m = re.search(r'\{closure@[^}]*\}', t0)
                if m and '{closure#' in f.name:
                    self.closures[m.group()] = f
                    continue
            if '{closure#' in f.name:
                continue
            m = imp.match(f.name)
            if m:
                rel, line, col, meth = m.group(2), int(m.group(3)), int(m.group(4)), m.group(5)
                info = decls.impls.get((rel, line))
                if info is None:
                    d = decls.derive_at(rel, line, col)
                    if d:
                        info = dict(generics=[], trait=d[0], trait_full=d[0], self_ty=d[1], self_base=d[1])
                if info is None:
                    continue
                self.impl_methods.setdefault((info['self_base'], info['trait'], meth), []).append((f, info))
                continue
            segs = split_path(f.name)
            if len(segs) >= 2 and segs[-2][0] in decls.traits:
                self.trait_defaults[(segs[-2][0], segs[-1][0])] = f
            elif len(segs) >= 2 and segs[-2][0] in decls.structs or (len(segs) >= 2 and segs[-2][0] in decls.enums):
                # e.g. `Universal2DBoxKalmanFilter::{constant#2}`; not functions we call
                self.free.setdefault(segs[-1][0], []).append(f)
            else:
                self.free.setdefault(segs[-1][0], []).append(f)

    def find_fn(self, file_suffix, method, self_base=None, trait=None):
        """lookup for specs: an impl method by (type, trait, name) or a free fn by name"""
        if self_base is not None:
            c = self.impl_methods.get((self_base, trait, method))
            if c:
                return c[0]
            raise KeyError((self_base, trait, method))
        c = self.free.get(method)
        if c:
            return c[0], None
        raise KeyError(method)


class Frame:
    __slots__ = ("fn", "locals", "env")

    def __init__(self, fn, env):
        self.fn = fn
        self.locals = {}
        self.env = env


class VM:
    def __init__(self, prog, models, spec_calls=None, timeout_ms=20000, max_steps=400000):
        self.prog = prog
        self.models = models
        self.spec_calls = spec_calls or {}
        self.timeout_ms = timeout_ms
        self.max_steps = max_steps
        # exploration state
        self.worklist = [[]]
        self.paths_done = 0
        self.paths_infeasible = 0
        self.solver_time = 0.0
        self.solver_calls = 0
        self.steps_total = 0
        self.unknowns = 0
        self.unknown_branches = 0
        self._const_cache = {}
        self.reset_path([])

    # ------------------------------------------------------------ path management
    def reset_path(self, prefix):
        self.prefix = list(prefix)
        self.pos = 0
        self.pc = []
        # always the default (all-theories) solver: a restricted logic silently mis-handles FP terms
        self.solver = z3.Solver()
        self.solver.set("timeout", self.timeout_ms)
        self.fresh_n = 0
        self.steps = 0
        self.log = []      # event log (environment callbacks, notifications, ...)
        self.inputs = {}   # name -> z3 const, for counterexample rendering
        self.notes = {}

    def fresh(self, sort_or_bits, name="s", signed=False):
        self.fresh_n += 1
        nm = "%s!%d" % (name, self.fresh_n)
        if isinstance(sort_or_bits, int):
            e = z3.BitVec(nm, sort_or_bits)
            self.inputs[nm] = e
            return I(e, signed)
        if sort_or_bits == 'bool':
            e = z3.Bool(nm)
        elif sort_or_bits == 'f32':
            e = z3.FP(nm, F32)
        elif sort_or_bits == 'f64':
            e = z3.FP(nm, F64)
        else:
            e = z3.Const(nm, sort_or_bits)
        self.inputs[nm] = e
        return e

    def fresh_tag(self, name="o"):
        self.fresh_n += 1
        return "%s%d" % (name, self.fresh_n)

    def _check(self, *extra):
        t = time.time()
        r = self.solver.check(*extra)
        self.solver_time += time.time() - t
        self.solver_calls += 1
        if r == z3.unknown:
            self.unknowns += 1
            raise Unmodelled("solver returned unknown (%s)" % self.solver.reason_unknown())
        return r

    def add_pc(self, cond):
        self.pc.append(cond)
        self.solver.add(cond)

    def choose(self, conds, what=""):
        """nondeterministic choice among mutually exclusive z3 conditions; returns the index taken"""
        simp = []
        for c in conds:
            if isinstance(c, bool):
                simp.append(z3.BoolVal(c))
            else:
                simp.append(z3.simplify(c))
        live = [k for k, c in enumerate(simp) if not z3.is_false(c)]
        if len(live) == 1 and z3.is_true(simp[live[0]]):
            return live[0]
        if not live:
            raise PathEnd()
        if self.pos < len(self.prefix):
            k = self.prefix[self.pos]
            self.pos += 1
            self.add_pc(simp[k])
            return k
        feas = []
        for k in live:
            try:
                if self._check(simp[k]) == z3.sat:
                    feas.append(k)
            except Unmodelled:
                # the solver could not decide this branch in time: explore it anyway. Over-approximating the feasible
                # paths is sound - an infeasible path can only add a counterexample that fails its native replay
                # (inconclusive), never hide one; oracle checks still need a definite answer.
                self.unknown_branches += 1
                feas.append(k)
        if not feas:
            self.paths_infeasible += 1
            raise PathEnd()
        for other in feas[1:]:
            self.worklist.append(self.prefix + [other])
        k = feas[0]
        self.prefix.append(k)
        self.pos += 1
        self.add_pc(simp[k])
        return k

    def choose_n(self, n, what=""):
        """free nondeterministic choice among n alternatives (no condition)"""
        if n == 1:
            return 0
        if self.pos < len(self.prefix):
            k = self.prefix[self.pos]
            self.pos += 1
            return k
        for other in range(1, n):
            self.worklist.append(self.prefix + [other])
        self.prefix.append(0)
        self.pos += 1
        return 0

    def branch(self, cond):
        """bool decision on a z3 Bool; returns python bool"""
        if isinstance(cond, bool):
            return cond
        return self.choose([cond, z3.Not(cond)]) == 0

    def assume(self, cond):
        if isinstance(cond, bool):
            if not cond:
                raise PathEnd()
            return
        c = z3.simplify(cond)
        if z3.is_true(c):
            return
        if z3.is_false(c):
            raise PathEnd()
        self.add_pc(c)
        if self.pos >= len(self.prefix):
            try:
                if self._check() != z3.sat:
                    raise PathEnd()
            except Unmodelled:
                self.unknown_branches += 1   # undecided assumption: keep the path (over-approximation, see choose())

    def check(self, cond, msg, info=None):
        """property assertion: violated if path condition AND NOT cond is satisfiable"""
        if isinstance(cond, bool):
            if cond:
                return
            cond = z3.BoolVal(False)
        c = z3.simplify(cond)
        if z3.is_true(c):
            return
        self.solver.push()
        self.solver.add(z3.Not(c))
        try:
            try:
                r = self._check()
            except Unmodelled:
                # undecided within the time limit: retry against the path condition WITHOUT its float-arithmetic-heavy
                # conjuncts (a weaker condition = more candidate counterexamples). A model found this way may be
                # spurious; like every counterexample it only counts if its native replay fails.
                m = self._approx_model(z3.Not(c))
                if m is None:
                    raise
                raise Violation(msg + " [counterexample from a relaxed path condition]", m, info)
            if r == z3.sat:
                m = self.solver.model()
                raise Violation(msg, m, info)
        finally:
            self.solver.pop()

    _HEAVY = None

    def _is_heavy(self, e, seen=None):
        """does the term contain float multiplication / division / sqrt / fma / rounding or an uninterpreted function"""
        heavy_kinds = (z3.Z3_OP_FPA_MUL, z3.Z3_OP_FPA_DIV, z3.Z3_OP_FPA_SQRT, z3.Z3_OP_FPA_FMA, z3.Z3_OP_FPA_REM,
                       z3.Z3_OP_FPA_ROUND_TO_INTEGRAL, z3.Z3_OP_UNINTERPRETED)
        seen = seen if seen is not None else set()
        stack = [e]
        while stack:
            x = stack.pop()
            if x.get_id() in seen:
                continue
            seen.add(x.get_id())
            if z3.is_app(x):
                k = x.decl().kind()
                if k in heavy_kinds and (k != z3.Z3_OP_UNINTERPRETED or x.num_args() > 0):
                    return True
                stack.extend(x.children())
        return False

    def _approx_model(self, extra):
        s2 = z3.Solver()
        s2.set("timeout", self.timeout_ms)
        for c in self.pc:
            if not self._is_heavy(c):
                s2.add(c)
        if not self._is_heavy(extra):
            s2.add(extra)
        t = time.time()
        r = s2.check()
        self.solver_time += time.time() - t
        self.solver_calls += 1
        return s2.model() if r == z3.sat else None

    def model(self):
        if self._check() == z3.sat:
            return self.solver.model()
        return None

    def explore(self, run, max_paths=20000, deadline=None):
        """run(vm) once per path. Returns number of completed paths."""
        completed = 0
        while self.worklist:
            if self.paths_done >= max_paths:
                raise Budget("more than %d paths" % max_paths)
            if deadline and time.time() > deadline:
                raise Budget("time budget exhausted after %d paths" % self.paths_done)
            prefix = self.worklist.pop()
            self.reset_path(prefix)
            try:
                run(self)
                completed += 1
            except PathEnd:
                pass
            self.paths_done += 1
            self.steps_total += self.steps
        return completed

    # ------------------------------------------------------------ values from literals / types
    def const_value(self, text, env, fname=None):
        t = text.strip()
        mp = re.search(r'::(promoted\[\d+\])$', t)
        if mp and fname is not None:
            key = fname + '::' + mp.group(1)
            if key in self.prog.consts:
                return self._eval_const(key, self.prog.consts[key])
        m = _lit_int.match(t)
        if m:
            bits, signed = INT_TYPES[m.group(2)]
            return I(z3.BitVecVal(int(m.group(1)), bits), signed)
        m = _lit_float.match(t)
        if m:
            sort = F32 if m.group(2) == 'f32' else F64
            txt = m.group(1)
            if txt == 'inf':
                return z3.fpPlusInfinity(sort)
            if txt == '-inf':
                return z3.fpMinusInfinity(sort)
            if txt == 'NaN':
                return z3.fpNaN(sort)
            return z3.FPVal(float(txt), sort)
        if t == 'true':
            return z3.BoolVal(True)
        if t == 'false':
            return z3.BoolVal(False)
        if t == '()':
            return ()
        if t.startswith('"'):
            return Ref(Cell(t, "str"))
        if t.startswith("'") and t.endswith("'"):
            return I(z3.BitVecVal(ord(t[1:-1].encode().decode('unicode_escape')), 32), False)
        if t.startswith('{closure@'):
            return Closure(t, (), env)
        known = {"usize::MAX": mk_int(2 ** 64 - 1), "u64::MAX": mk_int(2 ** 64 - 1), "i64::MAX": mk_int(2 ** 63 - 1, 64, True),
                 "i64::MIN": mk_int(-2 ** 63, 64, True), "f32::MAX": z3.FPVal(3.4028234663852886e38, F32),
                 "f32::EPSILON": z3.FPVal(1.1920929e-07, F32), "f32::MIN": z3.FPVal(-3.4028234663852886e38, F32),
                 "f32::INFINITY": z3.fpPlusInfinity(F32), "f32::NEG_INFINITY": z3.fpMinusInfinity(F32)}
        if t in known:
            return known[t]
        mc = re.match(r'^(?:std|core)::(f32|f64)::consts::(\w+)$', t)
        if mc:
            import math
            table = {'PI': math.pi, 'TAU': 2 * math.pi, 'FRAC_PI_2': math.pi / 2, 'FRAC_PI_3': math.pi / 3, 'FRAC_PI_4': math.pi / 4, 'FRAC_PI_6': math.pi / 6,
                     'FRAC_PI_8': math.pi / 8, 'FRAC_1_PI': 1 / math.pi, 'FRAC_2_PI': 2 / math.pi, 'E': math.e, 'SQRT_2': math.sqrt(2), 'FRAC_1_SQRT_2': 1 / math.sqrt(2),
                     'LN_2': math.log(2), 'LN_10': math.log(10)}
            if mc.group(2) in table:
                if mc.group(1) == 'f32':
                    import numpy as _np
                    return z3.FPVal(float(_np.float32(table[mc.group(2)])), F32)
                return z3.FPVal(table[mc.group(2)], F64)
        mk_ = re.match(r'^core::(f32|f64|u8|u16|u32|u64|usize|i8|i16|i32|i64|isize|i128|u128)::<impl \1>::(MAX|MIN|EPSILON|INFINITY|NEG_INFINITY|NAN)$', t)
        if mk_:
            ty, what = mk_.group(1), mk_.group(2)
            if ty in ('f32', 'f64'):
                sort = F32 if ty == 'f32' else F64
                big = 3.4028234663852886e38 if ty == 'f32' else 1.7976931348623157e308
                eps = 1.1920928955078125e-07 if ty == 'f32' else 2.220446049250313e-16
                return {'MAX': z3.FPVal(big, sort), 'MIN': z3.FPVal(-big, sort), 'EPSILON': z3.FPVal(eps, sort),
                        'INFINITY': z3.fpPlusInfinity(sort), 'NEG_INFINITY': z3.fpMinusInfinity(sort), 'NAN': z3.fpNaN(sort)}[what]
            bits, signed = INT_TYPES[ty]
            if what == 'MAX':
                return I(z3.BitVecVal(2 ** (bits - 1) - 1 if signed else 2 ** bits - 1, bits), signed)
            if what == 'MIN':
                return I(z3.BitVecVal(-2 ** (bits - 1) if signed else 0, bits), signed)
        ts = subst(t, env)
        segs = split_path(ts)
        last = segs[-1][0]
        cands = self.prog.const_by_last.get(last)
        if cands and not segs[-1][1]:
            # prefer exact suffix match
            for k, v in cands:
                if k == ts or k.endswith('::' + ts) or ts.endswith('::' + k) or ts.endswith(k):
                    return self._eval_const(k, v)
            if len(cands) == 1:
                return self._eval_const(*cands[0])
        if last in self.prog.decls.structs and not self.prog.decls.structs[last]:
            return Adt(last, 0, ())
        if len(segs) >= 2 and segs[-2][0] in self.prog.decls.enums:
            en = segs[-2][0]
            try:
                vi = self.prog.decls.variant_index(en, last)
                fields = self.prog.decls.enums[en][vi][1]
                if not fields:
                    return Adt(en, vi, ())
            except KeyError:
                pass
        if last == 'PhantomData' or ts.startswith('PhantomData'):
            return ()
        if ts.startswith('log::') or 'STATIC_MAX_LEVEL' in ts:
            return Opaque('log', ts)
        return FnItem(ts, env)

    def _eval_const(self, name, v):
        if name in self._const_cache:
            return self._const_cache[name]
        if v[0] == 'lit':
            val = self.const_value(v[1], {})
        else:
            val = self.exec_fn(v[1], [], {})
        if 'promoted[' in name:
            return val  # holds references to per-evaluation cells
        self._const_cache[name] = val
        return val

    # ------------------------------------------------------------ places
    def lvalue(self, frame, place):
        """-> (cell, path)"""
        cell = frame.locals.get(place.local)
        if cell is None:
            cell = Cell(UNINIT, "_%d" % place.local)
            frame.locals[place.local] = cell
        path = ()
        transparent = False
        for p in place.proj:
            k = p[0]
            if k == 'deref':
                v = get_path(cell.v, path)
                if isinstance(v, Ref):
                    cell, path, transparent = v.cell, v.path, v.transparent
                else:
                    raise Unmodelled("deref of non-reference %r in %s" % (v, frame.fn.name))
            elif k == 'field':
                if transparent:
                    continue
                cur = get_path(cell.v, path)
                if isinstance(cur, Ref) and not isinstance(cur, Adt):
                    # Box/Unique/NonNull internals
                    continue
                ty = base_name(p[2])
                if isinstance(cur, (VecV, MapV)) or (ty in ('RawVec', 'RawVecInner')):
                    raise Unmodelled("field projection into library container %r" % (cur,))
                path = path + (p[1],)
            elif k == 'variant':
                continue
            elif k == 'index':
                idx = self.read_local(frame, p[1])
                ci = self.concretize_index(idx, self._len_of(get_path(cell.v, path)))
                path = path + (('idx', ci),)
            elif k == 'constindex':
                cur = get_path(cell.v, path)
                n = self._len_of(cur)
                path = path + (('idx', (n - p[1]) if p[2] else p[1]),)
            else:
                raise Unmodelled("projection %r" % (p,))
        return cell, path

    def _len_of(self, v):
        if isinstance(v, VecV):
            return len(v.items)
        if isinstance(v, tuple):
            return len(v)
        raise Unmodelled("length of %r" % (v,))

    def concretize_index(self, idx, n):
        c = idx.concrete()
        if c is not None:
            if c >= n:
                raise Panic("index out of bounds")
            return c
        conds = [idx.e == k for k in range(n)]
        conds.append(z3.UGE(idx.e, n))
        k = self.choose(conds, "index")
        if k == n:
            raise Panic("index out of bounds")
        return k

    def read_local(self, frame, idx):
        return frame.locals[idx].v

    def read_place(self, frame, place):
        cell, path = self.lvalue(frame, place)
        v = get_path(cell.v, path)
        if v is UNINIT:
            raise Unmodelled("read of uninitialised place %r in %s" % (place, frame.fn.name))
        return v

    def write_place(self, frame, place, val):
        if not place.proj:
            cell = frame.locals.get(place.local)
            if cell is None:
                frame.locals[place.local] = Cell(val, "_%d" % place.local)
            else:
                cell.v = val
            return
        cell, path = self.lvalue(frame, place)
        cell.v = set_path(cell.v, path, val)

    def deref(self, ref):
        return get_path(ref.cell.v, ref.path)

    def store(self, ref, val):
        ref.cell.v = set_path(ref.cell.v, ref.path, val)

    def new_ref(self, val, name="tmp"):
        return Ref(Cell(val, name))

    # ------------------------------------------------------------ operands / rvalues
    def operand(self, frame, op):
        if op.kind == 'const':
            return self.const_value(op.const, frame.env, frame.fn.name)
        return self.read_place(frame, op.place)

    def rvalue(self, frame, rv, dest_ty=None):
        k = rv.kind
        a = rv.a
        if k == 'use':
            return self.operand(frame, a['op'])
        if k == 'ref':
            cell, path = self.lvalue(frame, a['place'])
            return Ref(cell, path)
        if k == 'binop':
            return self.binop(a['op'], self.operand(frame, a['l']), self.operand(frame, a['r']))
        if k == 'unop':
            x = self.operand(frame, a['x'])
            if a['op'] == 'Not':
                if isinstance(x, I):
                    return I(~x.e, x.signed)
                return z3.Not(x)
            if a['op'] == 'Neg':
                if isinstance(x, I):
                    return I(-x.e, x.signed)
                return f_un('neg', x)
            raise Unmodelled("unop " + a['op'])
        if k == 'discriminant':
            v = self.read_place(frame, a['place'])
            if isinstance(v, Adt):
                return I(z3.BitVecVal(v.variant, 8 if v.ty == 'Ordering' else 64), True)
            raise Unmodelled("discriminant of %r" % (v,))
        if k == 'cast':
            return self.cast(self.operand(frame, a['op']), subst(a['ty'], frame.env), a['ck'])
        if k == 'tuple':
            return tuple(self.operand(frame, o) for o in a['ops'])
        if k == 'array':
            return tuple(self.operand(frame, o) for o in a['ops'])
        if k == 'repeat':
            v = self.operand(frame, a['op'])
            cnt = a['count'].strip()
            m = re.match(r'^(?:const )?(\d+)(_usize)?$', cnt)
            if m:
                n = int(m.group(1))
            else:
                cv = self.const_value(cnt.replace('const ', ''), frame.env)
                n = cv.concrete()
            return tuple([v] * n)
        if k == 'closure':
            ops = [o for _, o in a['caps']]
            # rustc's MIR pretty printer names a closure's captures after the captured VARIABLES; with Rust 2021's disjoint
            # field captures (`self.store` and `self.opts` captured separately) there are more operands than names and the
            # printed aggregate is truncated. The body tells how many captures there are; the missing operands are the
            # temporaries that directly follow the printed ones (they are created consecutively for the aggregate).
            body = self.prog.closures.get(a['name'])
            need = 0
            if body is not None:
                for place in body.debug.values():
                    for mm in re.finditer(r'\(\*_1\)\.(\d+)|\b_1\.(\d+)', place):
                        need = max(need, int(mm.group(1) or mm.group(2)) + 1)
            if need > len(ops):
                from mirparse import parse_operand
                loc = [int(o.place.local) if (o.place is not None and not o.place.proj) else None for o in ops]
                ok = ops and all(x is not None for x in loc) and all(loc[i] == loc[0] + i for i in range(len(loc)))
                if not ok:
                    raise Unmodelled("closure aggregate printed with fewer captures than its body uses: " + a['name'])
                try:
                    ops = ops + [parse_operand("move _%d" % (loc[0] + i)) for i in range(len(ops), need)]
                    return Closure(a['name'], [self.operand(frame, o) for o in ops], frame.env)
                except Unmodelled:
                    raise
                except Exception:
                    raise Unmodelled("closure aggregate printed with fewer captures than its body uses: " + a['name'])
            return Closure(a['name'], [self.operand(frame, o) for o in ops], frame.env)
        if k == 'adt':
            return self.aggregate(frame, a)
        if k == 'len':
            v = self.read_place(frame, a['place'])
            return usize(self._len_of(v))
        if k == 'shallowbox':
            return self.operand(frame, a['op'])
        raise Unmodelled("rvalue kind %s" % k)

    def aggregate(self, frame, a):
        path = subst(a['path'], frame.env)
        segs = split_path(path)
        last = segs[-1][0]
        D = self.prog.decls
        vals = [self.operand(frame, o) for _, o in a['fields']]
        if len(segs) >= 2 and segs[-2][0] in D.enums and any(v[0] == last for v in D.enums[segs[-2][0]]):
            en = segs[-2][0]
            return Adt(en, D.variant_index(en, last), vals)
        if last in D.structs:
            names = D.structs[last]
            if a['style'] == 'struct' and names and [n for n, _ in a['fields']] != names[:len(vals)]:
                # reorder by declaration
                byname = {n: v for (n, _), v in zip(a['fields'], vals)}
                vals = [byname[n] for n in names]
            return Adt(last, 0, vals)
        # std aggregates (Range, RangeInclusive, ...)
        return Adt(last, 0, vals)

    def binop(self, op, l, r):
        if isinstance(l, I) and isinstance(r, I):
            a, b, s = l.e, r.e, l.signed
            if op in ('Shl', 'Shr', 'ShlUnchecked', 'ShrUnchecked') and b.size() != a.size():
                b = z3.ZeroExt(a.size() - b.size(), b) if b.size() < a.size() else z3.Extract(a.size() - 1, 0, b)
            if op in ('Add', 'AddUnchecked'):
                return I(a + b, s)
            if op in ('Sub', 'SubUnchecked'):
                return I(a - b, s)
            if op in ('Mul', 'MulUnchecked'):
                return I(a * b, s)
            if op == 'Div':
                return I((a / b) if s else z3.UDiv(a, b), s)
            if op == 'Rem':
                return I(z3.SRem(a, b) if s else z3.URem(a, b), s)
            if op == 'BitAnd':
                return I(a & b, s)
            if op == 'BitOr':
                return I(a | b, s)
            if op == 'BitXor':
                return I(a ^ b, s)
            if op in ('Shl', 'ShlUnchecked'):
                return I(a << b, s)
            if op in ('Shr', 'ShrUnchecked'):
                return I((a >> b) if s else z3.LShR(a, b), s)
            if op == 'Eq':
                return a == b
            if op == 'Ne':
                return a != b
            if op == 'Lt':
                return (a < b) if s else z3.ULT(a, b)
            if op == 'Le':
                return (a <= b) if s else z3.ULE(a, b)
            if op == 'Gt':
                return (a > b) if s else z3.UGT(a, b)
            if op == 'Ge':
                return (a >= b) if s else z3.UGE(a, b)
            if op == 'AddWithOverflow':
                ovf = z3.Not(z3.And(z3.BVAddNoOverflow(a, b, s), z3.BVAddNoUnderflow(a, b))) if s else z3.Not(z3.BVAddNoOverflow(a, b, False))
                return (I(a + b, s), ovf)
            if op == 'SubWithOverflow':
                ovf = z3.Not(z3.And(z3.BVSubNoOverflow(a, b), z3.BVSubNoUnderflow(a, b, s))) if s else z3.ULT(a, b)
                return (I(a - b, s), ovf)
            if op == 'MulWithOverflow':
                ovf = z3.Not(z3.And(z3.BVMulNoOverflow(a, b, s), z3.BVMulNoUnderflow(a, b))) if s else z3.Not(z3.BVMulNoOverflow(a, b, False))
                return (I(a * b, s), ovf)
            if op == 'Cmp':
                raise Unmodelled("three-way Cmp")
            raise Unmodelled("int binop " + op)
        if isfp(l) and isfp(r):
            arith = {'Add': 'add', 'Sub': 'sub', 'Mul': 'mul', 'Div': 'div'}
            rels = {'Eq': 'eq', 'Ne': 'ne', 'Lt': 'lt', 'Le': 'le', 'Gt': 'gt', 'Ge': 'ge'}
            if op in arith:
                if both_fset(l, r):
                    return fs_bin(arith[op], l, r)   # exact grid floats: folded per value
                return fp_bin(Z3_ARITH[arith[op]], fp_plain(l), fp_plain(r))
            if op in rels:
                return f_rel(rels[op], l, r)
            if op == 'Rem':
                return z3.fpRem(fp_plain(l), fp_plain(r))
            raise Unmodelled("float binop " + op)
        if z3.is_bool(l) and z3.is_bool(r):
            if op == 'Eq':
                return l == r
            if op == 'Ne':
                return l != r
            if op == 'BitAnd':
                return z3.And(l, r)
            if op == 'BitOr':
                return z3.Or(l, r)
            if op == 'BitXor':
                return z3.Xor(l, r)
            raise Unmodelled("bool binop " + op)
        if l == () and r == ():
            if op == 'Eq':
                return z3.BoolVal(True)
        raise Unmodelled("binop %s on %r, %r" % (op, l, r))

    def cast(self, v, ty, kind):
        ty = ty.strip()
        if kind in ('PointerCoercion', 'PtrToPtr', 'Transmute', 'PointerExposeProvenance', 'PointerWithExposedProvenance',
                    'FnPtrToPtr', 'Subtype'):
            return v
        if kind == 'IntToInt':
            bits, signed = INT_TYPES[ty]
            if isinstance(v, I):
                e = v.e
                src = e.size()
                if bits > src:
                    e = z3.SignExt(bits - src, e) if v.signed else z3.ZeroExt(bits - src, e)
                elif bits < src:
                    e = z3.Extract(bits - 1, 0, e)
                return I(e, signed)
            if z3.is_bool(v):
                return I(z3.If(v, z3.BitVecVal(1, bits), z3.BitVecVal(0, bits)), signed)
        if isinstance(v, FSet):
            if kind == 'FloatToFloat':
                return f_to(v, F32 if ty == 'f32' else F64)
            if kind == 'FloatToInt':
                e = None
                for val, c in reversed(v.cases):
                    iv = z3.simplify(self.cast(np_to_z3(val, v.sort), ty, kind).e)
                    e = iv if e is None else z3.If(c, iv, e)
                return I(e, INT_TYPES[ty][1])
        if kind == 'IntToFloat':
            sort = F32 if ty == 'f32' else F64
            return z3.fpSignedToFP(RNE, v.e, sort) if v.signed else z3.fpUnsignedToFP(RNE, v.e, sort)
        if kind == 'FloatToFloat':
            sort = F32 if ty == 'f32' else F64
            return z3.fpFPToFP(RNE, v, sort)
        if kind == 'FloatToInt' and _ite_leaves(v) not in (None, 1):
            return I(lift_ite(lambda a: self.cast(a, ty, kind).e, v), INT_TYPES[ty][1])
        if kind == 'FloatToInt':
            bits, signed = INT_TYPES[ty]
            # Rust `as`: saturating, NaN -> 0
            if signed:
                lo, hi = -(2 ** (bits - 1)), 2 ** (bits - 1) - 1
                conv = z3.fpToSBV(z3.RTZ(), v, z3.BitVecSort(bits))
            else:
                lo, hi = 0, 2 ** bits - 1
                conv = z3.fpToUBV(z3.RTZ(), v, z3.BitVecSort(bits))
            srt = v.sort()
            lo_f = z3.FPVal(float(lo), srt)
            hi_f = z3.FPVal(float(hi), srt)
            e = z3.If(z3.fpIsNaN(v), z3.BitVecVal(0, bits),
                      z3.If(z3.fpLEQ(v, lo_f), z3.BitVecVal(lo, bits),
                            z3.If(z3.fpGEQ(v, hi_f), z3.BitVecVal(hi, bits), conv)))
            return I(e, signed)
        raise Unmodelled("cast %s to %s" % (kind, ty))

    # ------------------------------------------------------------ execution
    def exec_fn(self, fn, args, env):
        frame = Frame(fn, env)
        for (idx, _ty), v in zip(fn.params, args):
            frame.locals[idx] = Cell(v, "_%d" % idx)
        if len(args) != len(fn.params):
            raise Unmodelled("arity mismatch calling %s" % fn.name)
        bb = 0
        while True:
            blk = fn.blocks[bb]
            for st in blk.stmts:
                self.steps += 1
                if st.kind == 'nop':
                    continue
                if st.kind == 'assign':
                    self.write_place(frame, st.place, self.rvalue(frame, st.rv))
                elif st.kind == 'setdiscr':
                    raise Unmodelled("SetDiscriminant")
                else:
                    raise Unmodelled("statement: " + st.text[:120])
            if self.steps > self.max_steps:
                raise Budget("step budget exhausted in " + fn.name)
            t = blk.term
            k = t.kind
            if k == 'goto':
                bb = int(t.a['target'][2:])
            elif k == 'return':
                c = frame.locals.get(0)
                return c.v if c is not None else ()
            elif k == 'switch':
                v = self.operand(frame, t.a['op'])
                bb = self.switch(v, t.a['targets'])
            elif k == 'drop':
                bb = int(t.a['target'][2:])
            elif k == 'assert':
                c = self.operand(frame, t.a['cond'])
                ok = c if t.a['expected'] else z3.Not(c)
                if self.branch(ok):
                    bb = int(t.a['target'][2:])
                else:
                    raise Panic("assert failed: " + t.a['msg'][:80])
            elif k == 'call':
                dest = t.a['dest']
                dest_ty = subst(fn.locals.get(dest.local), env) if dest is not None and not dest.proj else None
                args_v = [self.operand(frame, o) for o in t.a['args']]
                rv = self.call(subst(t.a['func'], env), args_v, env, dest_ty, frame)
                if t.a['target'] is None:
                    raise Unmodelled("diverging call returned: " + t.a['func'])
                if dest is not None:
                    self.write_place(frame, dest, rv)
                bb = int(t.a['target'][2:])
            elif k == 'unreachable':
                raise Unmodelled("reached `unreachable` in " + fn.name)
            else:
                raise Unmodelled("terminator " + k)

    def switch(self, v, targets):
        other = None
        cases = []
        for key, tgt in targets:
            if key == 'otherwise':
                other = int(tgt[2:])
            else:
                cases.append((int(key), int(tgt[2:])))
        if z3.is_bool(v):
            conds = []
            tg = []
            for val, t in cases:
                conds.append(v if val != 0 else z3.Not(v))
                tg.append(t)
            if other is not None:
                conds.append(z3.Not(z3.Or(conds)) if conds else z3.BoolVal(True))
                tg.append(other)
            return tg[self.choose(conds, "switch")]
        if isinstance(v, I):
            c = v.concrete()
            if c is not None:
                for val, t in cases:
                    mask = (1 << v.bits) - 1
                    if (val & mask) == (c & mask):
                        return t
                if other is None:
                    raise Unmodelled("switch without matching case")
                return other
            conds = [v.e == z3.BitVecVal(val, v.bits) for val, t in cases]
            tg = [t for _, t in cases]
            if other is not None:
                conds.append(z3.Not(z3.Or(conds)))
                tg.append(other)
            return tg[self.choose(conds, "switch")]
        raise Unmodelled("switch on %r" % (v,))

    # ------------------------------------------------------------ calls
    def call(self, func, args, env, dest_ty, frame=None):
        if func.startswith('move _') or func.startswith('copy _'):
            # call through a fn pointer / closure held in a local
            from mirparse import parse_operand
            fv = self.operand(frame, parse_operand(func))
            return self.call_value(fv, args)
        func = self.normalize_assoc(func)
        cal = Callee(func)
        cal.dest_ty = dest_ty
        cal.env = env
        # 1. spec overrides
        h = self.spec_calls.get(cal.key()) or self.spec_calls.get((None, cal.trait, cal.method)) if cal.kind == 'trait' else self.spec_calls.get(cal.key())
        if h is not None:
            r = h(self, cal, args)
            if r is not NotImplemented:
                return r
        # std's blanket impls `impl<A: PartialEq<B>, B> PartialEq<&B> for &A` (and PartialOrd / Ord): one level of
        # references is peeled off and the call re-dispatched
        if cal.kind == 'trait' and cal.trait in ('PartialEq', 'PartialOrd', 'Ord') and (cal.self_ty or '').lstrip().startswith('&') \
                and all(isinstance(a, Ref) and isinstance(self.deref(a), Ref) for a in args):
            inner_self = re.sub(r"^&\s*('\w+\s+)?(mut\s+)?", '', cal.self_ty.strip())
            inner_tr = re.sub(r"<&\s*('\w+\s+)?(mut\s+)?", '<', cal.trait_full or cal.trait)
            return self.call("<%s as %s>::%s" % (inner_self, inner_tr, cal.method), [self.deref(a) for a in args], env, dest_ty, frame)
        # 2. crate MIR
        r = self.resolve(cal)
        if r is not None:
            fn, cenv = r
            return self.exec_fn(fn, self.adapt_args(fn, args), cenv)
        # 3. library models
        m = self.models.lookup(cal)
        if m is not None:
            return m(self, cal, args)
        # 4. environment callback on a generic parameter / unknown type
        h = self.spec_calls.get('*')
        if h is not None:
            r = h(self, cal, args)
            if r is not NotImplemented:
                return r
        # a tuple struct's name used as a function (e.g. `.map(PyWastedSortTrack)`)
        if cal.kind == 'free' and cal.method in self.prog.decls.structs and \
                self.prog.decls.structs[cal.method] == [str(i) for i in range(len(args))] and args:
            return Adt(cal.method, 0, tuple(args))
        raise Unmodelled("no semantics for callee `%s`" % func)

    _assoc_re = re.compile(r'<([A-Za-z_][\w:]*(?:<[^<>]*>)?) as ([A-Za-z_][\w:]*)(<[^<>]*>)?>::([A-Z]\w*)')

    def normalize_assoc(self, func):
        """replace projections `<T as Trait<..>>::Assoc` by the associated type the crate's impl declares"""
        table = self.prog.decls.assoc_types
        if not table or ' as ' not in func:
            return func
        for _ in range(4):
            changed = False
            for m in list(self._assoc_re.finditer(func)):
                key = (base_name(m.group(1)), base_name(m.group(2)), m.group(4))
                if key in table:
                    func = func[:m.start()] + table[key] + func[m.end():]
                    changed = True
                    break
            if not changed:
                break
        return func

    def adapt_args(self, fn, args):
        return args

    def resolve(self, cal):
        P = self.prog
        if cal.kind == 'trait':
            c = P.impl_methods.get((cal.self_base, cal.trait, cal.method))
            if c:
                fn, info = self._pick_impl(c, cal)
                return fn, self.bind_impl(info, cal.self_ty)
            # trait default method, if the self type implements the trait in this crate or is generic
            d = P.trait_defaults.get((cal.trait, cal.method))
            # a provided (default) method is only used when the implementor is known not to override it: a crate
            # type with an impl of the trait, or the abstract `Self` of the default method being executed. For an
            # opaque generic type the call is an environment callback.
            known = cal.self_base == 'Self' or any(i['trait'] == cal.trait and i['self_base'] == cal.self_base
                                                   for i in P.decls.impls.values())
            if d is not None and known:
                env = {'Self': cal.self_ty}
                tg = P.decls.trait_generics.get(cal.trait, [])
                for name, val in zip(tg, generic_args(cal.trait_full)):
                    env[name] = val
                return d, env
            return None
        if cal.kind in ('path', 'inherent'):
            c = P.impl_methods.get((cal.self_base, None, cal.method))
            if c:
                fn, info = self._pick_impl(c, cal)
                return fn, self.bind_impl(info, cal.self_ty)
            if cal.kind == 'path':
                # `Trait::method` paths or module-qualified free functions
                c = P.free.get(cal.method)
                if c and len(c) > 1 and cal.segs:
                    # several free functions of that name (e.g. the two voting_thread): the module path decides
                    path = '::'.join(sg[0] for sg in cal.segs)
                    c2 = [f for f in c if f.name == path or f.name.endswith('::' + path) or path.endswith('::' + f.name)]
                    if len(c2) == 1:
                        c = c2
                if c and len(c) == 1 and cal.segs and cal.segs[-2][0] not in P.decls.structs and cal.segs[-2][0][:1].islower():
                    return c[0], {}
            return None
        if cal.kind == 'free':
            c = P.free.get(cal.method)
            if c and len(c) == 1:
                return c[0], {}
        return None

    def _pick_impl(self, cands, cal):
        if len(cands) == 1:
            return cands[0]
        # several impls for the same base (e.g. impl FromVec<&Vec<f32>,..> / FromVec<Vec<f32>,..>): match trait args
        want = ''.join((cal.trait_full or '').split())
        for fn, info in cands:
            if ''.join((info.get('trait_full') or '').split()) == want:
                return fn, info
        sa = ''.join(cal.self_ty.split())
        for fn, info in cands:
            if ''.join(info['self_ty'].split()) == sa:
                return fn, info
        raise Unmodelled("ambiguous impl for %s" % cal.text)

    def bind_impl(self, info, self_ty):
        env = {}
        if info['generics']:
            formal = generic_args(info['self_ty'])
            actual = generic_args(self_ty)
            for f, a in zip(formal, actual):
                if f in info['generics']:
                    env[f] = a
        env['Self'] = self_ty
        return env

    def call_value(self, fv, args):
        """call a closure / fn item with already evaluated argument list"""
        if isinstance(fv, Ref):
            fv = self.deref(fv)
        if isinstance(fv, Closure):
            fn = self.prog.closures.get(fv.name)
            if fn is None:
                raise Unmodelled("closure body not found: " + fv.name)
            p0 = fn.params[0][1]
            selfarg = Ref(Cell(fv, "closure")) if p0.startswith('&') else fv
            return self.exec_fn(fn, [selfarg] + list(args), fv.env)
        if isinstance(fv, FnItem):
            return self.call(fv.path, list(args), fv.env, None)
        raise Unmodelled("call of %r" % (fv,))

    # ------------------------------------------------------------ fresh values by type (environment results)
    def fresh_of_type(self, ty, name="env"):
        ty = ty.strip()
        if ty in INT_TYPES:
            bits, signed = INT_TYPES[ty]
            return self.fresh(bits, name, signed)
        if ty in ('f32', 'f64'):
            return self.fresh(ty, name)
        if ty == 'bool':
            return self.fresh('bool', name)
        if ty == '()':
            return ()
        b = base_name(ty)
        ga = generic_args(ty)
        if b == 'Result' and len(ga) == 2:
            if self.choose_n(2, "result") == 0:
                return Adt('Result', 0, (self.fresh_of_type(ga[0], name),))
            return Adt('Result', 1, (self.fresh_of_type(ga[1], name),))
        if b == 'Option' and len(ga) == 1:
            if self.choose_n(2, "option") == 0:
                return Adt('Option', 0, ())
            return Adt('Option', 1, (self.fresh_of_type(ga[0], name),))
        if ty.startswith('(') and ty.endswith(')'):
            return tuple(self.fresh_of_type(t, name) for t in split_top(ty[1:-1]))
        if b in self.prog.decls.enums and not self.prog.decls.enums[b] == []:
            vs = self.prog.decls.enums[b]
            if all(not f for _, f in vs):
                k = self.choose_n(len(vs), "enum")
                return Adt(b, k, ())
        return Opaque(ty, self.fresh_tag(name))
