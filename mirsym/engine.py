"""Loading of the MIR program for engine M."""
import os, subprocess, time
import mirparse, decls, vm as vmmod, models


def dump_mir(repo_dir, out_path, target_dir, features=None):
    """regenerate the MIR dump from the (scratch copy of the) repository's current source"""
    subprocess.check_call(["touch", os.path.join(repo_dir, "src", "lib.rs")])
    env = dict(os.environ)
    env["CARGO_NET_OFFLINE"] = "true"
    env.pop("RUSTFLAGS", None)
    # features=None: the library without the Python bindings; "python": the default feature set (pyo3 wrappers included)
    feat = [] if features == "python" else ["--no-default-features"]
    cmd = ["cargo", "+nightly", "rustc", "--offline", "--lib"] + feat + ["--target-dir", target_dir, "--",
           "-Zunpretty=mir", "-Zmir-opt-level=0", "-C", "opt-level=0", "-C", "debug-assertions=off", "-C", "overflow-checks=on"]
    with open(out_path, "w") as out:
        p = subprocess.run(cmd, cwd=repo_dir, env=env, stdout=out, stderr=subprocess.PIPE, text=True)
    if p.returncode != 0 or os.path.getsize(out_path) < 1000:
        raise RuntimeError("MIR dump failed:\n" + p.stderr[-3000:])


def load(mir_path, repo_dir):
    fns, consts, order = mirparse.parse_file(mir_path)
    d = decls.Decls(repo_dir)
    return vmmod.Program(fns, consts, order, d)


def new_vm(prog, spec_calls=None, **kw):
    return vmmod.VM(prog, models.M, spec_calls, **kw)
