#!/bin/sh
# Offline setup: only verifies that the pre-installed tools this framework needs are present.
set -e
for t in cargo cargo-kani z3 cvc5 python3-vt; do command -v $t >/dev/null || { echo "missing tool: $t"; exit 1; }; done
python3-vt -c "import z3" 
rustup toolchain list | grep -q nightly
echo setup ok
